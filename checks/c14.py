"""C14 -- simulated tomograms contain the template at the requested poses.

Real code: acryo/simulator.py (_prep_iterators, _compose_affine_matrices, _eyes, _prep_slices,
_simulate_one, _simulate_2d_one, TomogramSimulator._simulate, simulate_2d, add_molecules) and
acryo/_utils.py:make_slice_and_pad.
"""
from __future__ import annotations

import itertools
from fractions import Fraction

import numpy as np
import z3

from symx import harness, load, rotation, stubs
from symx.arrays import SymArray, to_symarray, _obj
from symx.core import Sym, explore, integer, lift, real, _real, _coerce
from symx.plshim import PlShim

from .common import TRUSTED, fl, frac, quick, select

PID = "C14"
MODS = ["acryo._utils", "acryo.molecules._rotation", "acryo.molecules.core", "acryo.simulator"]


def _real_ndi():
    import scipy.ndimage

    return scipy.ndimage


def zr(x):
    return _real(lift(_coerce(x)))


def zi(x):
    return lift(_coerce(x))


def _load(patches=None):
    stubs.patch_dask_from_delayed()
    return load.load(MODS, overrides={"Rotation": rotation.SymRotation, "pl": PlShim()}, patches=patches)


class ImgTok:
    """template image known by shape only"""

    _symx_passthrough = True

    def __init__(self, shape):
        self.shape = tuple(shape)
        self.ndim = len(shape)

    def __getitem__(self, key):
        return ("sliced", self, key)


# ---------------------------------------------------------------------------------------
# replay through the public API


def replay_place(shape=None):
    """a template pasted at a grid-coincident pose must be pasted exactly, and loading there returns it"""

    def run(cex):
        from acryo import TomogramSimulator, Molecules, SubtomogramLoader

        shp = tuple(int(frac(cex.get(f"s{a}", (shape or (4, 5, 6))[a]))) for a in range(3))
        shp = tuple(min(max(s, 1), 9) for s in shp)
        rng = np.random.default_rng(2)
        tmpl = rng.normal(size=shp).astype(np.float32)
        ctr = np.array([(s - 1) / 2 for s in shp])
        corner = np.array([7, 8, 9])
        pos = corner + ctr  # integer for odd sides, half-integer for even sides
        sim = TomogramSimulator(order=3, scale=1.0)
        sim.add_molecules(Molecules([pos]), tmpl)
        tomo = sim.simulate((24, 26, 28))
        block = tomo[tuple(slice(c, c + s) for c, s in zip(corner, shp))]
        err_paste = float(np.abs(block - tmpl).max())
        total = float(np.abs(tomo).sum() - np.abs(tmpl).sum())
        out = SubtomogramLoader(tomo, Molecules([pos]), order=1, output_shape=shp).load(0)
        err_load = float(np.abs(out - tmpl).max())
        bad = err_paste > 1e-4 or err_load > 1e-4
        # rotated molecules at positions off the grid: the centre of mass of an isotropic blob sits at the molecule position, and loading there returns the template
        from scipy.spatial.transform import Rotation

        n = 9
        zz = np.indices((n, n, n)).astype(float) - (n - 1) / 2
        blob = np.exp(-(zz ** 2).sum(axis=0) / 3.0).astype(np.float32)
        asym = (blob * (1 + 0.3 * zz[0] + 0.2 * zz[2])).astype(np.float32)
        worst_com, worst_load = 0.0, 0.0
        for rv in ([0, 0, 0], [0.9, 0, 0], [0.3, -0.8, 0.5]):
            for p in ([12.0, 13.0, 11.0], [12.3, 13.6, 11.45]):
                mol = Molecules([p], Rotation.from_rotvec([rv]))
                for t in (blob, asym):
                    sm = TomogramSimulator(order=3, scale=1.0)
                    sm.add_molecules(mol, t)
                    vol = sm.simulate((26, 27, 25))
                    if t is blob:
                        w = np.clip(vol, 0, None)
                        com = np.array([(np.indices(vol.shape)[a] * w).sum() / w.sum() for a in range(3)])
                        worst_com = max(worst_com, float(np.abs(com - np.array(p)).max()))
                    else:
                        back = SubtomogramLoader(vol, mol, order=3, output_shape=(n, n, n)).load(0)
                        worst_load = max(worst_load, float(np.abs(back - t).max()))
        bad = bad or worst_com > 0.05 or worst_load > 0.15
        return bad, {"template_shape": list(shp), "pos": pos.tolist(), "max_abs_err_paste": err_paste, "max_abs_err_load_back": err_load, "mass_outside_block": total,
                     "rotated_off_grid: centre_of_mass_error_px": worst_com, "rotated_off_grid: load_back_error": worst_load}

    return run


def replay_untouched(cex):
    """installed library: simulate / simulate_2d at scale 1.0 and at another scale leave the molecules' positions as they were, and a second simulation gives the same tomogram"""
    from acryo import TomogramSimulator, Molecules

    bad = {}
    rng = np.random.default_rng(5)
    tmpl = rng.normal(size=(5, 5, 5)).astype(np.float32)
    for scale in (1.0, 0.5):
        pos0 = np.array([[8.0, 9.0, 10.0], [12.0, 7.0, 9.0]]) * scale
        mol = Molecules(pos0.copy())
        sim = TomogramSimulator(order=1, scale=scale)
        sim.add_molecules(mol, tmpl)
        first = sim.simulate((22, 22, 22))
        d1 = float(np.abs(mol.pos - pos0).max())
        second = sim.simulate((22, 22, 22))
        sim.simulate_2d((22, 22))
        d2 = float(np.abs(mol.pos - pos0).max())
        if d1 > 1e-6 or d2 > 1e-6 or float(np.abs(first - second).max()) > 1e-6:
            bad[f"scale={scale}"] = {"positions_moved_by": max(d1, d2), "second_simulation_differs_by": float(np.abs(first - second).max())}
    return len(bad) > 0, {"problems": bad}


def replay_2d():
    def run(cex):
        from acryo import TomogramSimulator, Molecules

        rng = np.random.default_rng(4)
        tmpl = rng.normal(size=(3, 4, 5)).astype(np.float32)
        tmpl2 = rng.normal(size=(2, 2, 2)).astype(np.float32)
        scale = fl(cex.get("scale", 1.0)) or 1.0
        if all(f"p{i}{a}" in cex for i in range(3) for a in range(3)):
            pos = [[fl(cex[f"p{i}{a}"]) for a in range(3)] for i in range(3)]
        else:
            pos = [[4 * scale, 5 * scale, 6 * scale], [5 * scale, 12 * scale, 7 * scale], [3 * scale, 8 * scale, 14 * scale]]
        sim = TomogramSimulator(order=1, scale=scale)
        sim.add_molecules(Molecules(pos[:2]), tmpl)
        sim.add_molecules(Molecules(pos[2:]), tmpl2)
        depth = int(np.ceil(max(p[0] for p in pos) / scale)) + 12
        vol = sim.simulate((depth, 40, 40))
        proj = sim.simulate_2d((40, 40))
        err = float(np.abs(proj - vol.sum(axis=0)).max())
        # a molecule whose box straddles the LOW z face (and one the low y face): the planes outside the volume are clipped in 3-D, so they are not projected either
        sim2 = TomogramSimulator(order=1, scale=scale)
        sim2.add_molecules(Molecules([[0.0, 10 * scale, 12 * scale], [-0.5 * scale, 25 * scale, 30 * scale], [6 * scale, 0.5 * scale, 20 * scale]]), tmpl)
        vol2 = sim2.simulate((16, 40, 40))
        err2 = float(np.abs(sim2.simulate_2d((40, 40)) - vol2.sum(axis=0)).max())
        return max(err, err2) > 1e-4, {"max_abs_err_projection_vs_zsum": err, "straddling_the_low_z_face": err2, "positions_nm": pos, "scale": scale}

    return run


def replay_clip():
    """molecules straddling each face are clipped: equal to the crop of a simulation in a padded volume"""

    def run(cex):
        from acryo import TomogramSimulator, Molecules

        rng = np.random.default_rng(6)
        tmpl = rng.normal(size=(5, 4, 6)).astype(np.float32)
        ctr = np.array([(s - 1) / 2 for s in tmpl.shape])
        worst = 0.0
        details = []
        for corner in itertools.product((-2, 7, 17), repeat=3):
            pos = np.array(corner) + ctr
            sim = TomogramSimulator(order=1, scale=1.0)
            sim.add_molecules(Molecules([pos]), tmpl)
            small = sim.simulate((20, 20, 20))
            big = TomogramSimulator(order=1, scale=1.0)
            big.add_molecules(Molecules([pos + 10]), tmpl)
            ref = big.simulate((40, 40, 40))[10:30, 10:30, 10:30]
            e = float(np.abs(small - ref).max())
            if e > 1e-4:
                details.append({"corner": list(corner), "max_abs_err": e})
            worst = max(worst, e)
        # a template that overhangs BOTH faces of the tomogram along an axis (slab thinner than the template)
        for shape, off in (((3, 20, 20), (1.0, 8.0, 9.0)), ((20, 2, 20), (9.0, 0.5, 8.0)), ((3, 20, 4), (1.0, 7.0, 1.5))):
            pos = np.array(off)
            try:
                sim = TomogramSimulator(order=1, scale=1.0)
                sim.add_molecules(Molecules([pos]), tmpl)
                small = sim.simulate(shape)
                big = TomogramSimulator(order=1, scale=1.0)
                big.add_molecules(Molecules([pos + 10]), tmpl)
                ref = big.simulate(tuple(s + 20 for s in shape))[tuple(slice(10, 10 + s) for s in shape)]
                e = float(np.abs(small - ref).max())
            except Exception as ex:
                details.append({"slab": list(shape), "raised": repr(ex)[:160]})
                worst = max(worst, 1.0)
                continue
            if e > 1e-4:
                details.append({"slab": list(shape), "max_abs_err": e})
            worst = max(worst, e)
        return worst > 1e-4, {"max_abs_err_vs_padded_reference": worst, "failing_corners": details[:4], "n_failing": len(details)}

    return run


# ---------------------------------------------------------------------------------------


def sec_rule(rec, n_mol=1, patches=None):
    """tomogram voxel t of the pasted fragment reads template coordinate c + R^-1 (t - pos/scale)"""
    L = _load(patches)
    S = L["acryo.simulator"]
    MC = L["acryo.molecules.core"]
    rec.encodes("acryo/simulator.py:_prep_iterators", "acryo/simulator.py:_compose_affine_matrices", "acryo/simulator.py:_eyes")
    rec.assume("scipy.ndimage.affine_transform(img, M, order, mode='constant', cval=0): out[o] = Interp(img, M @ (o,1)), output shape = img.shape (C02 conformance)")
    scale = real("scale")
    shp = [integer(f"s{a}") for a in range(3)]
    pos = [[real(f"p{i}{a}") for a in range(3)] for i in range(n_mol)]
    Rs = [[[real(f"r{i}_{a}{b}") for b in range(3)] for a in range(3)] for i in range(n_mol)]
    hyps = [scale.e > 0] + [s.e >= 1 for s in shp]
    names = {"scale"} | {f"s{a}" for a in range(3)} | {f"p{i}{a}" for i in range(n_mol) for a in range(3)}

    def run():
        mol = MC.Molecules(to_symarray(pos), rotation.SymRotation(mat=Rs, single=False))
        return S._prep_iterators(mol, tuple(shp), scale)

    paths = explore(run, assumptions=hyps, max_paths=600)
    t = [z3.Real(f"t{a}") for a in range(3)]
    rp = replay_place()
    for pi, p in enumerate(paths):
        if not p.ok:
            rec.fact(f"rule/path{pi}/runs", False, key="C14/rule/raises", detail={"exc": repr(p.exc)[:200]}, reproduced=rp({})[0])
            continue
        starts, stops, mtxs = p.result
        h = hyps + [p.condition()]
        rec.fact(f"rule/path{pi}/one-fragment-per-molecule", len(starts) == n_mol and len(stops) == n_mol and len(mtxs) == n_mol, key="C14/rule/count", detail={})
        for i in range(n_mol):
            M = mtxs[i]
            for a in range(3):
                st = zi(starts[i, a])
                # integer slice and its width
                rec.query(f"rule/path{pi}/mol{i}/stop-start=side-axis{a}", h, zi(stops[i, a]) - st == shp[a].e, key="C14/rule/slice-width", names=names, replay=rp)
                o = [t[b] - _real(zi(starts[i, b])) for b in range(3)]
                got = sum((zr(M[a, b]) * o[b] for b in range(3)), z3.RealVal(0)) + zr(M[a, 3])
                c = (_real(shp[a].e) - 1) / 2
                # R^-1 = transpose for the rotation matrix handed in
                want = c + sum((Rs[i][b][a].e * (t[b] - pos[i][b].e / scale.e) for b in range(3)), z3.RealVal(0))
                rec.query(f"rule/path{pi}/mol{i}/template-coordinate-axis{a}", h, got == want, key="C14/rule/centre-lands-on-molecule", names=names | {f"t{b}" for b in range(3)},
                          replay=rp, prefer=[[s.e <= 6 for s in shp] + [scale.e == 1]])
            rec.query(f"rule/path{pi}/mol{i}/homogeneous-row", h, z3.And(*[zr(M[3, b]) == (1 if b == 3 else 0) for b in range(4)]), key="C14/rule/matrix-last-row", names=names)


def sec_slices(rec, patches=None):
    """destination/source slices pair tomogram voxel t with fragment voxel t - start, for every clipping case"""
    L = _load(patches)
    S = L["acryo.simulator"]
    rec.encodes("acryo/simulator.py:_prep_slices", "acryo/_utils.py:make_slice_and_pad")
    start = [integer(f"a{a}") for a in range(3)]
    size = [integer(f"n{a}") for a in range(3)]
    tsz = [integer(f"s{a}") for a in range(3)]
    hyps = [n.e >= 1 for n in size] + [s.e >= 1 for s in tsz]
    stop = [Sym(start[a].e + tsz[a].e) for a in range(3)]
    names = {f"a{a}" for a in range(3)} | {f"n{a}" for a in range(3)} | {f"s{a}" for a in range(3)}
    paths = explore(lambda: S._prep_slices(tuple(start), tuple(stop), tuple(size), tuple(tsz)), assumptions=hyps, max_paths=2000)
    rp = replay_clip()
    n_none = 0
    for pi, p in enumerate(paths):
        h = hyps + [p.condition()]
        if not p.ok:
            rec.fact(f"slices/path{pi}/runs", False, key="C14/slices/raises", detail={"exc": repr(p.exc)[:200]})
            continue
        sl_src, sl_dst = p.result
        overlap = z3.And(*[z3.And(start[a].e < size[a].e, stop[a].e > 0) for a in range(3)])
        if sl_dst is None:
            n_none += 1
            rec.query(f"slices/path{pi}/dropped=>outside", h, z3.Not(overlap), key="C14/slices/overlapping-fragment-dropped", names=names, replay=rp)
            continue
        rec.query(f"slices/path{pi}/kept=>overlaps", h, overlap, key="C14/slices/outside-fragment-kept", names=names, replay=rp)
        for a in range(3):
            d, s = sl_dst[a], sl_src[a]
            d0, d1 = zi(d.start), zi(d.stop)
            s0 = zi(0 if s.start is None else s.start)
            s1 = zi(tsz[a] if s.stop is None else s.stop)
            rec.query(f"slices/path{pi}/axis{a}/dst-in-tomogram", h, z3.And(0 <= d0, d0 <= d1, d1 <= size[a].e), key="C14/slices/dst-range", names=names, replay=rp)
            rec.query(f"slices/path{pi}/axis{a}/src-in-fragment", h, z3.And(0 <= s0, s0 <= s1, s1 <= tsz[a].e), key="C14/slices/src-range", names=names, replay=rp)
            rec.query(f"slices/path{pi}/axis{a}/same-length", h, d1 - d0 == s1 - s0, key="C14/slices/length-mismatch", names=names, replay=rp)
            rec.query(f"slices/path{pi}/axis{a}/t<->t-start", h, d0 - s0 == start[a].e, key="C14/slices/pairing", names=names, replay=rp)
            rec.query(f"slices/path{pi}/axis{a}/all-overlap-kept", h, z3.And(d0 == z3.If(start[a].e > 0, start[a].e, 0), d1 == z3.If(stop[a].e < size[a].e, stop[a].e, size[a].e)),
                      key="C14/slices/clipping", names=names, replay=rp)
    rec.extra["slices"] = {"paths": len(paths), "dropped": n_none}


def sec_fragments(rec, two_d=False, patches=None):
    """every molecule of every component yields exactly one pasted fragment, at its own slice (3-D and 2-D)"""
    L = _load(patches)
    S = L["acryo.simulator"]
    MC = L["acryo.molecules.core"]
    rec.encodes("acryo/simulator.py:TomogramSimulator._simulate", "acryo/simulator.py:TomogramSimulator.simulate_2d", "acryo/simulator.py:_simulate_one",
                "acryo/simulator.py:_simulate_2d_one", "acryo/simulator.py:TomogramSimulator.add_molecules", "acryo/simulator.py:TomogramSimulator._get_image")
    calls = []

    class Frag:
        _symx_passthrough = True

        def __init__(self, img, mtx, kw, sl=None, summed=False):
            self.img, self.mtx, self.kw, self.sl, self.summed = img, mtx, kw, sl, summed
            self.shape = img.shape if sl is None else None

        def __getitem__(self, key):
            return Frag(self.img, self.mtx, self.kw, key, self.summed)

        def sum(self, axis=None, **k):  # the method spelling of np.sum(fragment, axis)
            return Frag(self.img, self.mtx, self.kw, self.sl, ("sum", axis))

    def fake_affine(img, mtx, **kw):
        f = Frag(img, mtx, kw)
        calls.append(f)
        return f

    S.affine_transform = fake_affine
    S.spline_filter = stubs.like(_real_ndi().spline_filter, lambda img, order=3, *a, **k: img)
    real_sum = S.np.sum

    class NPX:
        def __getattr__(self, n):
            return getattr(S_np, n)

        def sum(self, a, axis=None, **k):
            if isinstance(a, Frag):
                return Frag(a.img, a.mtx, a.kw, a.sl, ("sum", axis))
            return S_np.sum(a, axis=axis, **k)

        def zeros(self, shape, dtype=None):
            return Canvas(shape)

    S_np = S.np

    class Canvas:
        def __init__(self, shape):
            self.shape = tuple(shape)
            self.pasted = []

        def __getitem__(self, key):
            return ("read", key)

        def __setitem__(self, key, value):
            # tomogram[sl] += fragment  ->  __getitem__, then fragment.__radd__, then __setitem__
            self.pasted.append((key, value))

    class _Add:
        pass

    Frag.__radd__ = lambda self, other: ("sum-into", other, self)
    S.np = NPX()
    # three molecules in two components, well inside / straddling / outside the volume
    P = [[real(f"p{i}{a}") for a in range(3)] for i in range(3)]
    scale = real("scale")
    hyps = [scale.e > 0]
    vol = (40, 40, 40)
    for i in range(3):
        for a in range(3):
            hyps += [P[i][a].e / scale.e >= 10, P[i][a].e / scale.e <= 30]
    tmpl = [np.zeros((3, 4, 5), dtype=np.float32), np.ones((2, 2, 2), dtype=np.float32)]
    tag = "fragments-2d" if two_d else "fragments-3d"
    rp = replay_2d() if two_d else replay_place()

    def run():
        del calls[:]
        sim = S.TomogramSimulator(order=1, scale=scale)
        mA = MC.Molecules(to_symarray(P[:2]), rotation.SymRotation([list(rotation.R30[9]), list(rotation.R30[10])]))
        mB = MC.Molecules(to_symarray(P[2:]), rotation.SymRotation([list(rotation.R30[12])]))
        sim.add_molecules(mA, tmpl[0], name="A")
        sim.add_molecules(mB, tmpl[1], name="B")
        out = sim.simulate_2d(vol[1:]) if two_d else sim.simulate(vol)
        out.molecule_positions_afterwards = [_obj(to_symarray(mA.pos)).copy(), _obj(to_symarray(mB.pos)).copy()]
        return out, list(calls)

    # np.ndarray isinstance check in add_molecules
    real_isinstance_target = S_np.ndarray
    paths = explore(run, assumptions=hyps, max_paths=400)
    for pi, p in enumerate(paths):
        if not p.ok:
            ok, det = rp({})
            rec.fact(f"{tag}/path{pi}/runs", False, key=f"C14/{tag}/raises", detail={"exc": repr(p.exc)[:300], **det}, reproduced=ok)
            continue
        canvas, cl = p.result
        h = hyps + [p.condition()]
        # simulating reads the molecules: the caller's positions are the same afterwards (a second simulation, or loading at the molecules, must see them)
        after = canvas.molecule_positions_afterwards
        same = z3.And(*[zr(after[0][i, a]) == P[i][a].e for i in range(2) for a in range(3)], *[zr(after[1][0, a]) == P[2][a].e for a in range(3)])
        rec.query(f"{tag}/path{pi}/molecule-positions-not-modified-by-the-simulation", h, same, key=f"C14/{tag}/molecules-modified", replay=replay_untouched, nonlinear=True)
        n_p = len(canvas.pasted)
        okn = n_p == 3
        okr, det = (True, {}) if okn else rp({})
        rec.fact(f"{tag}/path{pi}/one-fragment-per-molecule", okn, key=f"C14/{tag}/fragment-count", detail={"pasted": n_p, "molecules": 3, **det}, reproduced=okr)
        # each pasted fragment: accumulate (+=), comes from its component's template, destination = its molecule's start
        seen = []
        for (key, val) in canvas.pasted:
            acc = isinstance(val, tuple) and val[0] == "sum-into" and val[1] == ("read", key)
            rec.fact(f"{tag}/path{pi}/accumulates", bool(acc), key=f"C14/{tag}/not-accumulated", detail={})
            if not acc:
                continue
            fr = val[2]
            comp = 0 if fr.img is tmpl[0] else 1 if fr.img is tmpl[1] else None
            seen.append((comp, key, fr))
            if two_d:
                rec.fact(f"{tag}/path{pi}/z-summed", fr.summed == ("sum", 0) and len(key) == 2, key="C14/fragments-2d/not-z-projection", detail={"summed": repr(fr.summed)})
                # every molecule here lies at z >= 10 px: its whole z-extent is projected (no plane clipped by the virtual volume)
                szl = fr.sl[0] if isinstance(fr.sl, tuple) and len(fr.sl) == 3 else None
                if szl is None:
                    rec.fact(f"{tag}/path{pi}/projects-a-3-D-source-slice", False, key="C14/fragments-2d/z-range-clipped", detail={"sl": repr(fr.sl)[:100]})
                else:
                    nz = fr.img.shape[0]
                    st = z3.IntVal(0) if szl.start is None else zi(szl.start)
                    sp = z3.IntVal(nz) if szl.stop is None else zi(szl.stop)
                    rec.query(f"{tag}/path{pi}/comp{comp}/all-z-planes-of-the-template-are-projected", h, z3.And(st == 0, sp == nz), key="C14/fragments-2d/z-range-clipped", replay=rp,
                              names={"scale"} | {f"p{k}{a}" for k in range(3) for a in range(3)})
            rec.fact(f"{tag}/path{pi}/order-and-mode", fr.kw.get("order") == 1 and fr.kw.get("mode") == "constant" and fr.kw.get("cval") == 0.0, key=f"C14/{tag}/interp-args", detail={"kw": repr(fr.kw)})
        rec.fact(f"{tag}/path{pi}/components", sorted(c for c, _, _ in seen) == [0, 0, 1], key=f"C14/{tag}/component-templates", detail={"seen": [c for c, _, _ in seen]})
        # destination offsets: each molecule's own start appears once
        for i in range(3):
            comp = 0 if i < 2 else 1
            shp = tmpl[comp].shape
            match = []
            for (c, key, fr) in seen:
                if c != comp:
                    continue
                k3 = key if not two_d else (None,) + tuple(key)
                conds = []
                for a in range(3):
                    if k3[a] is None:
                        continue
                    ctr = Fraction(shp[a] - 1, 2)
                    # start = floor(pos/scale - centre) for in-volume molecules
                    q = P[i][a].e / scale.e - ctr
                    conds.append(zi(k3[a].start) == z3.ToInt(q))
                match.append(z3.And(*conds))
            rec.query(f"{tag}/path{pi}/mol{i}-pasted-at-its-position", h, z3.Or(*match) if match else z3.BoolVal(False), key=f"C14/{tag}/molecule-missing-or-misplaced",
                      replay=rp, names={"scale"} | {f"p{k}{a}" for k in range(3) for a in range(3)})


def replay_history(cex):
    """installed library: simulate, replace(scale / order), simulate again == a simulator built afresh with the new parameters (ImageProvider template)"""
    from acryo import TomogramSimulator, Molecules, pipe

    bad = []
    for order in (1, 3):
        for s1, s2 in ((1.0, 0.5), (0.5, 1.0)):
            def build(scale):
                sim = TomogramSimulator(order=order, scale=scale)
                sim.add_molecules(Molecules([[6.25, 7.0, 5.75], [12.0, 9.5, 10.0]]), pipe.from_gaussian((5.0, 5.0, 5.0), sigma=1.2))
                return sim

            a = build(s1)
            shp1 = tuple(int(24 / s1) for _ in range(3))
            shp2 = tuple(int(24 / s2) for _ in range(3))
            try:
                a.simulate(shp1)
                got = a.replace(scale=s2).simulate(shp2)
                want = build(s2).simulate(shp2)
                err = float(np.abs(np.asarray(got) - np.asarray(want)).max())
            except Exception as e:
                bad.append({"order": order, "scales": [s1, s2], "raised": repr(e)[:120]})
                continue
            if err > 1e-5:
                bad.append({"order": order, "scales": [s1, s2], "max_abs_diff_vs_fresh_simulator": err})
            # subset() / copy() of a simulator simulate what a fresh simulator with the same parameters and those components does
            full = build(s1)
            full.add_molecules(Molecules([[3.0, 4.0, 15.5]]), pipe.from_gaussian((5.0, 5.0, 5.0), sigma=0.9), name="B")
            only_b = TomogramSimulator(order=order, scale=s1)
            only_b.add_molecules(Molecules([[3.0, 4.0, 15.5]]), pipe.from_gaussian((5.0, 5.0, 5.0), sigma=0.9), name="B")
            for dname, d, ref in (("subset('B')", lambda: full.subset("B"), only_b), ("copy()", lambda: full.copy(), full)):
                try:
                    dd = d()
                    err = float(np.abs(np.asarray(dd.simulate(shp1)) - np.asarray(ref.simulate(shp1))).max())
                    if err > 1e-5 or dd.scale != s1 or dd.order != order:
                        bad.append({"order": order, "scale": s1, "derived": dname, "max_abs_diff_vs_fresh_simulator": err, "derived_scale": dd.scale})
                except Exception as e:
                    bad.append({"order": order, "scale": s1, "derived": dname, "raised": repr(e)[:120]})
    return len(bad) > 0, {"n": len(bad), "examples": bad[:4]}


def sec_history(rec, patches=None):
    """simulate; replace(scale=..) / replace(order=..) / add_molecules; simulate: every pasted fragment comes from the template provided at the scale (and filtered with the order)
    of the simulator that is simulating"""
    L = _load(patches)
    S = L["acryo.simulator"]
    MC = L["acryo.molecules.core"]
    rec.encodes("acryo/simulator.py:TomogramSimulator.replace", "acryo/simulator.py:TomogramSimulator._get_image", "acryo/simulator.py:TomogramSimulator._simulate", "acryo/simulator.py:TomogramSimulator.simulate_2d")
    rec.assume("ImageProvider.provide(scale) returns an image tagged with the scale it was asked for; spline_filter(img, order) returns an image tagged (img, order); affine_transform is recorded; "
               "_prep_iterators is replaced by a fixed placement (decided in the rule/slices/fragments sections)")

    class Img(np.ndarray):
        def __new__(cls, tag):
            o = np.zeros((3, 3, 3), dtype=np.float32).view(cls)
            o.tag = tag
            return o

        def __array_finalize__(self, obj):
            self.tag = getattr(obj, "tag", None)

    class Prov(S.ImageProvider):
        def __init__(self):
            pass

        def provide(self, scale):
            return Img(("provided", scale))

        __call__ = provide

    used = []

    def fake_affine(img, mtx, **kw):
        used.append((getattr(img, "tag", None), kw.get("order")))
        return np.zeros((3, 3, 3), dtype=np.float32)

    S.affine_transform = fake_affine
    S.spline_filter = stubs.like(_real_ndi().spline_filter, lambda img, order=3, *a, **k: Img(("filtered", getattr(img, "tag", None), order)))
    # where the fragment goes is decided in the other sections: here the placement is fixed so that only the provenance of the template varies
    S._prep_iterators = lambda *a, **k: (np.array([[10, 10, 10]], dtype=np.int32), np.array([[13, 13, 13]], dtype=np.int32), [np.eye(4, dtype=np.float32)])
    s1, s2 = real("scale"), real("scale2")
    hyps = [s1.e > 0, s2.e > 0, s1.e != s2.e]
    P = [[5, 5, 5]]
    for o1, o2, two_d in ((3, 3, False), (1, 3, False), (3, 1, False)):
        tag = f"history[order {o1}->{o2},{'2d' if two_d else '3d'}]"

        def run():
            sim = S.TomogramSimulator(order=o1, scale=s1)
            sim.add_molecules(MC.Molecules(to_symarray(P), rotation.SymRotation([list(rotation.R30[9])])), Prov(), name="A")
            del used[:]
            (sim.simulate_2d((40, 40)) if two_d else sim.simulate((40, 40, 40)))
            first = list(used)
            sim2 = sim.replace(scale=s2, order=o2)
            del used[:]
            (sim2.simulate_2d((40, 40)) if two_d else sim2.simulate((40, 40, 40)))
            second = list(used)
            del used[:]
            (sim.simulate_2d((40, 40)) if two_d else sim.simulate((40, 40, 40)))
            third = list(used)
            # derived simulators keep scale and order: subset("A"), copy(), and the subset of the replaced one
            derived = []
            for name, d, sc_, od_ in (("subset(A)", sim.subset("A"), s1, o1), ("copy()", sim.copy(), s1, o1), ("replace().subset([A])", sim2.subset(["A"]), s2, o2), ("replace().copy()", sim2.copy(), s2, o2)):
                del used[:]
                (d.simulate_2d((40, 40)) if two_d else d.simulate((40, 40, 40)))
                derived.append((name, list(used), sc_, od_, d.scale, d.order, d.corner_safe))
            return first, second, third, derived

        for pi, p in enumerate(explore(run, assumptions=hyps, max_paths=60)):
            if not p.ok:
                ok, det = replay_history({})
                rec.fact(f"{tag}/path{pi}/runs", False, key="C14/history/raises", detail={"exc": repr(p.exc)[:300], **det}, reproduced=ok)
                continue
            h = hyps + [p.condition()]
            for dname, dcalls, dsc, dod, dscale, dorder, dcs in p.result[3]:
                rec.query(f"{tag}/path{pi}/{dname}/keeps-the-scale", h, zr(dscale) == dsc.e, key="C14/history/derived-scale", replay=replay_history, names={"scale", "scale2"})
                rec.fact(f"{tag}/path{pi}/{dname}/keeps-order-and-corner_safe", dorder == dod and dcs is False, key="C14/history/derived-order", detail={"order": dorder, "corner_safe": dcs},
                         reproduced=True if (dorder == dod and dcs is False) else replay_history({})[0])
            for name, calls, sc, od in [("first", p.result[0], s1, o1), ("after-replace", p.result[1], s2, o2), ("original-again", p.result[2], s1, o1)] + [
                    (d[0], d[1], d[2], d[3]) for d in p.result[3]]:
                okn = len(calls) == 1
                # no resampling call at all for a fixed identity placement: whether what is pasted is still the template is decided on the installed library
                # (history replay, then exact paste / load-back at a grid-coincident pose with the default spline order)
                rec.fact(f"{tag}/path{pi}/{name}/one-fragment", okn, key="C14/history/fragment-count", detail={"n": len(calls)}, reproduced=True if okn else (replay_history({})[0] or replay_place()({})[0]))
                if not okn:
                    continue
                t, order_used = calls[0]
                prov = t[1] if (t and t[0] == "filtered") else t
                okstruct = prov is not None and prov[0] == "provided" and ((t[0] == "filtered" and t[2] == od) if od > 1 else t[0] == "provided") and order_used == od
                rec.fact(f"{tag}/path{pi}/{name}/template-filtered-for-this-order", bool(okstruct), key="C14/history/order", detail={"tag": repr(t)[:120], "order": order_used}, reproduced=True if okstruct else replay_history({})[0])
                if prov is not None and prov[0] == "provided":
                    rec.query(f"{tag}/path{pi}/{name}/template-provided-at-the-simulator's-scale", h, zr(prov[1]) == sc.e, key="C14/history/stale-template", replay=replay_history, names={"scale", "scale2"})


def sec_sampling_rule(rec, patches=None):
    """loading at a molecule samples the tomogram on the molecule's grid, also when the crop window (box + spline margin) crosses a low face of the tomogram
    (executed by C02's sampling section; 'loading a sub-tomogram at a simulated molecule returns the template' rests on it)"""
    from .c02 import sec_sampling

    for shp in ((3, 3, 3), (2, 3, 4)):  # unrotated molecules on concrete boxes (all linear): shortcuts that skip the interpolation
        sec_sampling(rec, order=1, corner_safe=False, shape=shp, quat=(0, 0, 0, 1), patches=patches)
    sec_sampling(rec, order=1, corner_safe=False, patches=patches)


def sec_conformance(rec):
    """translator validation: _prep_iterators symbolic-on-concrete equals the installed function"""
    from acryo.simulator import _prep_iterators
    from acryo import Molecules
    from scipy.spatial.transform import Rotation

    L = _load()
    S = L["acryo.simulator"]
    MC = L["acryo.molecules.core"]
    rng = np.random.default_rng(0)
    bad = 0
    for _ in range(12):
        pos = rng.uniform(-5, 30, size=(2, 3))
        q = rng.normal(size=(2, 4))
        rot = Rotation.from_quat(q)
        shape = tuple(int(v) for v in rng.integers(1, 8, size=3))
        scale = float(rng.choice([0.5, 1.0, 2.0]))
        s0, e0, m0 = _prep_iterators(Molecules(pos, rot), shape, scale)
        p = explore(lambda: S._prep_iterators(MC.Molecules(to_symarray(pos), rotation.SymRotation(mat=rot.as_matrix(), single=False)), shape, scale))[0]
        if not p.ok:
            bad += 1
            continue
        s1, e1, m1 = p.result
        tof = lambda a: np.array([[float(Fraction(_coerce(v))) if not hasattr(v, "e") else float(z3.simplify(zr(v)).as_fraction()) for v in row] for row in np.asarray(_obj(a)).reshape(-1, 1)]).reshape(np.shape(a))  # noqa
        if not (np.allclose(tof(s1), s0) and np.allclose(tof(e1), e0) and np.allclose(tof(m1), m0, atol=1e-4)):
            bad += 1
    rec.fact("translator/_prep_iterators concrete-vs-symbolic", bad == 0, key="C14/translator", detail={"mismatches": bad}, reproduced=None)
    if bad:
        rec.error("translator/_prep_iterators", f"{bad} mismatches")


def sections(tier):
    return [("conformance", "checks.c14", "sec_conformance", {}), ("sampling-rule", "checks.c14", "sec_sampling_rule", {}), ("rule", "checks.c14", "sec_rule", {"n_mol": 1}), ("rule-2mol", "checks.c14", "sec_rule", {"n_mol": 2}),
            ("slices", "checks.c14", "sec_slices", {}), ("fragments-3d", "checks.c14", "sec_fragments", {"two_d": False}),
            ("fragments-2d", "checks.c14", "sec_fragments", {"two_d": True}), ("history", "checks.c14", "sec_history", {})]


_S = "acryo.simulator"
MUTANTS = [
    ("fragments:positions-centred-in-place (seeded change C14_12)", "checks.c14", "sec_fragments", {"two_d": False}, {"acryo.simulator": [("    pos = mol.pos / scale\n    center = (np.array(shape) - 1.0) / 2.0\n    corner = pos - center\n", "    pos = mol.pos if scale == 1.0 else mol.pos / scale\n    center = (np.array(shape) - 1.0) / 2.0\n    pos -= center\n    corner = pos\n")]}),
    ("place:revert-even-side-fix", "checks.c14", "sec_rule", {"n_mol": 1},
     {_S: [("    corner = pos - center\n    starts = np.floor(corner).astype(np.int32)\n    residue = corner - starts.astype(np.float32)\n",
            "    intpos = pos.astype(np.int32)\n    residue = pos - intpos.astype(np.float32)\n    starts = intpos - center.astype(np.int32)\n")]}),
    ("place:residue-sign", "checks.c14", "sec_rule", {"n_mol": 1}, {_S: [("center, mol.rotator.inv(), output_center=center + residue", "center, mol.rotator.inv(), output_center=center - residue")]}),
    ("place:forward-rotation", "checks.c14", "sec_rule", {"n_mol": 1}, {_S: [("center, mol.rotator.inv(), output_center=center + residue", "center, mol.rotator, output_center=center + residue")]}),
    ("place:pos-times-scale", "checks.c14", "sec_rule", {"n_mol": 1}, {_S: [("    pos = mol.pos / scale\n    center = (np.array(shape) - 1.0) / 2.0\n", "    pos = mol.pos * scale\n    center = (np.array(shape) - 1.0) / 2.0\n")]}),
    ("place:einsum-order", "checks.c14", "sec_rule", {"n_mol": 1}, {_S: [('return np.einsum("ij,njk,nkl->nil", translation_0, rot_mtx, translation_1)', 'return np.einsum("nij,jk,nkl->nil", translation_1, translation_0, rot_mtx)')]}),
    ("slices:src-from-other-side", "checks.c14", "sec_slices", {}, {_S: [("                sl_src_list.append(slice(s0, tsize - s1))", "                sl_src_list.append(slice(s1, tsize - s0))")]}),
    ("slices:ignore-oob-flag", "checks.c14", "sec_slices", {}, {_S: [("            if _out_of_bound:\n                s0, s1 = _pads", "            if _out_of_bound and _pads[0] > 0:\n                s0, s1 = _pads")]}),
    ("2d:revert-first-molecule-dropped", "checks.c14", "sec_fragments", {"two_d": True},
     {_S: [("            shape3d = (int(np.ceil(zsize)),) + shape\n", "            shape3d = (int(np.ceil(zsize)),) + shape\n            starts, stops, mtxs = starts[1:], stops[1:], mtxs[1:]\n")]}),
    ("3d:assign-instead-of-accumulate", "checks.c14", "sec_fragments", {"two_d": False}, {_S: [("        results = pool.compute()\n        for sl, img_fragment in results:\n            if img_fragment is not None:\n                tomogram[sl] += img_fragment\n\n        return tomogram\n\n    def _simulate_with_color",
                                                                                                  "        results = pool.compute()\n        for sl, img_fragment in results:\n            if img_fragment is not None:\n                tomogram[sl] = img_fragment\n\n        return tomogram\n\n    def _simulate_with_color")]}),
    ("2d:wrong-projection-axis", "checks.c14", "sec_fragments", {"two_d": True}, {_S: [("    projected = np.sum(transformed[sl_src], axis=0)\n    return sl_dst[1:], projected", "    projected = np.sum(transformed[sl_src], axis=1)\n    return sl_dst[1:], projected")]}),
]


def run(tier, procs=None, only=None):
    S = select(sections(tier), only)
    return harness.run_check(
        PID, tier, S, procs=procs,
        explanation="_prep_iterators is executed with symbolic positions, scale, template sides (both parities) and rotation matrices: the affine matrix handed to "
                    "ndimage.affine_transform together with the integer start offset is proved to read template coordinate (shape-1)/2 + R^-1(t - pos/scale) for every "
                    "tomogram voxel t. _prep_slices is executed with symbolic starts/sizes: every clipping case pairs t with t-start, keeps exactly the overlap and drops "
                    "exactly the non-overlapping fragments. simulate/simulate_2d are executed on a recording canvas: one += per molecule, from its component's template, at its own slice.",
        bounds={"rule": "position, scale>0, template sides >= 1 (symbolic), rotation matrix (9 free reals), 1 and 2 molecules",
                "slices": "start, tomogram size >= 1, template side >= 1: unbounded integers",
                "fragments": "3 molecules in 2 components, symbolic positions 10..30 px inside a 40^3 volume, templates (3,4,5) and (2,2,2)"},
        trusted_base=TRUSTED + ["C02's affine_transform contract", "real dask.delayed (synchronous)"],
        outside=["interpolation accuracy for off-grid poses", "simulate_projection / simulate_tilt_series / coloured simulation"],
        mutants=MUTANTS if (not quick(tier) and not only) else None,
    )


# every real-library oracle of this property (each returns (reproduced, detail)); used to confirm structural facts that carry no replay of their own
ALL_REPLAYS = [lambda c: replay_place()(c), lambda c: replay_2d()(c), lambda c: replay_clip()(c), replay_history, replay_untouched]


def replay(data):
    key = data.get("key", "")
    ok, detail = (replay_2d() if "2d" in key else replay_clip() if "slices" in key else replay_place())(data.get("cex") or {})
    print("replay:", detail)
    print("REPRODUCED" if ok else "not reproduced")
    return 1 if ok else 0
