"""C15 -- binned loaders look at the same physical region.

Real code: acryo._utils.bin_image, SubtomogramLoader.binning / replace / copy,
Molecules.translate, plus the C02 sampling pipeline to compare what the binned and the
original loader sample.
"""
from __future__ import annotations

import itertools
from fractions import Fraction

import numpy as np
import z3

from symx import harness, load, rotation, stubs
from symx.arrays import SymArray, to_symarray
from symx.core import Sym, explore, integer, lift, real, _real, _coerce

from .common import TRUSTED, fl, frac, quick, select
from .c02 import MODS, _make_loader, zi, zsum_row

PID = "C15"


def _load(patches=None):
    stubs.patch_dask_from_delayed()
    return load.load(MODS, overrides={"Rotation": rotation.SymRotation, "da": stubs.DaStub()}, patches=patches)


# ---------------------------------------------------------------------------------------


def replay_blocksum(shape, b):
    def run(cex):
        from acryo._utils import bin_image

        rng = np.random.default_rng(7)
        img = rng.normal(size=shape)
        out = bin_image(img, b)
        ref_shape = tuple(s // b for s in shape)
        ref = np.zeros(ref_shape)
        for j in np.ndindex(ref_shape):
            ref[j] = img[tuple(slice(b * ji, b * ji + b) for ji in j)].sum()
        bad = out.shape != ref_shape or not np.allclose(out, ref)
        return bad, {"shape": shape, "binsize": b, "got_shape": list(out.shape), "want_shape": list(ref_shape)}

    return run


def sec_blocksum(rec, shapes=(), bins=(1, 2, 3), pairs=None, patches=None):
    L = _load(patches)
    U = L["acryo._utils"]
    rec.encodes("acryo/_utils.py:bin_image")
    if pairs is None:
        pairs = [(s, b) for s in shapes for b in bins]
    for shape, b in pairs:
        shape = tuple(shape)
        vox = {idx: real("v_" + "_".join(map(str, idx))) for idx in np.ndindex(shape)}
        for b in (b,):
            def run():
                img = SymArray(shape=shape)
                for idx, v in vox.items():
                    img[idx] = v
                return U.bin_image(img, b)

            paths = explore(run)
            tag = f"blocksum[{shape},b={b}]"
            rp = replay_blocksum(shape, b)
            if len(paths) != 1 or not paths[0].ok:
                rec.fact(f"{tag}/runs", False, key="C15/bin_image/raises", detail={"exc": repr(paths[0].exc) if paths else "no path"},
                         reproduced=rp({})[0])
                continue
            out = paths[0].result
            want_shape = tuple(s // b for s in shape)
            if tuple(out.shape) != want_shape:
                ok, det = rp({})
                rec.fact(f"{tag}/shape", False, key="C15/bin_image/shape", detail=det, reproduced=ok)
                continue
            for j in np.ndindex(want_shape):
                ref = z3.RealVal(0)
                for t in itertools.product(range(b), repeat=3):
                    ref = ref + vox[tuple(b * ji + ti for ji, ti in zip(j, t))].e
                rec.query(f"{tag}/voxel{j}", [], _real(zi(out[j])) == ref, key="C15/bin_image/block-sum", replay=rp, twin=False)


def sec_outshape(rec, bins=(1, 2, 3, 4, 5, 6), patches=None):
    """symbolic image sides: output side = floor(s / b), the reshape is size-consistent"""
    L = _load(patches)
    U = L["acryo._utils"]
    rec.encodes("acryo/_utils.py:bin_image")
    n = [integer(f"n{i}") for i in range(3)]
    hyps = [s.e >= 1 for s in n]
    for b in bins:
        paths = explore(lambda: U.bin_image(stubs.ImgStub(n), b), assumptions=hyps)
        for i, p in enumerate(paths):
            if not p.ok:
                rec.error(f"outshape[b={b}]/path{i}", repr(p.exc))
                continue
            out = p.result
            h = hyps + [p.condition()]

            def rp(cex, b=b):
                shape = tuple(int(frac(cex.get(f"n{k}", 7))) for k in range(3))
                shape = tuple((s % b) + b * min(max(s // b, 1), 3) for s in shape)  # same remainders, small non-empty output
                return replay_blocksum(shape, b)(cex)

            for a in range(3):
                rec.query(f"outshape[b={b}]/path{i}/axis{a}", h, zi(out.shape[a]) == n[a].e / b, key="C15/bin_image/shape",
                          names={f"n{k}" for k in range(3)}, replay=rp)
            for (lab, cond, npc, ndef) in p.obligations:
                rec.query(f"outshape[b={b}]/path{i}/{lab}", hyps + [p.cond_at(npc, ndef)], cond, key=f"C15/bin_image/{lab}",
                          names={f"n{k}" for k in range(3)}, replay=rp)
            root = out.root
            ok = isinstance(root, tuple) and root[0] == "binned" and tuple(root[2]) == (b, b, b)
            rec.fact(f"outshape[b={b}]/path{i}/block-pattern", ok, key="C15/bin_image/block-pattern", detail={"root": repr(root)})
            if ok:
                for a in range(3):
                    rec.query(f"outshape[b={b}]/path{i}/blocks-start-at-voxel0-axis{a}", h, zi(root[1].origin[a]) == 0,
                              key="C15/bin_image/block-origin", names={f"n{k}" for k in range(3)}, replay=rp)


def zr(x):
    return _real(lift(_coerce(x)))


def sec_blocksum_dask(rec, shape=(5, 4, 7), b=2, patches=None):
    """bin_image on a REAL dask array (synchronous scheduler) of symbolic voxels cut into irregular chunks: same block sums as for the in-memory array"""
    import dask
    import dask.array as da

    dask.config.set(scheduler="synchronous")
    L = load.load(["acryo._utils"], overrides={"da": da}, patches=patches)  # the real dask.array, also for isinstance checks
    U = L["acryo._utils"]
    rec.encodes("acryo/_utils.py:bin_image (dask input)")
    rec.assume("real dask.array (from_array, slicing, reshape, sum, map_blocks ...) on object arrays of symbolic voxels")
    vox = {idx: real("v_" + "_".join(map(str, idx))) for idx in np.ndindex(tuple(shape))}
    base = np.empty(shape, dtype=object)
    for idx, v in vox.items():
        base[idx] = v
    want_shape = tuple(s_ // b for s_ in shape)
    layouts = [tuple((n,) for n in shape)]
    # irregular layouts: the largest chunk a multiple of b, another one not; chunks of one voxel; chunks smaller than b
    for ax in range(3):
        n = shape[ax]
        for first in {b, 2 * b, 1, n - 1} & set(range(1, n)):
            rest = n - first
            for split in ((first, rest), (rest, first), tuple([1] * n)):
                lay = [(m,) for m in shape]
                lay[ax] = split
                if tuple(lay) not in layouts:
                    layouts.append(tuple(lay))
        # three chunks: the largest one holds whole bins, a smaller one does not
        for split in ((2 * b, 1, n - 2 * b - 1), (b, 1, n - b - 1), (1, 2 * b, n - 2 * b - 1), (b, b + 1, n - 2 * b - 1)):
            if all(c > 0 for c in split):
                lay = [(m,) for m in shape]
                lay[ax] = split
                if tuple(lay) not in layouts:
                    layouts.append(tuple(lay))
    rp = _replay_region(b)
    for lay in layouts:
        tag = f"blocksum-dask[{shape},b={b},chunks={lay}]"

        def run():
            out = U.bin_image(da.from_array(base, chunks=lay), b)
            return out.compute() if hasattr(out, "compute") else out

        for p in explore(run, max_paths=5):
            if not p.ok:
                rec.fact(f"{tag}/runs", False, key="C15/bin_image-dask/raises", detail={"exc": repr(p.exc)[:300]}, reproduced=rp({})[0])
                continue
            out = np.asarray(p.result, dtype=object)
            oksh = tuple(out.shape) == want_shape
            rec.fact(f"{tag}/shape", oksh, key="C15/bin_image-dask/shape", detail={"got": list(out.shape), "want": list(want_shape)}, reproduced=True if oksh else rp({})[0])
            if not oksh:
                continue
            goal = []
            for j in np.ndindex(want_shape):
                ref = sum((vox[tuple(b * ji + d for ji, d in zip(j, dd))].e for dd in np.ndindex((b,) * 3)), z3.RealVal(0))
                goal.append(zr(out[j]) == ref)
            rec.query(f"{tag}/block-sums", [], z3.And(*goal), key="C15/bin_image-dask/block-sum", replay=rp, twin=False)


def _replay_region(b, order=1):
    """public API: linear ramp tomogram; binned-loader voxel k must equal the block sum of the
    b-times-larger subtomogram of the original loader"""

    def run(cex):
        from acryo import SubtomogramLoader, Molecules
        from scipy.spatial.transform import Rotation

        scale = fl(cex.get("scale", 1.0)) or 1.0
        S = (3, 2, 4)
        size = (12 * b + 3, 12 * b + 1, 12 * b + 5)
        rng = np.random.default_rng(3)
        img = rng.normal(size=size)
        # molecule on the binned grid: binned pixel centre (integer for odd S, half-integer for even S)
        cb = np.array([4.0, 4.5, 3.5]) + np.array([(s - 1) / 2 for s in S]) * 0
        cb = np.array([5.0, 5.5, 4.5])
        pos_orig = (cb * b + (b - 1) / 2) * scale
        ld = SubtomogramLoader(img, Molecules([pos_orig]), order=order, scale=scale, output_shape=tuple(b * s for s in S))
        big = ld.load(0)
        binned = ld.binning(b, compute=True)
        small = binned.replace(output_shape=S).load(0)
        ref = big.reshape(S[0], b, S[1], b, S[2], b).sum(axis=(1, 3, 5))
        err = float(np.abs(small - ref).max())
        # the original loader is not altered by binning(): same molecules, same sub-volume afterwards
        moved = float(np.abs(np.asarray(ld.molecules.pos, dtype=float) - pos_orig).max())
        err_again = float(np.abs(ld.load(0) - big).max())
        # a dask tomogram cut into irregular chunks gives the same binned image as the numpy array
        import dask.array as da
        from acryo._utils import bin_image

        chunks = tuple((6 * b, 3 * b + 1, size[a] - 9 * b - 1) for a in range(3))  # the largest chunk is a multiple of b, the others are not
        try:
            got_d, got_n = np.asarray(bin_image(da.from_array(img, chunks=chunks), b)), np.asarray(bin_image(img, b))
            irregular = float(np.abs(got_d - got_n).max()) if got_d.shape == got_n.shape else float("inf")
        except Exception:
            irregular = float("inf")
        # half turns about each axis keep the samples on the voxel grid for these centres: the identity stays exact for rotated molecules
        err_rot = 0.0
        for q in ([0, 0, 1, 0], [1, 0, 0, 0], [0, 1, 0, 0]):
            ldr = SubtomogramLoader(img, Molecules([pos_orig], Rotation.from_quat([q])), order=order, scale=scale, output_shape=tuple(b * s for s in S))
            bigr = ldr.load(0)
            smallr = ldr.binning(b, compute=True).replace(output_shape=S).load(0)
            err_rot = max(err_rot, float(np.abs(smallr - bigr.reshape(S[0], b, S[1], b, S[2], b).sum(axis=(1, 3, 5))).max()))
        bad = err > 1e-4 * b ** 3 or moved > 1e-6 or err_again > 1e-6 or irregular > 1e-6 or err_rot > 1e-4 * b ** 3
        return bad, {"max_abs_err": err, "max_abs_err_half_turns": err_rot, "b": b, "scale": scale, "binned_scale": binned.scale, "original_molecules_moved_by": moved, "original_subvolume_changed_by": err_again,
                     "dask_irregular_chunks_vs_numpy": irregular}

    return run


def sec_region(rec, b=2, patches=None):
    L = _load(patches)
    API = L["acryo.backend._api"]
    LD = L["acryo.loader._loader"]
    rec.encodes("acryo/loader/_loader.py:SubtomogramLoader.binning", "acryo/loader/_loader.py:SubtomogramLoader.replace",
                "acryo/loader/_base.py:LoaderBase.copy", "acryo/loader/_base.py:check_input", "acryo/molecules/core.py:Molecules.translate",
                "acryo/_utils.py:bin_image", "acryo/loader/_loader.py:SubtomogramLoader.construct_loading_tasks", "acryo/_utils.py:prepare_affine")
    rec.assume("scipy.ndimage.affine_transform contract as in C02 (out[o] = Interp(input, M(o,1)))")
    ndi = stubs.NdiStub()
    xp = stubs.make_backend(API, LD.np, ndi)
    pos = [real(f"p{i}") for i in range(3)]
    scale = real("scale")
    n = [integer(f"n{i}") for i in range(3)]
    S = [integer(f"s{i}") for i in range(3)]
    R = [[real(f"r{i}{j}") for j in range(3)] for i in range(3)]
    hyps = [scale.e > 0] + [s.e >= 1 for s in S] + [s.e <= 8 for s in S]
    for i in range(3):
        c = pos[i].e / scale.e
        hyps += [n[i].e >= 4000, c >= 1000, c <= _real(n[i].e) - 1000]
    order = 1

    def run():
        rot = rotation.SymRotation(mat=[R], single=False)
        ld = _make_loader(L, xp, stubs.ImgStub(n), [pos], rot, scale, order, tuple(S), False)
        binned = ld.binning(b, compute=True)
        orig_tasks = ld.construct_loading_tasks(output_shape=tuple(b * s for s in S), backend=xp)
        bin_tasks = binned.construct_loading_tasks(backend=xp)
        return ld, binned, orig_tasks[0].compute(), bin_tasks[0].compute()

    paths = explore(run, assumptions=hyps, max_paths=200)
    k = [z3.Real(f"k{i}") for i in range(3)]
    names = {f"p{i}" for i in range(3)} | {"scale"} | {f"n{i}" for i in range(3)} | {f"s{i}" for i in range(3)}
    rp = _replay_region(b, order)
    tag = f"region[b={b}]"
    for i, p in enumerate(paths):
        if not p.ok:
            rec.fact(f"{tag}/path{i}/runs", False, key="C15/binning/raises", detail={"exc": repr(p.exc)}, reproduced=rp({})[0])
            continue
        h = hyps + [p.condition()]
        ld, binned, ro, rb = p.result
        # scale, image and molecule bookkeeping
        rec.query(f"{tag}/path{i}/scale", h, _real(zi(binned.scale)) == scale.e * b, key="C15/binning/scale", names=names, replay=rp)
        if b == 1:
            same = binned._image is ld._image
            rec.fact(f"{tag}/path{i}/b=1-same-image", same, key="C15/binning/b1-image", detail={})
            for a in range(3):
                rec.query(f"{tag}/path{i}/b=1-pos{a}", h, _real(zi(binned.molecules.pos[0, a])) == pos[a].e, key="C15/binning/b1-pos",
                          names=names, replay=rp)
        else:
            root = binned._image.root
            ok = isinstance(root, tuple) and root[0] == "binned" and root[1].root == "tomogram" and tuple(root[2]) == (b, b, b)
            rec.fact(f"{tag}/path{i}/image-is-bin_image(original)", bool(ok), key="C15/binning/image", detail={"root": repr(root)})
            if ok:
                for a in range(3):
                    # binned voxel 0 starts at original voxel 0 (the incomplete remainder is dropped at the far end)
                    rec.query(f"{tag}/path{i}/blocks-start-at-voxel0-axis{a}", h, zi(root[1].origin[a]) == 0, key="C15/bin_image/block-origin",
                              names=names, replay=rp)
            for a in range(3):
                rec.query(f"{tag}/path{i}/binned-image-side{a}", h, zi(binned._image.shape[a]) == n[a].e / b, key="C15/bin_image/shape",
                          names=names, replay=rp)
        rec.fact(f"{tag}/path{i}/original-untouched", ld._image.root == "tomogram" and ld._scale is scale, key="C15/binning/mutates-original", detail={})
        for a in range(3):
            rec.query(f"{tag}/path{i}/original-pos-untouched{a}", h, _real(zi(ld.molecules.pos[0, a])) == pos[a].e,
                      key="C15/binning/mutates-original", names=names, replay=rp)
        # same physical region: centre of block k of the big original subtomogram == binned voxel k (in original pixels)
        for a in range(3):
            a_bin = zsum_row(rb.matrix, a, k) + _real(zi(rb.src.origin[a]))
            kk = [b * k[j] + Fraction(b - 1, 2) for j in range(3)]
            a_orig = zsum_row(ro.matrix, a, kk) + _real(zi(ro.src.origin[a]))
            rec.query(f"{tag}/path{i}/same-region-axis{a}", h, b * a_bin + Fraction(b - 1, 2) == a_orig, key="C15/binning/same-region",
                      names=names, replay=rp)
        # on-grid molecule with identity orientation: binned sample points are binned voxel centres (integers)
        ident = [R[i2][j].e == (1 if i2 == j else 0) for i2 in range(3) for j in range(3)]
        for a in range(3):
            g = z3.Int(f"g{a}")
            cb = pos[a].e / scale.e  # original pixel coordinate of the molecule
            on_grid = [(cb - Fraction(b - 1, 2)) / b == z3.ToReal(g) + (_real(S[a].e) - 1) / 2]
            kk_int = [z3.ToReal(z3.Int(f"ki{j}")) for j in range(3)]
            a_bin = zsum_row(rb.matrix, a, kk_int) + _real(zi(rb.src.origin[a]))
            rec.query(f"{tag}/path{i}/on-grid-integer-axis{a}", h + ident + on_grid + [scale.e == 1], a_bin == z3.ToReal(z3.ToInt(a_bin)),
                      key="C15/binning/on-grid", names=names, replay=rp)
        rec.fact(f"{tag}/path{i}/same-order", rb.order == ro.order == order, key="C15/binning/order", detail={})


def _replay_region_batch(b, compute=False, kinds=None):
    def run(cex):
        with load.real_modules():
            return _run(cex)

    def _run(cex):
        from acryo import BatchLoader, Molecules

        scale = fl(cex.get("scale", 1.0)) or 1.0
        S = (3, 2, 4)
        rng = np.random.default_rng(3)
        worst = 0.0
        bl = BatchLoader(order=1, scale=scale, output_shape=tuple(b * s for s in S))
        poss = []
        for k in range(2):
            img = rng.normal(size=(12 * b + 3, 12 * b + 1, 12 * b + 5))
            cb = np.array([5.0, 5.5, 4.5]) + k
            pos = (cb * b + (b - 1) / 2) * scale
            if (compute and kinds is None) or (kinds is not None and kinds[k] == "dask"):
                import dask.array as da

                img = da.from_array(img, chunks=(16, 16, 16))
            # a half turn keeps every sample point on the voxel grid for these centres, so the block-sum identity stays exact
            from scipy.spatial.transform import Rotation

            bl.add_tomogram(img, Molecules([pos], Rotation.from_quat([[0, 0, 1, 0]] if k == 0 else [[1, 0, 0, 0]])), image_id=k)
        big = bl.construct_dask().compute()
        try:
            binned = bl.binning(b, compute=compute).replace(output_shape=S)
            small = binned.construct_dask().compute()
        except Exception as e:
            return True, {"raised": repr(e)[:200], "b": b, "compute": compute, "images": "dask arrays"}
        for k in range(2):
            ref = big[k].reshape(S[0], b, S[1], b, S[2], b).sum(axis=(1, 3, 5))
            worst = max(worst, float(np.abs(small[k] - ref).max()))
        return worst > 1e-4 * b ** 3, {"max_abs_err": worst, "b": b, "scale": scale, "loader": "BatchLoader"}

    return run


def sec_region_batch(rec, b=3, compute=False, kinds=None, patches=None):
    """BatchLoader.binning keeps the sampled physical region (same identity as for the single loader); kinds: which tomograms are
    in-memory arrays ("numpy") and which are dask arrays ("dask") -- with compute=True only the dask ones are computed"""
    from . import c03

    L = c03._load(patches)
    BT, MC = L["acryo.loader._batch"], L["acryo.molecules.core"]
    xp = L.xp
    rec.encodes("acryo/loader/_batch.py:BatchLoader.binning", "acryo/loader/_batch.py:BatchLoader.replace", "acryo/_utils.py:bin_image")
    tags = ["m0", "m1"]
    scale = real("scale")
    n = [integer(f"n{i}") for i in range(3)]
    S = (3, 2, 4)
    hyps = [scale.e > 0] + [x.e >= 4000 for x in n]
    P = {t: [real(f"{t}_p{a}") for a in range(3)] for t in tags}
    for t in tags:
        for a in range(3):
            c = P[t][a].e / scale.e
            hyps += [c >= 1000, c <= _real(n[a].e) - 1000]
    # orientations: exact rational unit quaternions, none the identity (a half turn about z; a rotation about x with cos = 7/25);
    # arbitrary orientations are covered for the single loader by sec_region
    Qs = {"m0": [0, 0, 1, 0], "m1": [Fraction(3, 5), 0, 0, Fraction(4, 5)]}
    rp = _replay_region_batch(b, compute, kinds)
    tag = f"region-batch[b={b},compute={compute}{',' + '+'.join(kinds) if kinds else ''}]"
    with L.installed():
        def run():
            bl = BT.BatchLoader(order=1, scale=scale, output_shape=tuple(b * s for s in S))
            for k, t in enumerate(tags):
                im = stubs.ImgStub(n, root=f"tomo{k}")
                im.numpy_like = bool(kinds and kinds[k] == "numpy")
                bl.add_tomogram(im, MC.Molecules(to_symarray([P[t]]), rotation.SymRotation([Qs[t]]), features={"row": [t]}), image_id=k)
            binned = bl.binning(b, compute=compute).replace(output_shape=S)
            ro = stubs.compute_together(bl.construct_loading_tasks(backend=xp))
            rb = stubs.compute_together(binned.construct_loading_tasks(backend=xp))
            return bl, binned, ro, rb

        k = [z3.Real(f"k{i}") for i in range(3)]
        for pi, p in enumerate(explore(run, assumptions=hyps, max_paths=100)):
            if not p.ok:
                ok, det = rp({})
                rec.fact(f"{tag}/path{pi}/runs", False, key="C15/batch-binning/raises", detail={"exc": repr(p.exc)[:300], **det}, reproduced=ok)
                continue
            bl, binned, ro, rb = p.result
            h = hyps + [p.condition()]
            rec.query(f"{tag}/path{pi}/scale", h, _real(zi(binned.scale)) == scale.e * b, key="C15/batch-binning/scale", names={"scale"}, replay=rp)
            rec.fact(f"{tag}/path{pi}/two-tasks-each", len(ro) == 2 and len(rb) == 2, key="C15/batch-binning/count", detail={})
            for m in range(min(len(ro), len(rb), 2)):
                if b > 1:
                    root = rb[m].src.root
                    okimg = isinstance(root, tuple) and root[0] == "binned" and root[1].root == f"tomo{m}" and tuple(root[2]) == (b, b, b)
                    rec.fact(f"{tag}/path{pi}/mol{m}/binned-image-of-its-tomogram", bool(okimg), key="C15/batch-binning/image", detail={"root": repr(root)})
                for a in range(3):
                    a_bin = zsum_row(rb[m].matrix, a, k) + _real(zi(rb[m].src.origin[a]))
                    kk = [b * k[j] + Fraction(b - 1, 2) for j in range(3)]
                    a_orig = zsum_row(ro[m].matrix, a, kk) + _real(zi(ro[m].src.origin[a]))
                    rec.query(f"{tag}/path{pi}/mol{m}/same-region-axis{a}", h, b * a_bin + Fraction(b - 1, 2) == a_orig, key="C15/batch-binning/same-region",
                              names={"scale"}, replay=rp)
            rec.fact(f"{tag}/path{pi}/original-untouched", all(img.root == f"tomo{kk_}" for kk_, img in bl.images.items()), key="C15/batch-binning/mutates-original", detail={})


def sec_sampling_rule(rec, patches=None):
    """loading at a molecule samples the tomogram on the molecule's grid, also when the crop window (box + spline margin) crosses a low face of the tomogram
    (executed by C02's sampling section; the original and the binned loader both rely on it)"""
    from .c02 import sec_sampling

    for shp in ((3, 3, 3), (2, 3, 4)):  # unrotated molecules on concrete boxes (all linear): shortcuts that skip the interpolation
        sec_sampling(rec, order=1, corner_safe=False, shape=shp, quat=(0, 0, 0, 1), patches=patches)
    sec_sampling(rec, order=1, corner_safe=False, patches=patches)


def sec_conformance(rec):
    """ImgStub.reshape/sum block contract vs numpy"""
    rng = np.random.default_rng(0)
    bad = 0
    for _ in range(30):
        b = int(rng.integers(1, 5))
        shape = tuple(int(x) * b for x in rng.integers(1, 4, size=3))
        img = rng.normal(size=shape)
        sh = []
        for s in shape:
            sh += [s // b, b]
        out = img.reshape(sh).sum(axis=(1, 3, 5))
        for j in np.ndindex(out.shape):
            ref = img[tuple(slice(b * ji, b * ji + b) for ji in j)].sum()
            if abs(out[j] - ref) > 1e-9:
                bad += 1
    rec.fact("conformance/numpy reshape-sum is the block sum", bad == 0, key="C15/conformance", reproduced=None)
    if bad:
        rec.error("conformance", "numpy block reshape contract")
    # translator validation: symbolic bin_image on concrete data equals the real function
    from acryo._utils import bin_image

    L = _load()
    U = L["acryo._utils"]
    mism = 0
    for _ in range(10):
        b = int(rng.integers(1, 4))
        shape = tuple(int(x) for x in rng.integers(1, 6, size=3))
        img = rng.integers(-4, 5, size=shape).astype(np.float64)
        real_out = bin_image(img, b)
        p = explore(lambda: U.bin_image(to_symarray(img), b))[0]
        sym_out = np.array([[float(v) for v in row] for row in np.asarray(p.result.tolist(), dtype=object).reshape(-1, 1)]).reshape(real_out.shape) if p.ok and p.result.size else np.zeros(real_out.shape)
        if real_out.shape != sym_out.shape or not np.allclose(real_out, sym_out):
            mism += 1
    rec.fact("translator/bin_image concrete-vs-symbolic", mism == 0, key="C15/translator", detail={"mismatches": mism}, reproduced=None)
    if mism:
        rec.error("translator/bin_image", f"{mism} mismatches")


def _shape_bins(tier):
    """(shape, b) pairs with every side >= b (non-empty output) covering remainders 0..b-1 on some axis"""
    out = []
    bmax, cap = (4, 120) if quick(tier) else (6, 400)
    for b in range(1, bmax + 1):
        sides = list(range(b, min(2 * b + 2, 9) + 1)) if b > 1 else [1, 2, 3]
        cand = [s for s in itertools.product(sides, repeat=3) if s[0] * s[1] * s[2] <= cap]
        if quick(tier):
            # one shape per remainder pattern on the last axis + two mixed ones
            seen, pick = set(), []
            for s in cand:
                key = tuple(x % b for x in s)
                if key[2] not in seen and s[0] == b and s[1] == b:
                    seen.add(key[2])
                    pick.append(s)
            mixed = [s for s in cand if len({x % b for x in s}) == min(3, b) and len(set(s)) == min(3, len(sides))][:2]
            cand = pick + mixed
        out += [(s, b) for s in cand]
    return out


def sections(tier):
    S = [("conformance", "checks.c15", "sec_conformance", {}), ("sampling-rule", "checks.c15", "sec_sampling_rule", {})]
    pairs = _shape_bins(tier)
    chunk = 3 if quick(tier) else 10
    for i in range(0, len(pairs), chunk):
        S.append((f"blocksum-{i // chunk}", "checks.c15", "sec_blocksum", {"pairs": pairs[i:i + chunk]}))
    S.append(("outshape", "checks.c15", "sec_outshape", {}))
    for shp, b in (((5, 4, 7), 2), ((7, 3, 6), 3)) if quick(tier) else (((5, 4, 7), 2), ((7, 3, 6), 3), ((9, 8, 5), 4), ((6, 6, 6), 2)):
        S.append((f"blocksum-dask-{shp}-b{b}".replace(" ", ""), "checks.c15", "sec_blocksum_dask", {"shape": shp, "b": b}))
    for b in range(1, 7):
        S.append((f"region-b{b}", "checks.c15", "sec_region", {"b": b}))
        S.append((f"region-batch-b{b}", "checks.c15", "sec_region_batch", {"b": b}))
        if b in (2, 3):
            S.append((f"region-batch-b{b}-compute", "checks.c15", "sec_region_batch", {"b": b, "compute": True}))
        if b == 2:
            for kinds in (("numpy", "dask"), ("dask", "numpy"), ("numpy", "numpy")):
                S.append((f"region-batch-b{b}-compute-{'+'.join(kinds)}", "checks.c15", "sec_region_batch", {"b": b, "compute": True, "kinds": kinds}))
    return S


_U = "acryo._utils"
_LD = "acryo.loader._loader"
MUTANTS = [
    ("bin:drop-leading-remainder", "checks.c15", "sec_blocksum", {"shapes": [(3, 2, 5)], "bins": (2,)}, {_U: [("_slices.append(slice(None, s - res))", "_slices.append(slice(res, None))")]}),
    ("bin:axis-pairing", "checks.c15", "sec_blocksum", {"shapes": [(2, 4, 2)], "bins": (2,)}, {_U: [("_shapes.extend([npix, binsize])", "_shapes.extend([binsize, npix])")]}),
    ("bin:sum-wrong-axes", "checks.c15", "sec_blocksum", {"shapes": [(2, 4, 2)], "bins": (2,)}, {_U: [("axis = tuple(i * 2 + 1 for i in range(img.ndim))", "axis = tuple(i * 2 for i in range(img.ndim))")]}),
    ("binning:offset-sign", "checks.c15", "sec_region", {"b": 2}, {_LD: [("tr = -(binsize - 1) / 2 * self.scale", "tr = (binsize - 1) / 2 * self.scale")]}),
    ("binning:offset-half-bin", "checks.c15", "sec_region", {"b": 3}, {_LD: [("tr = -(binsize - 1) / 2 * self.scale", "tr = -binsize / 2 * self.scale")]}),
    ("binning:offset-no-scale", "checks.c15", "sec_region", {"b": 2}, {_LD: [("tr = -(binsize - 1) / 2 * self.scale", "tr = -(binsize - 1) / 2")]}),
    ("binning:scale-not-updated", "checks.c15", "sec_region", {"b": 2}, {_LD: [("            scale=self.scale * binsize,\n        )\n\n        out._image = binned_image", "            scale=self.scale,\n        )\n\n        out._image = binned_image")]}),
    ("binning:image-not-replaced", "checks.c15", "sec_region", {"b": 2}, {_LD: [("        out._image = binned_image\n", "        pass\n")]}),
    ("batch-binning:odd-b-offset", "checks.c15", "sec_region_batch", {"b": 3}, {"acryo.loader._batch": [("        tr = -(binsize - 1) / 2 * self.scale", "        tr = -(binsize // 2 - 0.5) * self.scale")]}),
    ("batch-binning:images-not-replaced", "checks.c15", "sec_region_batch", {"b": 2}, {"acryo.loader._batch": [("        out._images = _images\n", "        pass\n")]}),
    ("binning:floor-offset", "checks.c15", "sec_region", {"b": 4}, {_LD: [("tr = -(binsize - 1) / 2 * self.scale", "tr = -((binsize - 1) // 2) * self.scale")]}),
]


def run(tier, procs=None, only=None):
    S = select(sections(tier), only)
    return harness.run_check(
        PID, tier, S, procs=procs,
        explanation="bin_image is executed on arrays of symbolic voxels (block sums proved voxel by voxel as identities) and on a "
                    "shape-only image with symbolic sides; binning() is executed on a loader with symbolic position, scale, box shape and "
                    "rotation matrix, and the affine maps of the binned and of the original loader (through the real C02 pipeline) are "
                    "compared by z3: b*A_bin(k) + (b-1)/2 == A_orig(b*k + (b-1)/2) for every real k.",
        bounds={"block sums": f"{len(_shape_bins(tier))} (shape, b) pairs, every side >= b so the output is non-empty, b in 1..{4 if quick(tier) else 6}, "
                              f"<= {120 if quick(tier) else 400} voxels, all voxel values symbolic",
                "output shape": "every image side >= 1 (symbolic), b in 1..6",
                "same region": "b in 1..6; position, scale > 0, rotation matrix (9 free reals), box sides 1..8 symbolic; molecule >= 1000 px inside the tomogram (boundary handling is C02)",
                "order": 1},
        trusted_base=TRUSTED + ["C02's NdiStub contract", "numpy reshape/sum on object arrays (real numpy)"],
        outside=["dask compute flag (lazy vs eager images are the same stub)"],
        mutants=MUTANTS if (not quick(tier) and not only) else None,
    )


# every real-library oracle of this property (each returns (reproduced, detail)); used to confirm structural facts that carry no replay of their own
ALL_REPLAYS = [lambda c: replay_blocksum((3, 2, 5), 2)(c), lambda c: _replay_region(2)(c), lambda c: _replay_region(3)(c), lambda c: _replay_region_batch(2)(c), lambda c: _replay_region_batch(2, True, ('numpy', 'dask'))(c), lambda c: _replay_region_batch(2, True, ('dask', 'numpy'))(c), lambda c: _replay_region_batch(3, True)(c)]


def replay(data):
    key = data.get("key", "")
    info = data.get("info") or {}
    if "bin_image" in key:
        ok, detail = replay_blocksum(tuple(info.get("shape", (3, 2, 5))), info.get("b", 2))(data.get("cex") or {})
    else:
        ok, detail = _replay_region(info.get("b", 2))(data.get("cex") or {})
    print("replay:", detail)
    print("REPRODUCED" if ok else "not reproduced")
    return 1 if ok else 0
