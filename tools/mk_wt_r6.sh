#!/bin/sh
# round 6: scratch worktree /tmp/wt/<ID>r6 at /repo HEAD and the round-5 prompt (outputs <ID>_<K0>.. <ID>_<K1>; default 9..10)
ID="$1"; K0="${2:-9}"; K1="${3:-10}"
mkdir -p /tmp/seeded_out
cd /repo && git worktree remove --force /tmp/wt/${ID}r6 2>/dev/null; git worktree prune
git worktree add -q --detach /tmp/wt/${ID}r6 HEAD || exit 1
/venv/bin/python - "$ID" "$K0" "$K1" <<'PY'
import sys, json
p, k0, k1 = sys.argv[1:4]
t = open('/verif/tools/seed_prompt_template_r6.txt').read()
for l in open('/verif/properties.jsonl'):
    d = json.loads(l)
    if d['id'] == p:
        prop = f"{p}: {d['title']}\n\nStatement: {d['statement']}\n\nQuantifier: {d['quantifier']['text']}\n"
        anchors = "\n".join(f" - {m['name']}: {m['where']}" for m in d['anchors']['mechanism']) + "\n (files: " + ", ".join(d['anchors']['files']) + ")"
out = t.replace('{WT}', f'/tmp/wt/{p}r6').replace('{PROPERTY}', prop).replace('{ANCHORS}', anchors).replace('{N}', '2').replace('{OUT}', '/tmp/seeded_out').replace('{PID}', p).replace('{K0}', k0).replace('{K1}', k1).replace('{{k}}', '{k}')
open(f'/tmp/seeded_out/{p}_prompt_r6.txt', 'w').write(out)
PY
echo "worktree /tmp/wt/${ID}r6 at $(git -C /tmp/wt/${ID}r6 rev-parse --short HEAD)"
