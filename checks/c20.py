"""C20 -- particle picking finds planted particles regardless of chunking.

Real code: acryo/pick/_base.py (BasePickerModel.pick_molecules, _pick_in_chunk_wrapped, MoleculesBox, BaseTemplateMatcher.
get_params_and_depth / _index_to_quaternions), acryo/pick/_concrete.py (LoGPicker / DoGPicker.get_params_and_depth,
ZNCCTemplateMatcher.pick_in_chunk index part), Molecules.from_quat / concat -- executed on the *real* dask (synchronous scheduler):
the image is an array of position codes cut into concrete chunks, so every block that dask hands to the picker tells which global
voxels it holds (including the replicated boundary voxels).  Particle coordinates, the scale and the detector's choices in the
halo are symbolic.  The detector (the scipy part of pick_in_chunk) is idealised: it must report a particle whose neighbourhood of
radius r (the picker's exclusion radius) lies inside the block, it may or may not report particles closer to the block border, and
it may report one spurious maximum there (border artefacts of filters on a truncated image are real; see DESIGN.md).
"""
from __future__ import annotations

import itertools
import operator
from fractions import Fraction

import numpy as np
import z3

from symx import harness, load, rotation, stubs, smt
from symx import core as C
from symx.arrays import SymArray, to_symarray, _obj
from symx.core import Sym, explore, lift, real, _real, _coerce, cur
from symx.plshim import PlShim

from .common import TRUSTED, fl, frac, quick, select

PID = "C20"
MODS = ["acryo._utils", "acryo._rotation", "acryo.molecules._rotation", "acryo.molecules._group", "acryo.molecules._cut", "acryo.molecules.core", "acryo.pick._base", "acryo.pick._concrete"]


def _real_ndi():
    import scipy.ndimage

    return scipy.ndimage


def zr(x):
    return _real(lift(_coerce(x)))


def _load(patches=None):
    import dask

    dask.config.set(scheduler="synchronous")
    return load.load(MODS, overrides={"Rotation": rotation.SymRotation, "pl": PlShim()}, patches=patches)


def coded_image(N):
    ii = np.indices(N)
    return (ii[0] + 100 * ii[1] + 10000 * ii[2]).astype(np.float32)


def block_origin(image):
    """global index of local index 0 of a block of the coded image (negative inside a replicated boundary)"""
    c = np.rint(np.asarray(image, dtype=np.float64)).astype(np.int64)
    # lines through the centre voxel of the block: the centre is never inside a padded margin (constant padding carries no position code)
    m = [s // 2 for s in c.shape]
    gl = [c[:, m[1], m[2]] % 100, (c[m[0], :, m[2]] // 100) % 100, c[m[0], m[1], :] // 10000]
    org = []
    for v in gl:
        j = [k for k in range(len(v) - 1) if v[k + 1] == v[k] + 1]
        if j:
            org.append(int(v[j[0]] - j[0]))
        else:  # a one-voxel axis padded on both sides
            mid = (len(v) - 1) // 2
            org.append(int(v[mid]) - mid)
    return org


class DaskProxy:
    """the dask array handed to pick_molecules: symbolic overlap depths are made concrete (one path per value) at the dask boundary"""

    def __init__(self, arr):
        self._a = arr
        self.dtype, self.shape, self.ndim = arr.dtype, arr.shape, arr.ndim

    def astype(self, dt):
        return DaskProxy(self._a.astype(dt))

    def __getattr__(self, name):
        return getattr(self._a, name)

    def map_overlap(self, func, depth=None, **kw):
        def conc(v):
            if isinstance(v, (list, tuple)):
                return type(v)(conc(w) for w in v)
            if isinstance(v, dict):
                return {k: conc(w) for k, w in v.items()}
            return operator.index(v) if isinstance(v, Sym) else v

        self.last_depth = conc(depth)
        return self._a.map_overlap(func, depth=self.last_depth, **kw)


class Detector:
    """idealised pick_in_chunk for particles at symbolic global coordinates; spurious = 0 (none) or 1 + axis along which a spurious border maximum may appear"""

    def __init__(self, particles, radius_of, spurious=False, may=True):
        self.particles, self.radius_of, self.spurious, self.may = particles, radius_of, spurious, may
        self.blocks = 0

    def __call__(self, picker, image, **kw):
        ex = cur()
        r = self.radius_of(kw)
        org = block_origin(image)
        n = image.shape
        self.blocks += 1
        rows = []
        for j, g in enumerate(self.particles):
            p = [g[a] - org[a] for a in range(3)]
            inside = all(bool(p[a] >= -0.5) and bool(p[a] < n[a] - 0.5) for a in range(3))
            if not inside:
                continue
            must = all(bool(p[a] >= r) and bool(p[a] <= n[a] - 1 - r) for a in range(3))
            if must or (self.may and bool(C.SymBool(z3.Bool(ex.fresh_name(f"report_p{j}_blk"))))):
                rows.append(p)
        if self.spurious and bool(C.SymBool(z3.Bool(ex.fresh_name("spurious_blk")))):
            # closer than r to the border of the block along one axis (self.spurious), centred along the others
            sa = int(self.spurious) - 1
            q = [Sym(z3.Real(ex.fresh_name(f"spur{a}"))) if a == sa else Fraction(n[a] - 1, 2) for a in range(3)]
            ex.assume(z3.And(q[sa].e >= 0, q[sa].e <= n[sa] - 1, z3.Or(q[sa].e < zr(r), q[sa].e > n[sa] - 1 - zr(r))))
            rows.append(q)
        pos = to_symarray(rows) if rows else np.zeros((0, 3), dtype=np.float32)
        quats = np.zeros((len(rows), 4), dtype=np.float32)
        quats[:, 3] = 1.0
        return pos, quats, {"score": np.ones(len(rows), dtype=np.float32)}


# ---------------------------------------------------------------------------------------
# replay on the installed library: Gaussian blobs, numpy vs chunked dask


def _tb(exc):
    """the innermost frames of an exception met under symbolic execution (SYMX_DEBUG only)"""
    import os
    import traceback

    if not os.environ.get("SYMX_DEBUG"):
        return ""
    return " @ " + " <- ".join(f"{f.filename.rsplit('/', 1)[-1]}:{f.lineno}:{f.name}" for f in reversed(traceback.extract_tb(exc.__traceback__)[-6:]))


def replay_chunks(kind, N, chunks, sigma=1.0, boundary=None):
    """numpy vs chunked dask on the installed library: (a) point particles on the very image size / chunking / scale of the counterexample
    (single-chunk axes enlarged to 16), (b) Gaussian blobs on a 4x enlarged copy"""

    def run(cex):
        import dask.array as da
        from acryo.pick import LoGPicker, DoGPicker

        scale = fl(cex.get("scale")) or 1.0
        bkw = {} if boundary is None else {"boundary": boundary}
        gs = []
        for j in range(4):
            if f"p{j}_g0" in cex or j == 0:
                g = [fl(cex.get(f"p{j}_g{a}")) for a in range(3)]
                gs.append([(n - 1) // 2 if v is None else v for v, n in zip(g, N)])

        def key(m):
            p = np.asarray(m.pos, dtype=float).reshape(-1, 3)
            return p[np.lexsort(p.T[::-1])] if len(p) else p

        out = {}
        bad = False
        # (a) same geometry
        shape, chs, offs = [], [], []
        for n, ch in zip(N, chunks):
            if len(ch) == 1 and 4 < n < 16:  # axes of <= 4 voxels are thin on purpose (thinner than the overlap depth)
                shape.append(16), chs.append((16,)), offs.append((16 - n) // 2)
            else:
                shape.append(n), chs.append(tuple(ch)), offs.append(0)
        img = np.zeros(shape, dtype=np.float32)
        planted = []
        for g in gs:
            vox = tuple(int(min(max(round(v), 1 if n > 2 else 0), n - 2 if n > 2 else n - 1)) + o for v, n, o in zip(g, N, offs))
            img[vox] = 1.0
            planted.append([v * scale for v in vox])
        planted = np.array(sorted(planted))
        pk = LoGPicker(sigma=sigma) if kind == "log" else DoGPicker(sigma_low=sigma, sigma_high=1.5 * sigma)
        try:
            ref, got = key(pk.pick_molecules(img, scale=scale, **bkw)), key(pk.pick_molecules(da.from_array(img, chunks=tuple(chs)), scale=scale, **bkw))
            same = ref.shape == got.shape and (ref.size == 0 or np.abs(ref - got).max() < 0.5 * scale)
            # a point particle away from the image border is picked at its own position (numpy and dask alike)
            if len(gs) == 1 and same and ref.shape == planted.shape and np.abs(ref - planted).max() >= 0.5 * scale:
                same = False
            out["same_geometry"] = {"image": shape, "chunks": [list(c) for c in chs], "numpy_picks": ref.round(2).tolist()[:4], "dask_picks": got.round(2).tolist()[:6], "planted_at": planted.round(2).tolist()}
        except Exception as e:
            same = False
            out["same_geometry"] = {"image": shape, "chunks": [list(c) for c in chs], "raised": repr(e)[:200]}
        bad = bad or not same
        # (a') same chunk layout, a wider filter (sigma = 3 px): chunks thinner than the overlap depth
        shape2 = [n if len(ch) > 1 else 32 for n, ch in zip(N, chunks)]
        chs2 = [tuple(ch) if len(ch) > 1 else (32,) for ch in chunks]
        img = np.zeros(shape2, dtype=np.float32)
        for g in gs:
            img[tuple(int(min(max(round(v), 3), n - 4)) if len(ch) > 1 else 16 for v, n, ch in zip(g, N, chunks))] = 1.0
        pk = LoGPicker(sigma=3.0 * scale) if kind == "log" else DoGPicker(sigma_low=3.0 * scale, sigma_high=4.5 * scale)
        try:
            ref, got = key(pk.pick_molecules(img, scale=scale, **bkw)), key(pk.pick_molecules(da.from_array(img, chunks=tuple(chs2)), scale=scale, **bkw))
            same = ref.shape == got.shape and (ref.size == 0 or np.abs(ref - got).max() < 0.5 * scale)
            out["wide_filter"] = {"image": shape2, "chunks": [list(c) for c in chs2], "numpy_picks": ref.round(2).tolist()[:4], "dask_picks": got.round(2).tolist()[:6]}
        except Exception as e:
            same = False
            out["wide_filter"] = {"image": shape2, "chunks": [list(c) for c in chs2], "raised": repr(e)[:200]}
        bad = bad or not same
        # (b) enlarged blobs
        big = tuple(max(4 * n, 24) for n in N)
        f = [b / n for b, n in zip(big, N)]
        zz = np.indices(big).astype(np.float32)
        img = np.zeros(big, dtype=np.float32)
        for g in gs:
            c = [float(round(min(max(v * fa + (fa - 1) / 2, 3.0), b - 4.0))) for v, fa, b in zip(g, f, big)]
            img += np.exp(-sum((zz[a] - c[a]) ** 2 for a in range(3)) / (2 * 1.2 ** 2))
        pk = LoGPicker(sigma=1.2 * scale) if kind == "log" else DoGPicker(sigma_low=1.2 * scale, sigma_high=1.9 * scale)
        bch = tuple(tuple(int(round(x * fa)) for x in ch[:-1]) for ch, fa in zip(chunks, f))
        bch = tuple(c + (b - sum(c),) for c, b in zip(bch, big))
        try:
            ref, got = key(pk.pick_molecules(img, scale=scale, **bkw)), key(pk.pick_molecules(da.from_array(img, chunks=bch), scale=scale, **bkw))
            same = ref.shape == got.shape and (ref.size == 0 or np.abs(ref - got).max() < 1.0 * scale)
            out["enlarged"] = {"image": list(big), "chunks": [list(c) for c in bch], "numpy_picks": ref.round(2).tolist()[:4], "dask_picks": got.round(2).tolist()[:6]}
        except Exception as e:
            same = False
            out["enlarged"] = {"image": list(big), "chunks": [list(c) for c in bch], "raised": repr(e)[:200]}
        bad = bad or not same
        # (c) the chunk wrapper alone, with an exact user-defined picker (public base class): a particle = two adjacent voxels along an axis,
        # reported at their midpoint (a half-integer coordinate); midpoints exactly on chunk borders, odd and even chunk sizes
        from acryo.pick._base import BasePickerModel

        class PairPicker(BasePickerModel):
            def __init__(self, axis):
                self.axis = axis

            def get_params_and_depth(self, scale):
                return {}, 2

            def pick_in_chunk(self, image):
                idx = np.argwhere(np.asarray(image) > 0.5)
                pts = []
                for p in idx:
                    q = p.copy()
                    q[self.axis] += 1
                    if q[self.axis] < image.shape[self.axis] and image[tuple(q)] > 0.5:
                        pts.append((p + q) / 2.0)
                pos = np.array(pts, dtype=np.float32).reshape(-1, 3)
                quat = np.zeros((len(pos), 4), dtype=np.float32)
                quat[:, 3] = 1
                return pos, quat, {"score": np.ones(len(pos), dtype=np.float32)}

        pair = {}
        for axis in range(3):
            for csize in (5, 6, 7):
                shp = [12, 12, 12]
                shp[axis] = 3 * csize
                for border in (csize, 2 * csize):
                    img = np.zeros(shp, dtype=np.float32)
                    a, b2 = [5, 5, 5], [5, 5, 5]
                    a[axis], b2[axis] = border - 1, border
                    img[tuple(a)] = img[tuple(b2)] = 1.0
                    ch = [12, 12, 12]
                    ch[axis] = csize
                    try:
                        r0 = key(PairPicker(axis).pick_molecules(img, scale=scale, **bkw))
                        r1 = key(PairPicker(axis).pick_molecules(da.from_array(img, chunks=tuple(ch)), scale=scale, **bkw))
                        if r0.shape != (1, 3) or r1.shape != r0.shape or np.abs(r0 - r1).max() > 1e-6 * max(scale, 1):
                            pair[f"axis{axis},chunk={csize},midpoint={border - 0.5}"] = {"numpy": r0.round(3).tolist(), "dask": r1.round(3).tolist()}
                    except Exception as e:
                        pair[f"axis{axis},chunk={csize},midpoint={border - 0.5}"] = {"raised": repr(e)[:160]}
        if pair:
            out["pick_exactly_on_a_chunk_border"] = dict(list(pair.items())[:4])
            bad = True
        return bad, {"picker": kind, "scale": scale, **out}

    return run


# ---------------------------------------------------------------------------------------
# section: chunk bookkeeping of pick_molecules


def _norm_chunks(chunks, N):
    out = []
    for ch, n in zip(chunks, N):
        out.append(ch if isinstance(ch, tuple) else tuple([ch] * (n // ch) + ([n % ch] if n % ch else [])))
    return tuple(out)


def sec_chunks(rec, kind="log", N=(12, 6, 5), chunks=((6, 6), (6,), (5,)), n_particles=1, spurious=1, scale_range=(Fraction(3, 5), Fraction(3, 2)), sigma=1.0, may=True, boundary=None, patches=None):
    import dask.array as da

    L = _load(patches)
    PB, PC = L["acryo.pick._base"], L["acryo.pick._concrete"]
    rec.encodes("acryo/pick/_base.py:BasePickerModel.pick_molecules", "acryo/pick/_base.py:BasePickerModel._pick_in_chunk_wrapped", "acryo/pick/_base.py:MoleculesBox",
                f"acryo/pick/_concrete.py:{'LoGPicker' if kind == 'log' else 'DoGPicker'}.get_params_and_depth", "acryo/molecules/core.py:Molecules.from_quat", "acryo/molecules/core.py:Molecules.concat")
    rec.assume("real dask.array.map_overlap (synchronous scheduler) on an image of position codes; pick_in_chunk is the idealised detector: must report a particle whose r-neighbourhood lies inside the block, "
               "may report particles nearer to the block border, may report one spurious maximum there (r = the picker's exclusion radius, sigma in pixels)")
    img = coded_image(N)
    P = [[real(f"p{j}_g{a}") for a in range(3)] for j in range(n_particles)]
    scale = real("scale")
    hyps = [scale.e >= scale_range[0], scale.e <= scale_range[1]]
    for g in P:
        hyps += [z3.And(x.e >= 0, x.e <= n - 1) for x, n in zip(g, N)]
    for g1, g2 in itertools.combinations(P, 2):
        # well separated: further apart than the largest overlap depth + exclusion radius on some axis
        sep = 3 * sigma / scale_range[0] + 1
        hyps.append(z3.Or(*[z3.Or(g1[a].e - g2[a].e >= sep, g2[a].e - g1[a].e >= sep) for a in range(3)]))
    names = {"scale"} | {f"p{j}_g{a}" for j in range(n_particles) for a in range(3)}
    tag = f"chunks[{kind},N={N},chunks={chunks},P={n_particles}" + (f",boundary={boundary!r}" if boundary is not None else "") + "]"
    rp = replay_chunks(kind, N, _norm_chunks(chunks, N), boundary=boundary)
    det = Detector(P, (lambda kw: kw["sigma"]) if kind == "log" else (lambda kw: kw["sigma_low"]), spurious=spurious, may=may)
    cls = PC.LoGPicker if kind == "log" else PC.DoGPicker
    cls.pick_in_chunk = lambda self, image, **kw: det(self, image, **kw)

    def run():
        pk = cls(sigma) if kind == "log" else cls(sigma, 1.5 * sigma)
        x = DaskProxy(da.from_array(img, chunks=chunks))
        return pk.pick_molecules(x, scale) if boundary is None else pk.pick_molecules(x, scale, boundary=boundary)

    paths = explore(run, assumptions=hyps, max_paths=4000)
    n_ok = 0
    for pi, p in enumerate(paths):
        h = hyps + [p.condition()]
        if not p.ok:
            ok, det_ = rp({})
            rec.fact(f"{tag}/path{pi}/runs", False, key=f"C20/{kind}/raises", detail={"exc": repr(p.exc)[:300] + _tb(p.exc), **det_}, reproduced=ok)
            continue
        n_ok += 1
        mol = p.result
        pos = _obj(to_symarray(mol.pos)) if mol.count() else np.zeros((0, 3), dtype=object)
        # the path is feasible by construction; the count must be the number of planted particles
        if pos.shape[0] != n_particles:
            rec.query(f"{tag}/path{pi}/one-molecule-per-particle (got {pos.shape[0]})", h, z3.BoolVal(False), key=f"C20/{kind}/count[{'duplicate-or-spurious' if pos.shape[0] > n_particles else 'missed'}]", names=names, replay=rp)
            continue
        goals = []
        for perm in itertools.permutations(range(n_particles)):
            goals.append(z3.And(*[zr(pos[i][a]) == P[perm[i]][a].e * scale.e for i in range(n_particles) for a in range(3)]))
        rec.query(f"{tag}/path{pi}/positions=coordinates*scale", h, z3.Or(*goals), key=f"C20/{kind}/position", names=names, replay=rp, nonlinear=True)
    rec.extra[tag] = {"paths": len(paths), "completed": n_ok}


def sec_depth(rec, patches=None):
    """the overlap depth requested by LoG/DoG covers the detector's exclusion radius: depth - 1/2 >= sigma_px (so the owner block sees the whole neighbourhood)"""
    L = _load(patches)
    PC = L["acryo.pick._concrete"]
    rec.encodes("acryo/pick/_concrete.py:LoGPicker.get_params_and_depth", "acryo/pick/_concrete.py:DoGPicker.get_params_and_depth")
    sg, sg2, scale = real("sigma"), real("sigma_high"), real("scale")
    hyps = [sg.e > 0, scale.e > 0, sg2.e > sg.e, sg.e / scale.e <= 6]
    for kind in ("log", "dog"):
        def run():
            pk = PC.LoGPicker(sg) if kind == "log" else PC.DoGPicker(sg, sg2)
            return pk.get_params_and_depth(scale)

        for pi, p in enumerate(explore(run, assumptions=hyps, max_paths=60)):
            h = hyps + [p.condition()]
            if not p.ok:
                rec.fact(f"depth[{kind}]/path{pi}/runs", False, key=f"C20/{kind}/depth-raises", detail={"exc": repr(p.exc)[:200]}, reproduced=None)
                continue
            params, depth = p.result
            key = "sigma" if kind == "log" else "sigma_low"
            rec.query(f"depth[{kind}]/path{pi}/sigma_px=sigma/scale", h, zr(params[key]) == sg.e / scale.e, key=f"C20/{kind}/sigma-px", nonlinear=True)
            if kind == "dog":
                rec.query(f"depth[{kind}]/path{pi}/sigma_high_px", h, zr(params["sigma_high"]) == sg2.e / scale.e, key=f"C20/{kind}/sigma-px", nonlinear=True)
            rec.query(f"depth[{kind}]/path{pi}/depth-1/2>=exclusion-radius", h, zr(depth) - Fraction(1, 2) >= sg.e / scale.e, key=f"C20/{kind}/depth-covers-radius", nonlinear=True)


# ---------------------------------------------------------------------------------------
# section: template matcher: template bank, overlap depth, landscape index -> centre, arg-max -> searched rotation, chunking


class TagArr(np.ndarray):
    """result of the recorded affine_transform: a real array that remembers its arguments (also through `* mask`)"""

    def __new__(cls, shape, rec):
        obj = np.zeros(shape, dtype=np.float32).view(cls)
        obj.rec = rec
        return obj

    def __array_finalize__(self, obj):
        self.rec = getattr(obj, "rec", None)


def _quats(K):
    """K exact unit quaternions (x, y, z, w)"""
    pool = [(0, 0, 0, 1), (Fraction(3, 5), 0, 0, Fraction(4, 5)), (Fraction(1, 5), Fraction(2, 5), Fraction(2, 5), Fraction(4, 5)), (0, Fraction(-5, 13), 0, Fraction(12, 13)),
            (Fraction(2, 7), Fraction(3, 7), Fraction(6, 7), 0)]
    return [tuple(Fraction(v) for v in q) for q in pool[:K]]


def ndi_zoom_smooth(a):
    from scipy import ndimage as ndi

    return ndi.gaussian_filter(a, 1.0).astype(np.float32)


def replay_template(cex):
    """installed library: an even / odd template planted at positions around a chunk boundary, one rotated copy; numpy vs dask"""
    import dask.array as da
    from acryo.pick import ZNCCTemplateMatcher
    from scipy.spatial.transform import Rotation

    rng = np.random.default_rng(0)
    bad = []
    for s in ((6, 6, 6), (7, 7, 7), (6, 4, 8)):
        t = rng.normal(size=s).astype(np.float32)
        for start in range(10, 19):
            big = rng.normal(size=(40, 20, 24)).astype(np.float32) * 0.02
            big[start:start + s[0], 7:7 + s[1], 8:8 + s[2]] += t
            tm = ZNCCTemplateMatcher(t)
            want = [[start + (s[0] - 1) / 2, 7 + (s[1] - 1) / 2, 8 + (s[2] - 1) / 2]]
            try:
                a = tm.pick_molecules(big, 1.0, min_score=0.5).pos.tolist()
            except Exception as e:
                bad.append({"template": list(s), "raised": repr(e)[:150]})
                continue
            if not (np.shape(a) == (1, 3) and np.allclose(a, want)):
                bad.append({"template": list(s), "centre": want[0], "numpy": a})
            # even and odd chunk sizes: a half-integer centre (even template) can lie exactly on a chunk border
            for cz in (20, 15, 13) if 14 <= start else (15, 13):
                try:
                    b = tm.pick_molecules(da.from_array(big, chunks=(cz, 20, 12)), 1.0, min_score=0.5).pos.tolist()
                except Exception as e:
                    bad.append({"template": list(s), "chunks": [cz, 20, 12], "raised": repr(e)[:150]})
                    continue
                if not (np.shape(b) == (1, 3) and np.allclose(b, want)):
                    bad.append({"template": list(s), "centre": want[0], "numpy": a, f"dask_chunks_({cz},20,12)": b})
    # a template whose FIRST axis is the shortest, particle moved across chunk borders of the longest axis
    t = rng.normal(size=(4, 8, 6)).astype(np.float32)
    tm = ZNCCTemplateMatcher(t)
    for start in range(5, 15):
        big = rng.normal(size=(24, 40, 24)).astype(np.float32) * 0.02
        big[9:13, start:start + 8, 8:14] += t
        want = [[9 + 1.5, start + 3.5, 8 + 2.5]]
        for cy in (10, 13):
            try:
                b = tm.pick_molecules(da.from_array(big, chunks=(24, cy, 24)), 1.0, min_score=0.5).pos.tolist()
            except Exception as e:
                bad.append({"template": [4, 8, 6], "chunks": [24, cy, 24], "raised": repr(e)[:150]})
                continue
            if not (np.shape(b) == (1, 3) and np.allclose(b, want)):
                bad.append({"template": [4, 8, 6], "centre": want[0], f"dask_chunks_(24,{cy},24)": b})
    # one matcher with an ImageProvider template used at two scales
    from acryo import pipe

    t16 = rng.normal(size=(12, 12, 12)).astype(np.float32)
    t16 = ndi_zoom_smooth(t16)
    try:
        tm = ZNCCTemplateMatcher(pipe.from_array(t16, original_scale=0.5))
        for sc in (0.5, 1.0):
            tt = pipe.from_array(t16, original_scale=0.5)(sc)
            n = tt.shape[0]
            big = rng.normal(size=(3 * n, 3 * n, 3 * n)).astype(np.float32) * 0.02
            big[n:2 * n, n:2 * n, n:2 * n] += tt
            m = tm.pick_molecules(big, sc, min_score=0.7)
            want = [(n + (n - 1) / 2) * sc] * 3
            if not (m.count() == 1 and np.allclose(m.pos[0], want, atol=0.51 * sc)):
                bad.append({"provider-template-at-scale": sc, "picks": np.round(m.pos, 2).tolist(), "want": want})
    except Exception as e:
        bad.append({"provider-template": "raised", "exc": repr(e)[:150]})
    # a smooth particle centred 1.5 / 1 voxels before a chunk border: the next block must not report its shoulder
    for s_ in (8, 7):
        zz = np.indices((s_,) * 3).astype(float)
        c = (s_ - 1) / 2
        t = (np.exp(-((zz[0] - c) ** 2 + (zz[1] - c) ** 2 + (zz[2] - c) ** 2) / 6.0) + 0.05 * rng.normal(size=(s_,) * 3)).astype(np.float32)
        for start in (6, 7, 8, 9, 10):
            big = rng.normal(size=(24, 20, 40)).astype(np.float32) * 0.02
            big[8:8 + s_, 6:6 + s_, start:start + s_] += t
            tm = ZNCCTemplateMatcher(t)
            try:
                a = np.round(tm.pick_molecules(big, 1.0, min_score=0.6).pos, 3).tolist()
                b = np.round(tm.pick_molecules(da.from_array(big, chunks=(24, 20, 13)), 1.0, min_score=0.6).pos, 3).tolist()
            except Exception as e:
                bad.append({"smooth-template": s_, "raised": repr(e)[:150]})
                continue
            if sorted(a) != sorted(b):
                bad.append({"smooth-template": s_, "x-start": start, "numpy": a, "dask_chunks_(24,20,13)": b})
    # searched rotation: a quarter turn about z of a chiral template (exact on the grid), odd and even
    for n in (7, 8):
        t = rng.normal(size=(n, n, n)).astype(np.float32)
        rot = Rotation.from_rotvec([np.pi / 2, 0, 0])  # acryo axis order (z, y, x): a turn about z
        tr = np.rot90(t, k=1, axes=(1, 2))
        for cand, planted in ((np.rot90(t, k=1, axes=(1, 2)), "k=1"), (np.rot90(t, k=-1, axes=(1, 2)), "k=-1")):
            big = rng.normal(size=(20, 24, 24)).astype(np.float32) * 0.02
            big[5:5 + n, 8:8 + n, 6:6 + n] += cand
            tm = ZNCCTemplateMatcher(t, rotation=[Rotation.identity(), rot], order=1)
            try:
                m = tm.pick_molecules(big, 1.0, min_score=0.6)
            except Exception as e:
                bad.append({"rotated": n, "raised": repr(e)[:150]})
                continue
            if m.count() == 1:
                want = [5 + (n - 1) / 2, 8 + (n - 1) / 2, 6 + (n - 1) / 2]
                if not np.allclose(m.pos[0], want):
                    bad.append({"rotated-template": n, "planted": planted, "pos": m.pos.tolist(), "want": want})
    return len(bad) > 0, {"n_problems": len(bad), "problems": bad[:5]}


def replay_footprint(cex):
    """installed library: find_maxima with an exclusion distance of exactly 1, 1.5, 2 voxels on an asymmetric blob and on two nearby peaks: only strict local maxima within the closed ball survive"""
    from acryo.pick._concrete import find_maxima

    zz = np.indices((15, 15, 15)).astype(float)
    blob = np.exp(-((zz[0] - 7) ** 2 / 8.0 + (zz[1] - 7) ** 2 / 3.0 + (zz[2] - 6.6) ** 2 / 5.0)) * (1 + 0.08 * (zz[2] - 7))
    bad = {}
    for r in (1.0, 1.5, 2.0, 3.0):
        got = np.asarray(find_maxima(blob.astype(np.float32), r, 0.2))
        want = np.array(np.unravel_index(np.argmax(blob), blob.shape), dtype=float)
        if got.shape != (1, 3) or np.abs(got[0] - want).max() > 1e-6:
            bad[f"asymmetric blob, radius {r}"] = {"picks": got.round(3).tolist(), "maximum_at": want.tolist()}
    two = np.zeros((9, 9, 12), dtype=np.float32)
    two[4, 4, 3] = 1.0
    two[4, 4, 4] = 0.6   # a shoulder next to the first peak: inside its exclusion ball of radius 1
    two[4, 4, 8] = 0.9
    got = np.asarray(find_maxima(two, 1.0, 0.1))
    if sorted(map(tuple, got.round(3).tolist())) != [(4.0, 4.0, 3.0), (4.0, 4.0, 8.0)]:
        bad["peak with a shoulder at distance 1, radius 1"] = got.round(3).tolist()
    return len(bad) > 0, {"problems": bad}


def sec_footprint(rec, patches=None):
    """the exclusion footprint of find_maxima is the CLOSED ball of the given radius (a neighbour at distance exactly `radius` suppresses), identity below 1 voxel; radius symbolic in [0, 3]"""
    L = _load(patches)
    PC = L["acryo.pick._concrete"]
    rec.encodes("acryo/pick/_concrete.py:maximum_filter (footprint)", "acryo/pick/_concrete.py:find_maxima")
    rec.assume("scipy.ndimage.maximum_filter is recorded (footprint and mode); its own semantics are scipy's")
    r = real("radius")
    hyps = [r.e >= 0, r.e <= 3]
    calls = []

    class Ndi:
        def maximum_filter(self, image, footprint=None, mode=None, **kw):
            calls.append((footprint, mode, kw))
            return image

    PC.ndi = Ndi()
    img = np.zeros((3, 3, 3), dtype=np.float32)

    def run():
        del calls[:]
        out = PC.maximum_filter(img, r)
        return out, list(calls)

    for pi, pth in enumerate(explore(run, assumptions=hyps, max_paths=40)):
        h = hyps + [pth.condition()]
        if not pth.ok:
            rec.fact(f"footprint/path{pi}/runs", False, key="C20/footprint/raises", detail={"exc": repr(pth.exc)[:200]}, reproduced=replay_footprint({})[0])
            continue
        out, cl = pth.result
        if not cl:
            rec.query(f"footprint/path{pi}/no-filter=>radius<1", h, r.e < 1, key="C20/footprint/identity-range", replay=replay_footprint, names={"radius"})
            continue
        rec.query(f"footprint/path{pi}/filter=>radius>=1", h, r.e >= 1, key="C20/footprint/identity-range", replay=replay_footprint, names={"radius"})
        foot, mode, kw = cl[0]
        F = _obj(to_symarray(foot)) if not isinstance(foot, np.ndarray) or foot.dtype == object else foot
        n = F.shape[0]
        okc = F.ndim == 3 and len(set(F.shape)) == 1 and n % 2 == 1 and mode == "nearest"
        rec.fact(f"footprint/path{pi}/odd-cube,mode=nearest", bool(okc), key="C20/footprint/shape", detail={"shape": list(F.shape), "mode": mode}, reproduced=True if okc else replay_footprint({})[0])
        if not okc:
            continue
        c = n // 2
        rec.query(f"footprint/path{pi}/cube-holds-the-ball", h, z3.RealVal(c) >= r.e, key="C20/footprint/cube-too-small", replay=replay_footprint, names={"radius"})
        from symx.core import SymBool

        for idx in np.ndindex(F.shape):
            d2 = sum((i - c) ** 2 for i in idx)
            v = F[idx]
            term = v.e if isinstance(v, SymBool) else z3.BoolVal(bool(v))
            rec.query(f"footprint/path{pi}/offset{tuple(i - c for i in idx)}<=>|d|<=radius", h, term == (z3.RealVal(d2) <= r.e * r.e), key="C20/footprint/closed-ball", replay=replay_footprint, names={"radius"}, nonlinear=True, twin=False)


def sec_template(rec, shape=(4, 2, 6), K=3, patches=None):
    L = _load(patches)
    PB, PC = L["acryo.pick._base"], L["acryo.pick._concrete"]
    rec.encodes("acryo/pick/_base.py:BaseTemplateMatcher.__init__", "acryo/pick/_base.py:BaseTemplateMatcher.get_params_and_depth", "acryo/pick/_base.py:BaseTemplateMatcher._index_to_quaternions",
                "acryo/pick/_concrete.py:ZNCCTemplateMatcher.pick_in_chunk", "acryo/_utils.py:compose_matrices", "acryo/_rotation.py:normalize_rotations")
    rec.assume("affine_transform / spline_filter recorded (out[o] = in[M o]); ncc_landscape_no_pad replaced by arrays of its shape (n - s - 1 per axis; entry x <-> template starting at voxel x + 1: C04 semantics) "
               "whose arg-max template index is a known pattern; find_maxima returns arbitrary landscape positions; map_coordinates opaque")
    calls = []

    def aff(inp, mtx, **kw):
        r = {"input": inp, "matrix": mtx, **kw}
        calls.append(r)
        return TagArr(np.shape(inp), r)

    PB.affine_transform = aff
    PB.spline_filter = stubs.like(_real_ndi().spline_filter, lambda inp, *a, **kw: inp)
    quats = _quats(K)
    template = np.arange(int(np.prod(shape)), dtype=np.float32).reshape(shape)
    tag = f"template[{shape},K={K}]"

    def build():
        del calls[:]
        tm = PC.ZNCCTemplateMatcher(template, rotation=rotation.SymRotation.from_quat(to_symarray([list(q) for q in quats])) if K > 1 else None)
        params, depth = tm.get_params_and_depth(1.0)
        return tm, params, depth, list(calls)

    for p in explore(build, max_paths=5):
        if not p.ok:
            ok, det = replay_template({})
            rec.fact(f"{tag}/bank/runs", False, key="C20/tm/bank-raises", detail={"exc": repr(p.exc)[:300], **det}, reproduced=ok)
            continue
        tm, params, depth, cl = p.result
        tmpls = params.get("templates", [])
        recs = [getattr(t, "rec", None) for t in tmpls]  # the task pool may execute in any order: results come back in submission order
        okn = len(tmpls) == K and len(cl) == K and all(c["input"] is template or np.array_equal(np.asarray(c["input"]), template) for c in cl) and all(r is not None and any(r is c for c in cl) for r in recs) \
            and len({id(r) for r in recs}) == K
        cl = recs if okn else cl
        rec.fact(f"{tag}/bank/one-rotated-template-per-searched-rotation,in-order", bool(okn), key="C20/tm/bank", detail={"templates": len(tmpls), "calls": len(cl)}, reproduced=True if okn else replay_template({})[0])
        # depth: every particle centre inside a chunk must be reachable by the landscape of the extended chunk:
        # landscape entry x <-> centre x + (s+1)/2, x in [0, n-s-2]; owned centres lie in [d - 1/2, d + n_c - 1/2), n = n_c + 2d
        depth3 = tuple(depth) if hasattr(depth, "__len__") else (depth,) * 3  # pick_molecules accepts one depth for all axes
        for a in range(3):
            d, s_ = zr(depth3[a]), shape[a]
            lowest_owned = d - Fraction(1, 2) if s_ % 2 == 0 else d  # centres are (half-)integers: x + (s+1)/2
            rec.query(f"{tag}/depth/axis{a}/lowest-owned-centre-is-on-the-landscape", [], z3.RealVal(Fraction(s_ + 1, 2)) <= lowest_owned, key="C20/tm/depth-covers-template", replay=lambda cex: replay_template(cex))
            nc = z3.Real("n_c")
            highest_owned = d + nc - (Fraction(3, 2) if s_ % 2 == 0 else 1)
            rec.query(f"{tag}/depth/axis{a}/highest-owned-centre-is-on-the-landscape", [nc >= 1], highest_owned <= (nc + 2 * d - s_ - 2) + Fraction(s_ + 1, 2), key="C20/tm/depth-covers-template", replay=lambda cex: replay_template(cex))
            # ... and not on its border: the first / last entry of a block's landscape can be the shoulder of a particle lying just outside it
            rec.query(f"{tag}/depth/axis{a}/owned-centres-are-interior-entries-of-the-landscape", [nc >= 1],
                      z3.And(z3.RealVal(Fraction(s_ + 1, 2)) + 1 <= lowest_owned, highest_owned <= (nc + 2 * d - s_ - 2) + Fraction(s_ + 1, 2) - 1), key="C20/tm/landscape-border-owned", replay=lambda cex: replay_template(cex))
        if not okn:
            continue
        c = [Fraction(n - 1, 2) for n in shape]
        for k, cal in enumerate(cl):
            M = _obj(to_symarray(cal["matrix"]))
            R = _obj(to_symarray(rotation.SymRotation.from_quat(to_symarray([list(quats[k])])).as_matrix())).reshape(3, 3)
            g = []
            for i in range(3):
                # the box centre is the fixed point; the linear part is the inverse (transpose) of the searched rotation
                g.append(sum((zr(M[i, j]) * c[j] for j in range(3)), z3.RealVal(0)) + zr(M[i, 3]) == c[i])
                for j in range(3):
                    g.append(zr(M[i, j]) == zr(R[j, i]))
            rec.query(f"{tag}/bank/template{k}=reference-rotated-by-the-searched-rotation-about-the-box-centre", [], z3.And(*g), key="C20/tm/rotation-pivot", replay=lambda cex: replay_template(cex), twin=False)
            rec.fact(f"{tag}/bank/template{k}/order-and-no-prefilter", cal.get("order") == tm.order and cal.get("prefilter") is False, key="C20/tm/bank-args", detail={}, reproduced=None)

    # the same matcher used at two scales with an ImageProvider template: each call uses the template provided at its own scale
    class Prov(PB.ImageProvider):
        def __init__(self):
            pass

        def provide(self, scale):
            t = TagArr(shape, {"provided_at": scale})
            return t

        __call__ = provide

    s1, s2 = real("scale"), real("scale2")

    def two_scales():
        tm = PC.ZNCCTemplateMatcher(Prov())
        del calls[:]
        tm.get_params_and_depth(s1)
        first = list(calls)
        del calls[:]
        tm.get_params_and_depth(s2)
        return first, list(calls)

    for pi, p in enumerate(explore(two_scales, assumptions=[s1.e > 0, s2.e > 0, s1.e != s2.e], max_paths=5)):
        if not p.ok:
            rec.fact(f"{tag}/provider/path{pi}/runs", False, key="C20/tm/provider-raises", detail={"exc": repr(p.exc)[:300]}, reproduced=replay_template({"__provider__": True})[0])
            continue
        for name, cl_, sc in (("first-call", p.result[0], s1), ("second-call", p.result[1], s2)):
            tags_ = [getattr(c["input"], "rec", None) for c in cl_]
            okp = len(cl_) == 1 and isinstance(tags_[0], dict) and "provided_at" in tags_[0]
            rec.fact(f"{tag}/provider/path{pi}/{name}/template-comes-from-the-provider", bool(okp), key="C20/tm/provider", detail={"n": len(cl_)}, reproduced=True if okp else replay_template({"__provider__": True})[0])
            if okp:
                rec.query(f"{tag}/provider/path{pi}/{name}/provided-at-the-scale-of-this-call", [s1.e > 0, s2.e > 0, s1.e != s2.e, p.condition()], zr(tags_[0]["provided_at"]) == sc.e, key="C20/tm/stale-provider-template",
                          replay=lambda cex: replay_template({"__provider__": True}))

    # pick_in_chunk: landscape position -> block coordinate, arg-max -> quaternion
    n_blk = tuple(s_ + 4 for s_ in shape)
    Lsh = tuple(n - s_ - 1 for n, s_ in zip(n_blk, shape))
    pat = np.indices(Lsh).sum(axis=0) % K
    q = [real(f"q{a}") for a in range(3)]
    hyps = [z3.And(x.e >= 0, x.e <= l - 1) for x, l in zip(q, Lsh)]

    def lands(img, tmpl, backend):
        k = lands.k
        lands.k += 1
        ok = np.shape(img) == n_blk and np.shape(tmpl) == tuple(shape)
        lands.bad = lands.bad or not ok
        # an array of the engine (exact values): the matcher may look the arg-max table up with whole index arrays derived from the symbolic positions
        return to_symarray((pat == k).astype(np.float32))

    PC.ncc_landscape_no_pad = lands
    PC.find_maxima = stubs.like(PC.find_maxima, lambda img, dist, thr, *a, **k: to_symarray([q]))
    PC._sample_score = stubs.like(PC._sample_score, lambda img, pos, *a, **k: np.ones(1, dtype=np.float32))

    def pick():
        tm, params, depth, _ = build()
        lands.k, lands.bad = 0, False
        out = tm.pick_in_chunk(np.zeros(n_blk, dtype=np.float32), params["templates"], 1.0, 0.1)
        return out, lands.bad

    for pi, p in enumerate(explore(pick, assumptions=hyps, max_paths=400)):
        h = hyps + [p.condition()]
        if not p.ok:
            rec.fact(f"{tag}/pick/path{pi}/runs", False, key="C20/tm/pick-raises", detail={"exc": repr(p.exc)[:300] + _tb(p.exc)}, reproduced=replay_template({})[0])
            continue
        (pos, qs, feat), badshape = p.result
        rec.fact(f"{tag}/pick/path{pi}/one-landscape-per-template-on-the-block", not badshape, key="C20/tm/landscape-args", detail={}, reproduced=None)
        pos, qs = _obj(to_symarray(pos)), _obj(to_symarray(qs))
        rec.query(f"{tag}/pick/path{pi}/centre=landscape-position+(s+1)/2", h, z3.And(*[zr(pos[0][a]) == q[a].e + Fraction(shape[a] + 1, 2) for a in range(3)]), key="C20/tm/centre-offset", replay=lambda cex: replay_template(cex))
        # the arg-max template at the voxel nearest to the maximum: round-half-even of q
        rq = [z3.ToInt(x.e + Fraction(1, 2)) for x in q]
        conds = []
        for k in range(K):
            isk = z3.Or(*[z3.And(*[rq[a] == idx[a] for a in range(3)]) for idx in np.ndindex(Lsh) if pat[idx] == k]) if (pat == k).any() else z3.BoolVal(False)
            conds.append(z3.Implies(isk, z3.And(*[zr(qs[0][j]) == quats[k][j] for j in range(4)])))
        # exact half-integers round to even in numpy: exclude them from the claim (both neighbours tie)
        nohalf = [x.e + Fraction(1, 2) != z3.ToReal(z3.ToInt(x.e + Fraction(1, 2))) for x in q]
        rec.query(f"{tag}/pick/path{pi}/quaternion=searched-rotation-of-the-arg-max-template", h + nohalf, z3.And(*conds), key="C20/tm/rotation-lookup", replay=lambda cex: replay_template(cex))


def sec_tm_chunks(rec, shape=(4, 2, 6), N=(12, 6, 8), chunks=((6, 6), (6,), (8,)), patches=None):
    """chunk bookkeeping with the template matcher's own per-axis depth; the detector reports exactly the centres that lie on the landscape of the block"""
    import dask.array as da

    L = _load(patches)
    PB, PC = L["acryo.pick._base"], L["acryo.pick._concrete"]
    rec.encodes("acryo/pick/_base.py:BasePickerModel.pick_molecules", "acryo/pick/_base.py:BasePickerModel._pick_in_chunk_wrapped", "acryo/pick/_base.py:BaseTemplateMatcher.get_params_and_depth (depth)",
                "acryo/pick/_concrete.py:ZNCCTemplateMatcher.pick_molecules")
    rec.assume("real dask map_overlap on an image of position codes; pick_in_chunk idealised: a particle is reported iff its centre is on the landscape of the block: (s+1)/2 <= p <= n - (s+3)/2 on every axis (C04: entry x <-> template at x+1), "
               "centres are at landscape nodes: p - (s+1)/2 is an integer; a particle one node outside the landscape may leave a maximum on the nearest border entry of the landscape (its shoulder)")
    PB.affine_transform = stubs.like(_real_ndi().affine_transform, lambda inp, mtx, *a, **kw: np.asarray(inp))
    PB.spline_filter = stubs.like(_real_ndi().spline_filter, lambda inp, *a, **kw: inp)
    img = coded_image(N)
    g = [real(f"p0_g{a}") for a in range(3)]
    scale = real("scale")
    hyps = [scale.e >= Fraction(1, 2), scale.e <= 2]
    for a in range(3):
        lo = Fraction(shape[a] - 1, 2)  # the whole template lies inside the image
        k = z3.Int(f"node{a}")
        hyps += [g[a].e >= lo, g[a].e <= N[a] - 1 - lo, g[a].e == z3.ToReal(k) + lo]
    names = {"scale"} | {f"p0_g{a}" for a in range(3)}
    tag = f"tm-chunks[{shape},N={N},chunks={chunks}]"

    def detector(self, image, templates, min_distance, min_score):
        org = block_origin(image)
        n = image.shape
        p = [g[a] - org[a] for a in range(3)]
        rows = []
        if all(bool(p[a] >= Fraction(shape[a] + 1, 2)) and bool(p[a] <= n[a] - Fraction(shape[a] + 3, 2)) for a in range(3)):
            rows.append(p)
        else:
            # the particle is not on this block's landscape: its shoulder may show up as a maximum on the landscape border next to it
            ex = cur()
            lo = [Fraction(shape[a] + 1, 2) for a in range(3)]
            hi = [n[a] - Fraction(shape[a] + 3, 2) for a in range(3)]
            near = all(bool(p[a] >= lo[a] - 1) and bool(p[a] <= hi[a] + 1) for a in range(3))
            if near and bool(C.SymBool(z3.Bool(ex.fresh_name("shoulder_blk")))):
                q = [lo[a] if bool(p[a] < lo[a]) else (hi[a] if bool(p[a] > hi[a]) else p[a]) for a in range(3)]
                rows.append(q)
        pos = to_symarray(rows) if rows else np.zeros((0, 3), dtype=np.float32)
        quats = np.zeros((len(rows), 4), dtype=np.float32)
        quats[:, 3] = 1.0
        return pos, quats, {"score": np.ones(len(rows), dtype=np.float32)}

    PC.ZNCCTemplateMatcher.pick_in_chunk = detector
    template = np.zeros(shape, dtype=np.float32)

    def run():
        tm = PC.ZNCCTemplateMatcher(template)
        return tm.pick_molecules(DaskProxy(da.from_array(img, chunks=chunks)), scale)

    rp = lambda cex: replay_template(cex)
    for pi, p in enumerate(explore(run, assumptions=hyps, max_paths=2000)):
        h = hyps + [p.condition()]
        if not p.ok:
            ok, det_ = replay_template({})
            rec.fact(f"{tag}/path{pi}/runs", False, key="C20/tm/chunks-raises", detail={"exc": repr(p.exc)[:300], **det_}, reproduced=ok)
            continue
        mol = p.result
        pos = _obj(to_symarray(mol.pos)) if mol.count() else np.zeros((0, 3), dtype=object)
        if pos.shape[0] != 1:
            rec.query(f"{tag}/path{pi}/one-molecule-per-particle (got {pos.shape[0]})", h, z3.BoolVal(False), key=f"C20/tm/count[{'duplicate' if pos.shape[0] > 1 else 'missed'}]", names=names, replay=rp)
            continue
        rec.query(f"{tag}/path{pi}/position=coordinate*scale", h, z3.And(*[zr(pos[0][a]) == g[a].e * scale.e for a in range(3)]), key="C20/tm/position", names=names, replay=rp, nonlinear=True)


def sections(tier):
    q = quick(tier)
    secs = [("depth", "checks.c20", "sec_depth", {}), ("footprint", "checks.c20", "sec_footprint", {})]
    cfgs = [("log", (12, 6, 5), ((6, 6), (6,), (5,)), 1, 1), ("log", (6, 12, 5), ((6,), (4, 4, 4), (5,)), 1, 2), ("dog", (5, 6, 12), ((5,), (6,), (7, 5)), 1, 3),
            ("log", (12, 6, 5), ((6, 6), (6,), (5,)), 1, 2), ("log", (12, 6, 5), ((2,) * 6, (6,), (5,)), 1, 0), ("log", (12, 3, 5), ((6, 6), (3,), (5,)), 1, 0), ("log", (16, 4, 4), ((8, 8), (4,), (4,)), 2, 0)]
    if not q:
        cfgs += [("log", (8, 8, 4), ((4, 4), (4, 4), (4,)), 1, 1), ("dog", (12, 6, 5), ((5, 7), (6,), (5,)), 1, 1), ("log", (12, 6, 5), ((3, 3, 3, 3), (6,), (5,)), 1, 1),
                 ("dog", (16, 4, 4), ((8, 8), (4,), (4,)), 2, 0), ("log", (6, 6, 6), ((3, 3), (3, 3), (3, 3)), 1, 0), ("log", (3, 12, 5), ((3,), (6, 6), (5,)), 1, 2)]
    secs.append(("template-(4,2,6)-K3", "checks.c20", "sec_template", {"shape": (4, 2, 6), "K": 3}))
    secs.append(("tm-chunks-(4,2,6)", "checks.c20", "sec_tm_chunks", {"shape": (4, 2, 6), "N": (12, 6, 8), "chunks": ((6, 6), (6,), (8,))}))
    if not q:
        secs.append(("template-(3,5,3)-K5", "checks.c20", "sec_template", {"shape": (3, 5, 3), "K": 5}))
        secs.append(("template-(2,2,2)-K1", "checks.c20", "sec_template", {"shape": (2, 2, 2), "K": 1}))
        secs.append(("tm-chunks-(3,3,5)", "checks.c20", "sec_tm_chunks", {"shape": (3, 3, 5), "N": (6, 10, 8), "chunks": ((6,), (5, 5), (4, 4))}))
        secs.append(("tm-chunks-(2,4,2)", "checks.c20", "sec_tm_chunks", {"shape": (2, 4, 2), "N": (6, 12, 4), "chunks": ((3, 3), (4, 4, 4), (4,))}))
    for i, (kind, N, chunks, P, sp) in enumerate(cfgs):
        kw = {"kind": kind, "N": N, "chunks": chunks, "n_particles": P, "spurious": sp}
        if sum(1 for c in chunks if len(c) > 1) > 1:  # several chunked axes: paths multiply -- fixed scale, detector without optional reports
            kw.update({"scale_range": (1, 1), "may": False, "spurious": 0})
        secs.append((f"chunks-{i}-{kind}", "checks.c20", "sec_chunks", kw))
    # other boundary modes of map_overlap: constant padding (0 is falsy!), reflection, one mode per axis
    bnd = [("const0", 0), ("reflect", "reflect"), ("per-axis", {0: 0, 1: "nearest", 2: "reflect"})]
    # NOT covered: a per-axis spec that mixes "none" with padding modes (e.g. ("none", "nearest", "nearest")): the block-origin model of this section
    # disagrees with dask there on the unchanged tree (harness error, not a violation), so such specs are outside the claim (seeded change C20_12 is missed)
    if not q:
        bnd += [("const0.0-tuple", (0.0, "nearest", 0.0)), ("const7", 7.0)]
    for name, b in bnd:
        secs.append((f"chunks-boundary-{name}", "checks.c20", "sec_chunks", {"kind": "log", "N": (12, 6, 5), "chunks": ((6, 6), (6,), (5,)), "n_particles": 1, "spurious": 1, "boundary": b}))
    return secs


_PB, _PCM = "acryo.pick._base", "acryo.pick._concrete"
_CH0 = {"kind": "log", "N": (12, 6, 5), "chunks": ((6, 6), (6,), (5,)), "n_particles": 1, "spurious": 1}
_THIN = {"kind": "log", "N": (12, 3, 5), "chunks": ((6, 6), (3,), (5,)), "n_particles": 1, "spurious": 0}
MUTANTS = [
    ("picks-in-the-overlap-kept (defect fixed by 'fix: particle picking on chunked images')", "checks.c20", "sec_chunks", _CH0, {_PB: [("            keep &= (local >= -0.5) & (local < (stop - start) - 0.5)\n", "")]}),
    ("depth-passed-as-list (same fix)", "checks.c20", "sec_chunks", _THIN, {_PB: [("            depth=_depth,\n            trim=False", "            depth=list(_depth),\n            trim=False")]}),
    ("unclipped-depth-subtracted (same fix)", "checks.c20", "sec_chunks", _THIN,
     {_PB: [("        depth = np.minimum(np.asarray(depth), image.shape).astype(np.asarray(depth).dtype)\n        _depth = tuple(int(d) for d in depth)",
             "        _depth = tuple(int(min(s, d)) for s, d in zip(image.shape, depth))\n        depth = np.asarray(depth)")]}),
    ("falsy-constant-boundary-taken-for-no-padding (seeded change C20_5)", "checks.c20", "sec_chunks", {**_CH0, "boundary": 0},
     {_PB: [("    return boundary is not None and boundary != \"none\"\n", "    if not boundary:\n        return False\n    return boundary != \"none\"\n")]}),
    ("owned-interval-closed-on-both-sides", "checks.c20", "sec_chunks", _CH0, {_PB: [("(local < (stop - start) - 0.5)", "(local <= (stop - start) - 0.5)")]}),
    ("owned-interval-open-on-both-sides", "checks.c20", "sec_chunks", _CH0, {_PB: [("(local >= -0.5)", "(local > -0.5)")]}),
    ("chunk-start-not-added", "checks.c20", "sec_chunks", _CH0, {_PB: [("pos[:, i] = local + (start + _depth[i])", "pos[:, i] = local + _depth[i]")]}),
    ("scale-dropped", "checks.c20", "sec_chunks", _CH0, {_PB: [("mole._pos = (mole._pos - depth) * scale", "mole._pos = mole._pos - depth")]}),
    ("tm-depth-without-the-cropped-voxel (defect fixed by 'fix: template matching finds particles centred on a chunk border')", "checks.c20", "sec_tm_chunks", {}, {_PB: [("depth = tuple((np.array(templates[0].shape) // 2 + 2).astype(np.uint16))", "depth = tuple(np.ceil(np.array(templates[0].shape) / 2).astype(np.uint16))")]}),
    ("tm-depth-without-the-cropped-voxel [depth query]", "checks.c20", "sec_template", {}, {_PB: [("depth = tuple((np.array(templates[0].shape) // 2 + 2).astype(np.uint16))", "depth = tuple(np.ceil(np.array(templates[0].shape) / 2).astype(np.uint16))")]}),
    ("tm-depth-owned-position-on-the-landscape-border (defect fixed by 'fix: template matching does not report the shoulder...')", "checks.c20", "sec_tm_chunks", {},
     {_PB: [("depth = tuple((np.array(templates[0].shape) // 2 + 2).astype(np.uint16))", "depth = tuple(np.ceil(np.array(templates[0].shape) / 2).astype(np.uint16) + 1)")]}),
    ("tm-rotation-pivot-floor (seeded change C20_2)", "checks.c20", "sec_template", {}, {_PB: [("_center = np.array(template.shape) / 2 - 0.5", "_center = np.array(template.shape) // 2")]}),
    ("tm-rotators-not-inverted", "checks.c20", "sec_template", {}, {_PB: [("rotators = [Rotation.from_quat(r).inv() for r in self._quaternions]", "rotators = [Rotation.from_quat(r) for r in self._quaternions]")]}),
    ("tm-centre-offset-s/2", "checks.c20", "sec_template", {}, {_PCM: [("offset = (np.array(templates[0].shape) + 1) / 2", "offset = np.array(templates[0].shape) / 2")]}),
    ("tm-quaternion-of-next-template", "checks.c20", "sec_template", {}, {_PB: [("self._quaternions, argmax_indices[:, np.newaxis], axis=0", "self._quaternions, (argmax_indices[:, np.newaxis] + 1) % len(self._quaternions), axis=0")]}),
    ("tm-argmax-over-wrong-axis", "checks.c20", "sec_template", {}, {_PCM: [("img_argmax = np.argmax(all_landscapes, axis=0)", "img_argmax = np.argmax(all_landscapes[::-1], axis=0)")]}),
    ("log-depth-one-sigma", "checks.c20", "sec_depth", {}, {_PCM: [("        sigma_px = self._sigma / scale\n        depth = int(np.ceil(sigma_px * 2))", "        sigma_px = self._sigma / scale\n        depth = int(np.ceil(sigma_px))")]}),
    ("dog-sigma-times-scale", "checks.c20", "sec_depth", {}, {_PCM: [("sigma2_px = self._sigma_high / scale", "sigma2_px = self._sigma_high * scale")]}),
]


def run(tier, procs=None, only=None):
    secs = select(sections(tier), only)
    return harness.run_check(
        PID, tier, secs, procs=procs,
        explanation="pick_molecules is executed on the real dask (synchronous) over an image of position codes cut into concrete chunks; particle coordinates, scale and the detector's behaviour near block borders are symbolic. "
                    "z3 decides per path that exactly one molecule per planted particle comes back, at coordinate*scale.",
        bounds={"images": "<= 16 voxels per axis, 1-6 chunks per axis incl. chunks smaller than the overlap depth and axes shorter than it", "particles": "1 (any position) or 2 (well separated)", "scale": "[0.5, 2] symbolic; sigma 1 nm"},
        trusted_base=TRUSTED + ["real dask.array.map_overlap/from_array", "idealised detector (stated in assumptions)", "real polars (PlShim object columns)"],
        outside=["whether scipy's LoG/DoG/ZNCC maxima coincide with particle centres on real image content", "min-distance suppression between close particles", "dtype handling"],
        mutants=MUTANTS if (not quick(tier) and not only) else None,
    )


# every real-library oracle of this property (each returns (reproduced, detail)); used to confirm structural facts that carry no replay of their own
ALL_REPLAYS = [lambda c: replay_chunks('log', (12, 6, 5), ((6, 6), (6,), (5,)))(c), replay_template, replay_footprint]


def replay(data):
    import ast
    import re

    label = data.get("label", "")
    kind = "dog" if "[dog" in label else "log"
    b = None
    m = re.search(r",boundary=(.*?)\]/", label)
    if m:
        try:
            b = ast.literal_eval(m.group(1))
        except Exception:
            b = None
    if "footprint" in data.get("key", ""):
        ok, detail = replay_footprint({})
        print("replay:", detail)
        print("REPRODUCED" if ok else "not reproduced")
        return 1 if ok else 0
    if "tm" in data.get("key", "") or "template" in label:
        ok, detail = replay_template({})
    else:
        ok, detail = replay_chunks(kind, (12, 6, 5), ((6, 6), (6,), (5,)), boundary=b)(data.get("cex") or {})
    print("replay:", detail)
    print("REPRODUCED" if ok else "not reproduced")
    return 1 if ok else 0
