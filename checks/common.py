"""Shared helpers for the per-property harness modules."""
from __future__ import annotations

import os
from fractions import Fraction

import z3

from symx import load, rotation, stubs
from symx.core import Sym, integer, real

TRUSTED = [
    "z3 5.1 (wheel) as the deciding solver",
    "symx engine (proxy scalars, path explorer, SymArray) -- validated per run by concrete translator tests",
    "CPython 3.12 semantics of the executed acryo source",
]


def quick(tier):
    return tier != "thorough"


def select(sections, only):
    if not only:
        return sections
    return [s for s in sections if any(s[0].startswith(o) for o in only)]


def frac(v):
    """cex value (possibly {'frac': 'a/b'} after json) -> Fraction/int"""
    if isinstance(v, dict) and "frac" in v:
        a, b = v["frac"].split("/")
        return Fraction(int(a), int(b))
    return v


def fl(v):
    v = frac(v)
    return float(v) if isinstance(v, Fraction) else v


def sym_vec(stem, n=3, kind=real):
    return [kind(f"{stem}{i}") for i in range(n)]


def sym_mat(stem):
    return [[real(f"{stem}{i}{j}") for j in range(3)] for i in range(3)]


def unit_quat(stem):
    q = [real(f"{stem}{c}") for c in "xyzw"]
    hyp = sum((c.e * c.e for c in q), z3.RealVal(0)) == 1
    return q, hyp


def zsum(terms):
    out = z3.RealVal(0)
    for t in terms:
        out = out + t
    return out
