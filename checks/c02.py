"""C02 -- subtomograms sample the tomogram on the molecule's local grid.

Real code executed symbolically: acryo._utils.make_slice_and_pad / prepare_affine /
prepare_affine_cornersafe / compose_matrices, SubtomogramLoader.construct_loading_tasks,
Backend.rotated_crop (all loaded from /repo source on every run).
"""
from __future__ import annotations

import itertools
from fractions import Fraction

import numpy as np
import z3

from symx import smt, harness, load, rotation, stubs
from symx.arrays import to_symarray, _obj
from symx.core import Sym, explore, integer, lift, real, _real, _coerce

from .common import TRUSTED, fl, frac, quick, select

PID = "C02"
MODS = ["acryo._utils", "acryo.backend._api", "acryo.molecules.core", "acryo.loader._base", "acryo.loader._loader"]


def zr(x):
    return _real(lift(_coerce(x)))


def _load(patches=None):
    stubs.patch_dask_from_delayed()
    return load.load(MODS, overrides={"Rotation": rotation.SymRotation, "da": stubs.DaStub()}, patches=patches)


def zi(x):
    return lift(_coerce(x))


# ---------------------------------------------------------------------------------------
# section A: slice / pad arithmetic and out-of-bound detection


def replay_slicepad(cex):
    """Replay on the unmodified function with concrete integers (+ API-level demo when mappable)."""
    from acryo._utils import make_slice_and_pad, SubvolumeOutOfBoundError

    z0, z1, size = int(frac(cex["z0"])), int(frac(cex["z1"])), int(frac(cex["size"]))
    overlap = z0 < size and z1 > 0
    try:
        sl, pads, oob = make_slice_and_pad(z0, z1, size)
        raised = False
    except SubvolumeOutOfBoundError:
        raised = True
        sl = pads = None
    detail = {"call": f"make_slice_and_pad({z0}, {z1}, {size})", "overlap": overlap, "raised": raised,
              "returned": None if raised else [sl.start, sl.stop, list(pads)]}
    bad = (not overlap and not raised) or (overlap and raised)
    if not raised and not bad:
        n = sl.stop - sl.start
        bad = not (0 <= sl.start <= sl.stop <= size and n + pads[0] + pads[1] == z1 - z0 and sl.start - pads[0] == z0 and n >= 1)
    # API-level demonstration: a loader whose window abuts the tomogram returns NaNs
    if bad and not overlap and not raised:
        try:
            from acryo import SubtomogramLoader, Molecules

            img = np.random.default_rng(0).normal(size=(20, 20, 20)).astype(np.float32)
            c = -4.5 if z1 <= 0 else 24.0
            out = SubtomogramLoader(img, Molecules([[c, 10, 10]]), order=1, output_shape=(5, 5, 5)).load(0)
            detail["api_demo"] = {"pos": [c, 10, 10], "all_nan": bool(np.isnan(out).all())}
        except Exception as e:  # informational only
            detail["api_demo"] = {"error": repr(e)}
    return bad, detail


def sec_slicepad(rec, patches=None):
    L = _load(patches)
    U = L["acryo._utils"]
    rec.encodes("acryo/_utils.py:make_slice_and_pad", "acryo/_utils.py:SubvolumeOutOfBoundError")
    z0, z1, size = integer("z0"), integer("z1"), integer("size")
    hyps = [z0.e < z1.e, size.e >= 1]
    paths = explore(lambda: U.make_slice_and_pad(z0, z1, size), assumptions=hyps)
    names = {"z0", "z1", "size"}
    overlap = z3.And(z0.e < size.e, z1.e > 0)
    for i, p in enumerate(paths):
        h = hyps + [p.condition()]
        if p.ok:
            sl, (p0, p1), oob = p.result
            a, b = zi(sl.start), zi(sl.stop)
            rec.query(f"slicepad/path{i}/no-overlap=>raises", h, overlap, key="C02/slicepad/abutting-window-not-rejected",
                      names=names, replay=replay_slicepad)
            rec.query(f"slicepad/path{i}/slice-in-range", h, z3.And(0 <= a, a <= b, b <= size.e), key="C02/slicepad/slice-range",
                      names=names, replay=replay_slicepad)
            rec.query(f"slicepad/path{i}/length", h, (b - a) + zi(p0) + zi(p1) == z1.e - z0.e, key="C02/slicepad/length",
                      names=names, replay=replay_slicepad)
            rec.query(f"slicepad/path{i}/pads>=0", h, z3.And(zi(p0) >= 0, zi(p1) >= 0), key="C02/slicepad/pads", names=names,
                      replay=replay_slicepad)
            rec.query(f"slicepad/path{i}/index-map", h, a - zi(p0) == z0.e, key="C02/slicepad/index-map", names=names,
                      replay=replay_slicepad)
            ob = oob.e if hasattr(oob, "e") else z3.BoolVal(bool(oob))
            rec.query(f"slicepad/path{i}/oob-flag", h, ob == z3.Or(zi(p0) != 0, zi(p1) != 0), key="C02/slicepad/oob-flag",
                      names=names, replay=replay_slicepad)
        else:
            if type(p.exc).__name__ != "SubvolumeOutOfBoundError":
                rec.error(f"slicepad/path{i}", f"unexpected exception {p.exc!r}")
                continue
            rec.query(f"slicepad/path{i}/raises=>no-overlap", h, z3.Not(overlap), key="C02/slicepad/overlapping-window-rejected",
                      names=names, replay=replay_slicepad)


# ---------------------------------------------------------------------------------------
# section B: the sampling rule through construct_loading_tasks


def _make_loader(L, xp, img, pos_rows, rot, scale, order, output_shape, corner_safe):
    LD = L["acryo.loader._loader"]
    MC = L["acryo.molecules.core"]
    mol = MC.Molecules(to_symarray(pos_rows), rot)
    ld = LD.SubtomogramLoader.__new__(LD.SubtomogramLoader)
    ld._image = img
    ld._molecules = mol
    ld._order = order
    ld._scale = scale
    ld._output_shape = tuple(output_shape)
    ld._corner_safe = corner_safe
    return ld


def _prepad(src):
    """the block that was cropped from the tomogram, before da.pad"""
    if src.fill is not None:
        return src.fill[1], src.fill[0]
    return src, None


def replay_rule(cex_builder):
    def _replay(cex):
        return cex_builder(cex)

    return _replay


def _replay_sampling(order, shape, corner_safe, quat=None):
    """Concrete replay through the public API: a linear-ramp tomogram makes every
    interpolation order exact, so the loaded voxel values reveal the sampled coordinate."""

    def run(cex):
        from acryo import SubtomogramLoader, Molecules
        from scipy.spatial.transform import Rotation

        g = lambda k, d=0.0: fl(cex.get(k, d))  # noqa: E731
        scale = g("scale", 1.0) or 1.0
        size = [int(frac(cex.get(f"n{i}", 24))) for i in range(3)]
        if max(size) > 160 or min(size) < 1:
            return None, {"error": "counterexample tomogram too large to replay", "size": size}
        pos = np.array([g(f"p{i}") for i in range(3)], dtype=np.float64)
        shp = tuple(int(frac(cex.get(f"s{i}", shape[i] if shape else 3))) for i in range(3))
        if quat is not None:
            rot = Rotation.from_quat([float(c) for c in quat])
        else:
            m = np.array([[g(f"r{i}{j}", 1.0 if i == j else 0.0) for j in range(3)] for i in range(3)])
            if not (np.allclose(m @ m.T, np.eye(3), atol=1e-9) and np.linalg.det(m) > 0):
                return None, {"error": "counterexample matrix is not a rotation; cannot be passed to the public API", "matrix": m.tolist()}
            rot = Rotation.from_matrix(m[None])
        if rot.single:
            rot = Rotation.from_quat(rot.as_quat()[None])
        zz, yy, xx = np.indices(size).astype(np.float64)
        coef = np.array([1.0, 100.0, 10000.0])
        img = (coef[0] * zz + coef[1] * yy + coef[2] * xx).astype(np.float64)
        ld = SubtomogramLoader(img, Molecules([pos], rot), order=order, scale=scale, output_shape=shp, corner_safe=corner_safe)
        try:
            out = ld.load(0)
        except Exception as e:
            return None, {"error": repr(e)}
        if cex.get("__twice__"):
            # the same loader used twice, scale 1.0 and the counterexample's scale: same sub-volume, positions untouched
            probs = {}
            for sc in (1.0, scale):
                p0 = np.array([[7.3, 8.1, 6.6]]) * sc
                l2 = SubtomogramLoader(np.asarray(img[:24, :24, :24] if min(img.shape) >= 24 else np.random.default_rng(0).normal(size=(24, 24, 24))), Molecules(p0.copy(), rot), order=order, scale=sc, output_shape=shp, corner_safe=corner_safe)
                a1 = np.asarray(l2.load(0))
                a2 = np.asarray(l2.load(0))
                if not np.allclose(l2.molecules.pos, p0) or not np.allclose(a1, a2, equal_nan=True):
                    probs[f"scale={sc}"] = {"pos_after": np.asarray(l2.molecules.pos).round(4).tolist(), "pos_before": p0.round(4).tolist(), "second_load_differs_by": float(np.nanmax(np.abs(a1 - a2)))}
            return len(probs) > 0, {"loader_used_twice": probs}
        if np.isnan(out).any():
            return True, {"nan_voxels": int(np.isnan(out).sum()), "of": int(out.size), "pos": pos.tolist(), "scale": scale,
                          "shape": shp, "tomogram": size, "order": order}
        R = rot.as_matrix()[0]
        ctr = (np.array(shp) - 1) / 2
        worst = 0.0
        for o in itertools.product(*[range(s) for s in shp]):
            coord = pos / scale + R @ (np.array(o) - ctr)
            mg = {0: 0.5, 1: 1.0, 3: 3.0}[order]
            if np.all(coord >= mg) and np.all(coord <= np.array(size) - 1 - mg):
                if order == 0:
                    if np.any(np.abs(coord - np.floor(coord) - 0.5) < 1e-3):
                        continue  # tie of nearest-neighbour rounding
                    coord = np.round(coord)
                expect = float(coef @ coord)
                worst = max(worst, abs(out[o] - expect))
        return worst > 1e-2, {"max_abs_deviation_on_ramp": worst, "pos": pos.tolist(), "scale": scale, "shape": shp}

    return run


def sec_sampling(rec, order=1, corner_safe=False, patches=None, free_axis=None, shape=None, quat=None):
    L = _load(patches)
    API = L["acryo.backend._api"]
    LD = L["acryo.loader._loader"]
    rec.encodes("acryo/_utils.py:prepare_affine", "acryo/_utils.py:prepare_affine_cornersafe", "acryo/_utils.py:compose_matrices",
                "acryo/_utils.py:make_slice_and_pad", "acryo/loader/_loader.py:SubtomogramLoader.construct_loading_tasks",
                "acryo/backend/_api.py:Backend.rotated_crop", "acryo/backend/_api.py:Backend.affine_transform",
                "acryo/molecules/core.py:Molecules.__init__", "acryo/_dask.py:DaskTaskPool (real dask.delayed, synchronous)")
    rec.assume("scipy.ndimage.affine_transform(input, M, output_shape, order, mode, cval, prefilter): out[o] = Interp_order(input, M @ (o,1)), cval outside (conformance-tested)")
    rec.assume("dask.array.pad(mode='mean') fills with the mean of the un-padded block (finite iff the block is non-empty)")
    ndi = stubs.NdiStub()
    xp = stubs.make_backend(API, LD.np, ndi)
    pos = [real(f"p{i}") for i in range(3)]
    scale = real("scale")
    size = [integer(f"n{i}") for i in range(3)]
    if shape is None:
        shp = [integer(f"s{i}") for i in range(3)]
        hyp_shape = [s.e >= 1 for s in shp]
    else:
        shp = list(shape)
        hyp_shape = []
    if quat is None:
        R = [[real(f"r{i}{j}") for j in range(3)] for i in range(3)]
        rot = rotation.SymRotation(mat=[R], single=False)
        Rz = [[R[i][j].e for j in range(3)] for i in range(3)]
    else:
        rot = rotation.SymRotation([list(quat)])
        m = rot.as_matrix()[0]
        Rz = [[_real(zi(m[i, j])) for j in range(3)] for i in range(3)]
    hyps = [scale.e > 0] + [s.e >= 1 for s in size] + hyp_shape
    c = [pos[i].e / scale.e for i in range(3)]
    if free_axis is not None:
        # the other two axes are kept well inside the tomogram (axis-wise decomposition)
        for a in range(3):
            if a != free_axis:
                hyps += [c[a] >= 40, c[a] <= _real(size[a].e) - 40, size[a].e >= 100]

    def run():
        ndi.calls.clear()
        ld = _make_loader(L, xp, stubs.ImgStub(size), [pos], rot, scale, order, shp, corner_safe)
        tasks = ld.construct_loading_tasks(backend=xp)
        if len(tasks) != 1:
            raise AssertionError("one molecule must give one task")
        out = tasks[0].compute()
        return out, _obj(ld.molecules.pos).copy()

    paths = explore(run, assumptions=hyps, max_paths=4000)
    o = [z3.Real(f"o{i}") for i in range(3)]
    names = {f"p{i}" for i in range(3)} | {"scale"} | {f"n{i}" for i in range(3)} | {f"s{i}" for i in range(3)} | {
        f"r{i}{j}" for i in range(3) for j in range(3)} | {f"o{i}" for i in range(3)}
    tag = f"sampling[order={order},cs={int(corner_safe)}" + (f",axis={free_axis}" if free_axis is not None else "") + (
        f",shape={tuple(shape)}" if shape else "") + (f",q={[str(x) for x in quat]}" if quat is not None else "") + "]"
    rp = _replay_sampling(order, shape, corner_safe, quat)
    small = [z3.And(s.e >= 12, s.e <= 40) for s in size] + [z3.And(pp.e >= -60, pp.e <= 100) for pp in pos] + [scale.e >= z3.RealVal("1/4"), scale.e <= 4]
    if shape is None:
        small += [z3.And(s.e >= 3, s.e <= 6) for s in shp]  # at least 3 voxels per axis: the ramp oracle of the replay must see interior voxels
    if quat is None:
        ident = [Rz[i2][j] == (1 if i2 == j else 0) for i2 in range(3) for j in range(3)]
        rot90 = [Rz[0][0] == 1, Rz[0][1] == 0, Rz[0][2] == 0, Rz[1][0] == 0, Rz[1][1] == 0, Rz[1][2] == -1, Rz[2][0] == 0, Rz[2][1] == 1, Rz[2][2] == 0]
        prefer = [small + ident, small + rot90, ident, rot90]
    else:
        prefer = [small]
    _q0 = rec.query
    rec_query = lambda *a, **k: _q0(*a, prefer=prefer, **k)  # noqa: E731
    n_ok = 0
    for i, p in enumerate(paths):
        h = hyps + [p.condition()]
        if not p.ok:
            if type(p.exc).__name__ != "SubvolumeOutOfBoundError":
                rec.error(f"{tag}/path{i}", f"unexpected exception {type(p.exc).__name__}: {p.exc}")
                continue
            sl, sz = p.exc.slice, p.exc.size
            rec_query(f"{tag}/path{i}/raises=>no-overlap", h, z3.Or(zi(sl.stop) <= 0, zi(sl.start) >= zi(sz)),
                      key="C02/sampling/overlapping-window-rejected", names=names, replay=rp)
            continue
        n_ok += 1
        r, pos_after = p.result
        # loading does not modify the molecules it is given (a loader is used more than once: average, then alignment, ...)
        same = pos_after.shape == (1, 3) and all(z3.eq(z3.simplify(zi(pos_after[0, a])), z3.simplify(pos[a].e)) or smt.prove(h, _real(zi(pos_after[0, a])) == pos[a].e).status == "holds" for a in range(3))
        rec.fact(f"{tag}/path{i}/molecule-positions-not-modified", bool(same), key="C02/sampling/molecules-modified", detail={"pos_after": repr(pos_after.tolist())[:200]}, reproduced=True if same else rp({"__twice__": True})[0])
        if isinstance(r, stubs.ImgStub):
            # the task is a plain crop of the tomogram: voxel o of the result is tomogram voxel o + origin, i.e. sampling with the identity matrix
            okshape = len(r.shape) == 3 and all(z3.is_true(z3.simplify(zi(x) == zi(y))) or smt.prove(h, zi(x) == zi(y)).status == "holds" for x, y in zip(r.shape, shp))
            rec.fact(f"{tag}/path{i}/crop-has-the-output-shape", bool(okshape), key="C02/sampling/crop-shape", detail={"shape": repr(r.shape)[:120]}, reproduced=True if okshape else rp({})[0])
            for a in range(3):
                tomo = o[a] + _real(zi(r.origin[a]))
                want = c[a] + sum((Rz[a][j] * (o[j] - (_real(zi(shp[j])) - 1) / 2) for j in range(3)), z3.RealVal(0))
                rec_query(f"{tag}/path{i}/rule-axis{a} (plain crop)", h, tomo == want, key="C02/sampling/rule", names=names, replay=rp)
            continue
        if not isinstance(r, stubs.Sampled) or r.kind != "affine_transform":
            rec.error(f"{tag}/path{i}", f"task did not end in affine_transform: {r!r}")
            continue
        # side obligations recorded by the stubs on this path (slices inside the array, no zero division)
        for (lab, cond, npc, ndef) in p.obligations:
            if lab in ("slice-in-range", "div0"):
                rec_query(f"{tag}/path{i}/{lab}", hyps + [p.cond_at(npc, ndef)], cond, key=f"C02/sampling/{lab}", names=names, replay=rp)
        M = r.matrix
        src = r.src
        block, padmode = _prepad(src)
        # (a) sampling rule, all three axes
        for a in range(3):
            local = zsum_row(M, a, o)
            tomo = local + _real(zi(src.origin[a]))
            want = c[a] + sum((Rz[a][j] * (o[j] - (_real(zi(shp[j])) - 1) / 2) for j in range(3)), z3.RealVal(0))
            rec_query(f"{tag}/path{i}/rule-axis{a}", h, tomo == want, key="C02/sampling/rule", names=names, replay=rp)
        # affine part of the matrix: last row (0,0,0,1)
        rec_query(f"{tag}/path{i}/homogeneous-row", h, z3.And(*[_real(zi(M[3, j])) == (1 if j == 3 else 0) for j in range(4)]),
                  key="C02/sampling/matrix-last-row", names=names, replay=rp)
        # plumbing of the interpolation call
        plumb = (tuple(r.output_shape) == tuple(shp) or all(z3.eq(z3.simplify(zi(x)), z3.simplify(zi(y))) for x, y in zip(r.output_shape, shp))) \
            and r.order == order and r.prefilter == (order > 1) and r.mode == "constant" \
            and isinstance(r.cval, stubs.MeanToken) and r.cval.img is src
        rec.fact(f"{tag}/path{i}/interp-call-args", bool(plumb), key="C02/sampling/plumbing",
                 detail={"output_shape": str(r.output_shape), "order": r.order, "prefilter": r.prefilter, "mode": r.mode, "cval": repr(r.cval)})
        if padmode is not None and padmode != "mean":
            rec.fact(f"{tag}/path{i}/pad-mode", False, key="C02/sampling/pad-mode", detail={"mode": padmode})
        # (d) a window that is accepted overlaps the tomogram: cropped block non-empty on every axis => finite fill
        rec_query(f"{tag}/path{i}/accepted=>non-empty-block", h, z3.And(*[zi(block.shape[a]) >= 1 for a in range(3)]),
                  key="C02/slicepad/abutting-window-not-rejected", names=names, replay=rp)
        # local array covers the declared window: valid data where the tomogram has data
        for a in range(3):
            lo, hi = src.valid[a]
            org = zi(src.origin[a])
            rec_query(f"{tag}/path{i}/valid-region-axis{a}", h,
                      z3.And(zi(lo) + org == z3.If(org > 0, org, 0), zi(hi) + org == z3.If(org + zi(src.shape[a]) < size[a].e, org + zi(src.shape[a]), size[a].e)),
                      key="C02/sampling/valid-region", names=names, replay=rp)
        # (b) coverage: every sample point plus the spline support lies inside the local array
        cover_h = list(h)
        if quat is None:
            if corner_safe:
                continue  # coverage under rotation is checked with concrete orientations
            cover_h += [Rz[i2][j] == (1 if i2 == j else 0) for i2 in range(3) for j in range(3)]
        # scipy's mode='constant' returns cval for every coordinate outside [0, n-1], also for order 0 (nearest neighbour does NOT extend half a voxel beyond the edge)
        need_lo, need_hi = {0: (0, 0), 1: (0, 0), 3: (1, 1)}[order]
        obox = [z3.And(o[j] >= 0, o[j] <= _real(zi(shp[j])) - 1) for j in range(3)]
        for a in range(3):
            local = zsum_row(M, a, o)
            Lz = _real(zi(src.shape[a]))
            # prefer counterexamples that miss the window by a margin a float32 position can express (an excess of 1e-9 voxel does not survive the public API)
            clear = z3.Or(local <= need_lo - Fraction(1, 8), local >= Lz - 1 - need_hi + Fraction(1, 8))
            # only samples that lie inside the tomogram matter (the others are fill values either way)
            t_a = local + _real(zi(src.origin[a]))
            in_tomo = [t_a >= 0, t_a <= _real(size[a].e) - 1]
            _q0(f"{tag}/path{i}/window-covers-axis{a}", cover_h + obox + in_tomo,
                z3.And(local >= need_lo, local <= Lz - 1 - need_hi), key="C02/sampling/window-coverage", names=names, replay=rp,
                prefer=[st + [clear] for st in prefer] + prefer)
    rec.extra[tag] = {"paths": len(paths), "accepted": n_ok}


def zsum_row(M, a, o):
    return sum((_real(zi(M[a, j])) * o[j] for j in range(3)), z3.RealVal(0)) + _real(zi(M[a, 3]))


def sec_plumbing2(rec, patches=None):
    """two molecules well inside the volume: task k uses position k and rotation k"""
    L = _load(patches)
    API = L["acryo.backend._api"]
    LD = L["acryo.loader._loader"]
    ndi = stubs.NdiStub()
    xp = stubs.make_backend(API, LD.np, ndi)
    scale = real("scale")
    size = [integer(f"n{i}") for i in range(3)]
    P = [[real(f"p{k}_{i}") for i in range(3)] for k in range(2)]
    Rs = [[[real(f"r{k}_{i}{j}") for j in range(3)] for i in range(3)] for k in range(2)]
    hyps = [scale.e > 0] + [s.e >= 200 for s in size]
    for k in range(2):
        for i in range(3):
            hyps += [P[k][i].e / scale.e >= 50, P[k][i].e / scale.e <= _real(size[i].e) - 50]
    shp = (4, 5, 6)

    def run():
        rot = rotation.SymRotation(mat=Rs, single=False)
        ld = _make_loader(L, xp, stubs.ImgStub(size), P, rot, scale, 3, shp, False)
        tasks = ld.construct_loading_tasks(backend=xp)
        return stubs.compute_together(tasks)

    paths = explore(run, assumptions=hyps)
    o = [z3.Real(f"o{i}") for i in range(3)]
    for i, p in enumerate(paths):
        if not p.ok:
            rec.error(f"plumbing2/path{i}", repr(p.exc))
            continue
        h = hyps + [p.condition()]
        rec.fact(f"plumbing2/path{i}/n-tasks", len(p.result) == 2, key="C02/plumbing/task-count", detail={"n": len(p.result)})
        for k, r in enumerate(p.result[:2]):
            if not isinstance(r, stubs.Sampled):
                rec.fact(f"plumbing2/path{i}/task{k}-is-an-interpolation-of-the-tomogram", False, key="C02/plumbing/molecule-k-task-k", detail={"got": repr(r)[:120]},
                         reproduced=_replay_sampling(3, shp, False)({})[0])
                continue
            for a in range(3):
                tomo = zsum_row(r.matrix, a, o) + _real(zi(r.src.origin[a]))
                want = P[k][a].e / scale.e + sum((Rs[k][a][j].e * (o[j] - Fraction(shp[j] - 1, 2)) for j in range(3)), z3.RealVal(0))
                rec.query(f"plumbing2/path{i}/task{k}-axis{a}", h, tomo == want, key="C02/plumbing/molecule-k-task-k")


def replay_batch_options(cex):
    with load.real_modules():
        return _replay_batch_options(cex)


def _replay_batch_options(cex):
    """installed library: a BatchLoader built with corner_safe / order / scale loads exactly what SubtomogramLoaders with the same options load"""
    from acryo import BatchLoader, SubtomogramLoader, Molecules
    from scipy.spatial.transform import Rotation

    rng = np.random.default_rng(0)
    vols = [rng.normal(size=(40, 40, 40)).astype(np.float32) for _ in range(2)]
    bad = []
    for order in (0, 1, 3):
        for cs in (False, True):
            for scale in (1.0, 0.5):
                mols = []
                bl = BatchLoader(order=order, scale=scale, output_shape=(11, 11, 11), corner_safe=cs)
                for k, v in enumerate(vols):
                    m = Molecules(np.array([[20, 20, 20], [18.3, 21.1, 19.6]]) * scale, Rotation.from_rotvec([[0.0, 0.0, 0.0], [0.3, 0.6 + 0.2 * k, -0.4]]))
                    mols.append(m)
                    bl.add_tomogram(v, m, image_id=k)
                got = np.stack([np.asarray(t.compute()) for t in bl.construct_loading_tasks()])
                want = np.concatenate([np.stack([np.asarray(t.compute()) for t in SubtomogramLoader(v, m, order=order, scale=scale, output_shape=(11, 11, 11), corner_safe=cs).construct_loading_tasks()])
                                       for v, m in zip(vols, mols)])
                same = got.shape == want.shape and np.allclose(np.nan_to_num(got, nan=-77.0), np.nan_to_num(want, nan=-77.0), atol=1e-5)
                if not same:
                    bad.append({"order": order, "corner_safe": cs, "scale": scale, "max_abs_diff": float(np.nanmax(np.abs(np.nan_to_num(got, nan=-77.0) - np.nan_to_num(want, nan=-77.0)))) if got.shape == want.shape else "shape"})
    return len(bad) > 0, {"n": len(bad), "examples": bad[:4]}


def sec_batch_options(rec, patches=None):
    """the per-tomogram loaders of a BatchLoader (iteration, indexing, derived batches) carry the batch's order, scale, output_shape and corner_safe"""
    from . import c03

    L = c03._load(patches)
    BT, MC = L["acryo.loader._batch"], L["acryo.molecules.core"]
    rec.encodes("acryo/loader/_batch.py:LoaderAccessor.__iter__", "acryo/loader/_batch.py:LoaderAccessor.__getitem__", "acryo/loader/_batch.py:BatchLoader.replace", "acryo/loader/_batch.py:BatchLoader.__init__")
    rec.assume("the sampling rule of a SubtomogramLoader with given (order, scale, output_shape, corner_safe) is decided in the sampling sections; here only the propagation of the options")
    scale = real("scale")
    hyps = [scale.e > 0]
    with L.installed():
        for order in (0, 1, 3):
            for cs in (False, True):
                tag = f"batch-options[order={order},corner_safe={cs}]"

                def run():
                    bl = BT.BatchLoader(order=order, scale=scale, output_shape=(4, 5, 6), corner_safe=cs)
                    for k in (0, 1):
                        bl.add_tomogram(stubs.ImgStub((200, 200, 200), root=f"tomo{k}"), c03._molecules(MC, [f"m{k}a", f"m{k}b"]), image_id=k)
                    derived = bl.replace(molecules=bl.molecules.subset([3, 0, 1]))
                    out = {"iter": list(bl.loaders), "getitem": [bl.loaders[0], bl.loaders[1]], "derived-iter": list(derived.loaders), "derived-batch": [derived]}
                    return out

                for pth in explore(run, assumptions=hyps, max_paths=10):
                    if not pth.ok:
                        ok, det = replay_batch_options({})
                        rec.fact(f"{tag}/runs", False, key="C02/batch-options/raises", detail={"exc": repr(pth.exc)[:300], **det}, reproduced=ok)
                        continue
                    for how, lds in pth.result.items():
                        for i, ld in enumerate(lds):
                            okc = ld.order == order and tuple(ld.output_shape) == (4, 5, 6) and bool(ld.corner_safe) == cs
                            rec.fact(f"{tag}/{how}[{i}]/order,output_shape,corner_safe", okc, key="C02/batch-options/propagation", detail={"order": ld.order, "output_shape": list(ld.output_shape), "corner_safe": bool(ld.corner_safe)},
                                     reproduced=True if okc else replay_batch_options({})[0])
                            rec.query(f"{tag}/{how}[{i}]/scale", hyps + [pth.condition()], zr(ld.scale) == scale.e, key="C02/batch-options/scale", replay=replay_batch_options, twin=False)


def sec_batch_graph(rec, patches=None):
    """the loading tasks of a batch are computed in ONE dask graph (as construct_dask().compute() does): sub-tomogram i is still cut from the tomogram of molecule i
    (executed by C03's batch section; covers task keys that collide between the per-tomogram loaders)"""
    from .c03 import sec_batch

    sec_batch(rec, ids=(0, 1, 0, 1), patches=patches)
    sec_batch(rec, ids=(1, 0), patches=patches)


def sec_conformance(rec):
    """NdiStub contract vs the real scipy.ndimage (concrete): out[o] = interp(input, M @ (o,1))."""
    from scipy import ndimage as ndi

    rng = np.random.default_rng(1234)
    img = rng.normal(size=(9, 8, 7))
    ok = True
    worst = 0.0
    for order in (0, 1, 3):
        th = 0.3
        M = np.eye(4)
        M[:3, :3] = [[np.cos(th), -np.sin(th), 0], [np.sin(th), np.cos(th), 0], [0, 0, 1]]
        M[:3, 3] = [1.2, 0.7, 0.4]
        out = ndi.affine_transform(img, M, output_shape=(4, 4, 4), order=order, mode="constant", cval=5.0, prefilter=order > 1)
        coords = np.stack(np.meshgrid(*[np.arange(4)] * 3, indexing="ij"), axis=0).reshape(3, -1)
        src = M[:3, :3] @ coords + M[:3, 3:4]
        ref = ndi.map_coordinates(img, src, order=order, mode="constant", cval=5.0, prefilter=order > 1).reshape(4, 4, 4)
        worst = max(worst, float(np.abs(out - ref).max()))
        # exact at integer coordinates for an integer translation
        T = np.eye(4)
        T[:3, 3] = [2, 1, 3]
        blk = ndi.affine_transform(img, T, output_shape=(3, 3, 3), order=order, mode="constant", prefilter=order > 1)
        worst = max(worst, float(np.abs(blk - img[2:5, 1:4, 3:6]).max()))
    ok = worst < 1e-9
    # support of the interpolation as the coverage queries assume it: with mode='constant' a coordinate outside [0, n-1] gives cval for EVERY order
    # (nearest neighbour does not reach half a voxel beyond the edge); inside [0, n-1] orders 0 and 1 never return cval
    line = np.arange(5, dtype=float) + 1
    edge_ok = True
    for order in (0, 1):
        for off in (-0.49, -0.25, 0.0, 0.25, 0.49):
            o = ndi.affine_transform(line, [1.0], offset=off, output_shape=(6,), order=order, mode="constant", cval=-9.0, prefilter=False)
            for k in range(6):
                inside = 0 <= k + off <= 4
                if (o[k] == -9.0) == inside:
                    edge_ok = False
    ok = ok and edge_ok
    rec.fact("conformance/ndimage.affine_transform", ok, key="C02/conformance/ndimage", detail={"max_abs": worst, "support_is_[0,n-1]_for_orders_0_and_1": edge_ok}, reproduced=None)
    if not ok:
        rec.error("conformance/ndimage.affine_transform", f"stub contract disagrees with scipy: {worst}")
    # dask pad(mode='mean') of an empty block is NaN, of a non-empty block finite
    import dask.array as da

    a = da.from_array(np.ones((4, 4, 4)))[0:0]
    v = np.asarray(da.pad(a, [(2, 2), (0, 0), (0, 0)], mode="mean"))
    b = np.asarray(da.pad(da.from_array(np.ones((4, 4, 4)))[0:1], [(2, 2), (0, 0), (0, 0)], mode="mean"))
    ok2 = bool(np.isnan(v).all()) and bool(np.isfinite(b).all())
    rec.fact("conformance/dask.pad-mean", ok2, key="C02/conformance/dask-pad", reproduced=None)
    if not ok2:
        rec.error("conformance/dask.pad-mean", "dask pad(mode='mean') contract changed")
    # translator validation: the symbolic run with concrete values reproduces the real loader's matrix
    from acryo._utils import prepare_affine
    from scipy.spatial.transform import Rotation
    import dask.array as dsk

    L = _load()
    U = L["acryo._utils"]
    bad = 0
    for trial in range(20):
        c = rng.uniform(-3, 25, size=3)
        shape = tuple(int(x) for x in rng.integers(1, 8, size=3))
        order = int(rng.choice([0, 1, 3]))
        q = rng.normal(size=4)
        rot = Rotation.from_quat(q)
        try:
            _, m_real = prepare_affine(dsk.from_array(np.zeros((20, 21, 22), dtype=np.float32)), c, shape, rot, order)
        except ValueError:
            m_real = None
        try:
            paths = explore(lambda: U.prepare_affine(stubs.ImgStub((20, 21, 22)), [float(x) for x in c], shape,
                                                     rotation.SymRotation(mat=rot.as_matrix()), order))
            p = paths[0]
            m_sym = None if not p.ok else np.array([[float(Fraction(z3.simplify(_real(zi(v))).as_fraction())) for v in row] for row in p.result[1]])
        except Exception as e:  # noqa
            m_sym = ("error", repr(e))
        if (m_real is None) != (m_sym is None) or (m_real is not None and not np.allclose(m_real, m_sym, atol=1e-4)):
            bad += 1
    rec.fact("translator/prepare_affine concrete-vs-symbolic (20 random inputs)", bad == 0, key="C02/translator", detail={"mismatches": bad}, reproduced=None)
    if bad:
        rec.error("translator/prepare_affine", f"{bad} mismatches between the real function and its symbolic execution")


# ---------------------------------------------------------------------------------------


def sections(tier):
    S = [("slicepad", "checks.c02", "sec_slicepad", {}), ("conformance", "checks.c02", "sec_conformance", {}),
         ("plumbing2", "checks.c02", "sec_plumbing2", {}), ("batch-options", "checks.c02", "sec_batch_options", {}), ("batch-one-graph", "checks.c02", "sec_batch_graph", {})]
    for order in (0, 1, 3):
        S.append((f"sampling-o{order}", "checks.c02", "sec_sampling", {"order": order, "corner_safe": False}))
        # unrotated molecules, concrete boxes: everything is linear, so "no interpolation needed" shortcuts with tolerances / rounding are decided quickly
        for shp in ((3, 3, 3), (2, 3, 4)):
            S.append((f"plain-identity-o{order}-{shp}", "checks.c02", "sec_sampling", {"order": order, "corner_safe": False, "shape": shp, "quat": (0, 0, 0, 1)}))
        # corner_safe: rule with free R and symbolic shape, per free axis
        shapes = [(1, 2, 2), (2, 3, 6)] if quick(tier) else [(1, 2, 2), (2, 3, 6), (3, 4, 12), (4, 4, 7), (3, 3, 3), (5, 4, 4)]
        for shp in shapes:
            for ax in range(3):
                S.append((f"cornersafe-rule-o{order}-{shp}-ax{ax}", "checks.c02", "sec_sampling",
                          {"order": order, "corner_safe": True, "free_axis": ax, "shape": shp}))
        rots = rotation.R6 if quick(tier) else rotation.R30
        cs_shapes = [(2, 3, 6)] if quick(tier) else [(1, 2, 2), (2, 3, 6), (3, 4, 12)]
        for qi, q in enumerate(rots):
            for shp in cs_shapes:
                for ax in range(3) if not quick(tier) else [qi % 3]:
                    S.append((f"cornersafe-cover-o{order}-q{qi}-{shp}-ax{ax}", "checks.c02", "sec_sampling",
                              {"order": order, "corner_safe": True, "free_axis": ax, "shape": shp, "quat": q}))
    return S


_U = "acryo._utils"
_LD = "acryo.loader._loader"
MUTANTS = [
    ("slicepad:revert-fix-z1", "checks.c02", "sec_slicepad", {}, {_U: [("    elif z1 <= 0:\n", "    elif z1 < 0:\n")]}),
    ("slicepad:revert-fix-z0", "checks.c02", "sec_slicepad", {}, {_U: [("    elif size <= z0:\n", "    elif size < z0:\n")]}),
    ("slicepad:pad-off-by-one", "checks.c02", "sec_slicepad", {}, {_U: [("z1_pad = z1 - size", "z1_pad = z1 - size + 1")]}),
    ("slicepad:oob-flag-and", "checks.c02", "sec_slicepad", {}, {_U: [("out_of_bound = z0_pad != 0 or z1_pad != 0", "out_of_bound = z0_pad != 0 and z1_pad != 0")]}),
    ("affine:no-margin-for-order-0 (defect fixed by 611acbc)", "checks.c02", "sec_sampling", {"order": 0},
     {_U: [("    margin = max(order, 1)\n    for c, s, s0 in zip(center, output_shape, img.shape):", "    margin = order\n    for c, s, s0 in zip(center, output_shape, img.shape):")]}),
    ("affine:output-center-half-pixel", "checks.c02", "sec_sampling", {"order": 1},
     {_U: [("def prepare_affine(\n    img: da.Array,\n    center: Sequence[float],\n    output_shape: Sequence[int],\n    rot: Rotation,\n    order: int = 3,\n) -> tuple[da.Array, NDArray[np.float32]]:\n    output_center = np.array(output_shape) / 2 - 0.5",
            "def prepare_affine(\n    img: da.Array,\n    center: Sequence[float],\n    output_shape: Sequence[int],\n    rot: Rotation,\n    order: int = 3,\n) -> tuple[da.Array, NDArray[np.float32]]:\n    output_center = np.array(output_shape) / 2")]}),
    ("affine:window-too-small", "checks.c02", "sec_sampling", {"order": 3}, {_U: [("        x1 = int(x0 + s + 2 * margin + 1)", "        x1 = int(x0 + s + margin + 1)")]}),
    ("affine:window-start-shifted", "checks.c02", "sec_sampling", {"order": 1}, {_U: [("        x0 = int(c - s / 2 - margin)", "        x0 = int(c - s / 2 + margin)")]}),
    ("affine:new-center-uses-int", "checks.c02", "sec_sampling", {"order": 1}, {_U: [("        new_center.append(c - x0)\n        need_pad = need_pad or _need_pad\n\n    img0 = img[tuple(slices)]\n    if need_pad:\n        input = da.pad(img0, pads, mode=\"mean\")\n    else:\n        input = img0\n    mtx = compose_matrices(new_center, [rot], output_center=output_center)[0]\n    return input, mtx\n\n\ndef prepare_affine_cornersafe",
                                                                                                "        new_center.append(int(c) - x0)\n        need_pad = need_pad or _need_pad\n\n    img0 = img[tuple(slices)]\n    if need_pad:\n        input = da.pad(img0, pads, mode=\"mean\")\n    else:\n        input = img0\n    mtx = compose_matrices(new_center, [rot], output_center=output_center)[0]\n    return input, mtx\n\n\ndef prepare_affine_cornersafe")]}),
    ("compose:translation-order", "checks.c02", "sec_sampling", {"order": 1}, {_U: [("matrices.append(translation_0 @ e_ @ translation_1)", "matrices.append(translation_1 @ e_ @ translation_0)")]}),
    ("compose:transposed-rotation", "checks.c02", "sec_sampling", {"order": 1}, {_U: [("        e_[:3, :3] = rot.as_matrix()", "        e_[:3, :3] = rot.as_matrix().T")]}),
    ("loader:pos-times-scale", "checks.c02", "sec_sampling", {"order": 1}, {_LD: [("center=self.molecules.pos[i] / scale,", "center=self.molecules.pos[i] * scale,")]}),
    ("loader:pad-mode-constant", "checks.c02", "sec_sampling", {"order": 1}, {_U: [('input = da.pad(img0, pads, mode="mean")\n    else:\n        input = img0\n    mtx = compose_matrices(new_center, [rot], output_center=output_center)[0]\n    return input, mtx\n\n\ndef prepare_affine_cornersafe', 'input = da.pad(img0, pads, mode="edge")\n    else:\n        input = img0\n    mtx = compose_matrices(new_center, [rot], output_center=output_center)[0]\n    return input, mtx\n\n\ndef prepare_affine_cornersafe')]}),
    ("cornersafe:half-len-too-small", "checks.c02", "sec_sampling", {"order": 1, "corner_safe": True, "free_axis": 0, "shape": (2, 3, 6), "quat": rotation.R30[12]},
     {_U: [("    half_len = max_len / 2\n", "    half_len = max_len / 16\n")]}),
    ("plumbing:rotator-index", "checks.c02", "sec_plumbing2", {}, {_LD: [("rot=self.molecules.rotator[i],", "rot=self.molecules.rotator[0],")]}),
]


def run(tier, procs=None, only=None):
    S = select(sections(tier), only)
    return harness.run_check(
        PID, tier, S, procs=procs,
        explanation="Bounded symbolic execution of the real crop/affine code: the tomogram size, molecule position, scale, "
                    "box shape and rotation matrix are z3 variables; each explored path of construct_loading_tasks ends in a "
                    "recorded ndimage.affine_transform call whose matrix and source offsets are compared with the sampling rule "
                    "pos/scale + R(o-(shape-1)/2) by z3 (unsat of the negation = holds for every value).",
        bounds={"tomogram size": "every integer >= 1 per axis", "position/scale": "all reals, scale > 0",
                "rotation": "non-corner-safe: arbitrary 3x3 real matrix (rule is linear in R); corner-safe coverage: "
                            + ("6" if quick(tier) else "30") + " exact rational orientations",
                "box shape": "non-corner-safe: every integer >= 1 per axis (symbolic); corner-safe: listed concrete shapes",
                "orders": [0, 1, 3], "molecules": "1 (2 for the index plumbing run)",
                "corner-safe runs": "axis-wise decomposition: one axis unconstrained, the two others >= 40 voxels inside"},
        trusted_base=TRUSTED + ["NdiStub contract of scipy.ndimage.affine_transform (conformance-tested each run)",
                                "dask.delayed/from_delayed executed for real with the synchronous scheduler"],
        outside=["accuracy of cubic interpolation near the crop edge (prefilter edge effects)", "dask chunk handling",
                 "that a rotated box without corner_safe keeps at least the inscribed ball (follows from the identity-orientation window + |Rv|_inf <= |v|_2; not separately queried)"],
        mutants=MUTANTS if (not quick(tier) and not only) else None,
    )


# every real-library oracle of this property (each returns (reproduced, detail)); used to confirm structural facts that carry no replay of their own
ALL_REPLAYS = [lambda c: _replay_sampling(1, None, False)(c), lambda c: _replay_sampling(0, (3, 3, 3), False)(c), lambda c: _replay_sampling(3, (4, 3, 5), True)(c), lambda c: _replay_sampling(1, None, False)({'__twice__': True}), replay_batch_options]


def replay(data):
    key = data.get("key", "")
    cex = data.get("cex") or {}
    if "slicepad" in key and "z0" in cex:
        ok, detail = replay_slicepad(cex)
    else:
        info = data.get("info") or {}
        ok, detail = _replay_sampling(info.get("order", 1), info.get("shape"), info.get("corner_safe", False))(cex)
    print("replay:", detail)
    print("REPRODUCED" if ok else "not reproduced")
    return 1 if ok else 0
