"""C10 (iii): state that alignment tasks share on the model, beyond the template cache.

All tasks of one alignment run call methods of the *same* model object from several threads.  This module
 1. scans the real source (ast) of the model / tilt-model classes for methods other than __init__ that assign attributes of `self`
    (on the pinned tree only TemplateMaskCache does, which has its own bytecode-level model in c10_cache);
 2. for every such method, executes its AST symbolically for two threads with different arguments: values are terms of an
    uninterpreted sort, calls are uninterpreted functions (np.array_equal / `==` are equality), each load or store of a written
    attribute is one atomic step; every interleaving of the two step sequences is explored (re-execution with a choice prefix), the
    path conditions are z3 formulas;
 3. asks z3 whether some interleaving returns a pair of results that neither sequential order (A;B or B;A) returns
    (serialisability of the results, for all interpretations of the called functions);
 4. replays a violating schedule on the real class: the watched attributes of the real model object are routed through a scheduler
    that enforces the interleaving while two threads call the public API.
"""
from __future__ import annotations

import ast
import inspect
import itertools
import textwrap
import threading

import z3

VAL = z3.DeclareSort("Val")
NONE = z3.Const("None", VAL)
TRUTHY = z3.Function("truthy", VAL, z3.BoolSort())


class Untranslatable(Exception):
    pass


# ---------------------------------------------------------------------------------------
# 1. discovery


def self_stores(fn: ast.FunctionDef):
    out = set()
    for n in ast.walk(fn):
        targets = []
        if isinstance(n, ast.Assign):
            targets = n.targets
        elif isinstance(n, (ast.AugAssign, ast.AnnAssign)) and getattr(n, "value", True) is not None:
            targets = [n.target]
        for t in targets:
            for y in ast.walk(t):
                if isinstance(y, ast.Attribute) and isinstance(y.value, ast.Name) and y.value.id == "self" and isinstance(y.ctx, ast.Store):
                    out.add(y.attr)
    return out


def discover(paths, skip_classes=("TemplateMaskCache",)):
    """[(path, class, method, FunctionDef, written attrs of the class, init values)]"""
    found = []
    for path in paths:
        tree = ast.parse(open(path).read())
        for cls in [n for n in ast.walk(tree) if isinstance(n, ast.ClassDef)]:
            if cls.name in skip_classes:
                continue
            methods = [n for n in cls.body if isinstance(n, ast.FunctionDef)]
            written = set()
            for fn in methods:
                if fn.name == "__init__" or any(isinstance(d, ast.Name) and d.id in ("classmethod", "staticmethod") for d in fn.decorator_list):
                    continue
                written |= self_stores(fn)
            if not written:
                continue
            init = {}
            for fn in methods:
                if fn.name == "__init__":
                    for n in ast.walk(fn):
                        if isinstance(n, (ast.Assign, ast.AnnAssign)):
                            tg = n.targets if isinstance(n, ast.Assign) else [n.target]
                            for t in tg:
                                if isinstance(t, ast.Attribute) and isinstance(t.value, ast.Name) and t.value.id == "self" and t.attr in written:
                                    init[t.attr] = n.value
            for fn in methods:
                if fn.name == "__init__":
                    continue
                touches = {y.attr for y in ast.walk(fn) if isinstance(y, ast.Attribute) and isinstance(y.value, ast.Name) and y.value.id == "self"} & written
                if touches and self_stores(fn):
                    found.append((path, cls.name, fn.name, fn, sorted(written), init))
    return found


# ---------------------------------------------------------------------------------------
# 2. symbolic AST execution as a coroutine: yields ("read", attr) / ("write", attr, term) / ("branch", bool) and returns the result term


def _uf(name, n):
    return z3.Function(name, *([VAL] * n), VAL)


def _name_of(node):
    try:
        return ast.unparse(node)
    except Exception:
        return type(node).__name__


class Thread:
    def __init__(self, tid, fn, shared, inputs):
        self.tid, self.fn, self.shared = tid, fn, set(shared)
        self.env = dict(inputs)
        self.facts = [v != NONE for v in inputs.values()]  # arguments are objects, not None

    def as_val(self, v):
        kind, t = v
        if kind == "val":
            return t
        return z3.If(t, z3.Const("True", VAL), z3.Const("False", VAL))

    def as_bool(self, v):
        kind, t = v
        if kind == "bool":
            return t
        return z3.And(t != NONE, TRUTHY(t))

    def expr(self, node):
        if isinstance(node, ast.Constant):
            if node.value is None:
                return ("val", NONE)
            if isinstance(node.value, bool):
                return ("bool", z3.BoolVal(node.value))
            return ("val", z3.Const(f"const_{node.value!r}", VAL))
        if isinstance(node, ast.Name):
            if node.id in self.env:
                return ("val", self.env[node.id])
            return ("val", z3.Const(f"global_{node.id}", VAL))
        if isinstance(node, ast.Attribute):
            if isinstance(node.value, ast.Name) and node.value.id == "self":
                if node.attr in self.shared:
                    v = yield ("read", node.attr)
                    return ("val", v)
                return ("val", z3.Const(f"self_{node.attr}", VAL))
            base = yield from self.expr(node.value)
            return ("val", _uf(f"attr_{node.attr}", 1)(self.as_val(base)))
        if isinstance(node, ast.Call):
            callee = _name_of(node.func)
            args = []
            if isinstance(node.func, ast.Attribute) and not (isinstance(node.func.value, ast.Name) and node.func.value.id in ("np", "numpy", "backend", "xp", "math")):
                recv = yield from self.expr(node.func.value)
                args.append(self.as_val(recv))
                callee = "method_" + node.func.attr
            for a in node.args:
                if isinstance(a, ast.Starred):
                    raise Untranslatable("starred argument")
                v = yield from self.expr(a)
                args.append(self.as_val(v))
            for kw in node.keywords:
                v = yield from self.expr(kw.value)
                args.append(self.as_val(v))
                callee += f"|{kw.arg}"
            last = callee.split(".")[-1].split("|")[0].replace("method_", "")
            if last in ("array_equal", "allclose", "array_equiv") and len(args) >= 2:
                return ("bool", args[0] == args[1])
            if last in ("array", "asarray", "asanyarray", "copy", "ascontiguousarray", "maycopy", "astype") and args:
                return ("val", args[-1] if callee.startswith(("np.", "numpy.", "backend.", "xp.")) else args[0])  # value-preserving: same value
            res = _uf("call_" + callee, len(args))(*args) if args else z3.Const("call_" + callee, VAL)
            self.facts.append(res != NONE)  # assumption: calls return an object, not None
            return ("val", res)
        if isinstance(node, ast.Compare):
            left = yield from self.expr(node.left)
            out = []
            for op, right in zip(node.ops, node.comparators):
                r = yield from self.expr(right)
                a, b = self.as_val(left), self.as_val(r)
                if isinstance(op, (ast.Eq, ast.Is)):
                    out.append(a == b)
                elif isinstance(op, (ast.NotEq, ast.IsNot)):
                    out.append(a != b)
                else:
                    out.append(TRUTHY(_uf("cmp_" + type(op).__name__, 2)(a, b)))
                left = r
            return ("bool", z3.And(*out) if len(out) > 1 else out[0])
        if isinstance(node, ast.BoolOp):
            # short circuit: later operands (and their reads) are only evaluated if needed
            acc = None
            for i, v in enumerate(node.values):
                x = yield from self.expr(v)
                bx = self.as_bool(x)
                acc = bx if acc is None else (z3.And(acc, bx) if isinstance(node.op, ast.And) else z3.Or(acc, bx))
                if i < len(node.values) - 1:
                    go_on = yield ("branch", bx if isinstance(node.op, ast.And) else z3.Not(bx))
                    if not go_on:
                        break
            return ("bool", acc)
        if isinstance(node, ast.UnaryOp) and isinstance(node.op, ast.Not):
            x = yield from self.expr(node.operand)
            return ("bool", z3.Not(self.as_bool(x)))
        if isinstance(node, (ast.BinOp, ast.UnaryOp)):
            ops = []
            for ch in ([node.left, node.right] if isinstance(node, ast.BinOp) else [node.operand]):
                v = yield from self.expr(ch)
                ops.append(self.as_val(v))
            return ("val", _uf("op_" + type(node.op).__name__, len(ops))(*ops))
        if isinstance(node, ast.Subscript):
            b = yield from self.expr(node.value)
            bt = self.as_val(b)
            # component of a tuple / list built in this method (also after a round trip through a shared attribute)
            if isinstance(node.slice, ast.Constant) and isinstance(node.slice.value, int) and z3.is_app(bt) and bt.decl().name().startswith("tuple") and 0 <= node.slice.value < bt.num_args():
                return ("val", bt.arg(node.slice.value))
            s = yield from self.expr(node.slice) if not isinstance(node.slice, ast.Slice) else ("val", z3.Const("slice", VAL))
            return ("val", _uf("getitem", 2)(bt, self.as_val(s)))
        if isinstance(node, (ast.Tuple, ast.List)):
            xs = []
            for e in node.elts:
                v = yield from self.expr(e)
                xs.append(self.as_val(v))
            tt = _uf(f"tuple{len(xs)}", len(xs))(*xs) if xs else z3.Const("empty_tuple", VAL)
            self.facts.append(tt != NONE)
            return ("val", tt)
        if isinstance(node, ast.IfExp):
            c = yield from self.expr(node.test)
            taken = yield ("branch", self.as_bool(c))
            return (yield from self.expr(node.body if taken else node.orelse))
        if isinstance(node, ast.NamedExpr) and isinstance(node.target, ast.Name):
            v = yield from self.expr(node.value)
            self.env[node.target.id] = self.as_val(v)
            return v
        raise Untranslatable(f"expression {type(node).__name__}: {_name_of(node)[:60]}")

    def block(self, stmts):
        for st in stmts:
            if isinstance(st, ast.Expr):
                if isinstance(st.value, ast.Constant):
                    continue  # docstring
                yield from self.expr(st.value)
            elif isinstance(st, (ast.Assign, ast.AnnAssign)):
                if isinstance(st, ast.AnnAssign) and st.value is None:
                    continue
                v = yield from self.expr(st.value)
                for t in (st.targets if isinstance(st, ast.Assign) else [st.target]):
                    if isinstance(t, ast.Name):
                        self.env[t.id] = self.as_val(v)
                    elif isinstance(t, ast.Attribute) and isinstance(t.value, ast.Name) and t.value.id == "self":
                        if t.attr in self.shared:
                            yield ("write", t.attr, self.as_val(v))
                        # other attributes of self are not shared state of interest
                    else:
                        raise Untranslatable(f"assignment target {_name_of(t)[:40]}")
            elif isinstance(st, ast.AugAssign):
                cur_ = yield from self.expr(ast.copy_location(ast.Attribute(value=st.target.value, attr=st.target.attr, ctx=ast.Load()), st.target) if isinstance(st.target, ast.Attribute) else ast.Name(id=st.target.id, ctx=ast.Load()) if isinstance(st.target, ast.Name) else st.target)
                v = yield from self.expr(st.value)
                nv = _uf("op_" + type(st.op).__name__, 2)(self.as_val(cur_), self.as_val(v))
                t = st.target
                if isinstance(t, ast.Name):
                    self.env[t.id] = nv
                elif isinstance(t, ast.Attribute) and isinstance(t.value, ast.Name) and t.value.id == "self":
                    if t.attr in self.shared:
                        yield ("write", t.attr, nv)
                else:
                    raise Untranslatable(f"augmented assignment target {_name_of(t)[:40]}")
            elif isinstance(st, ast.If):
                c = yield from self.expr(st.test)
                taken = yield ("branch", self.as_bool(c))
                r = yield from self.block(st.body if taken else st.orelse)
                if r is not None:
                    return r
            elif isinstance(st, ast.Return):
                if st.value is None:
                    return ("ret", NONE)
                v = yield from self.expr(st.value)
                return ("ret", self.as_val(v))
            elif isinstance(st, ast.Pass):
                continue
            elif isinstance(st, ast.Raise):
                return ("ret", z3.Const("raised", VAL))
            else:
                raise Untranslatable(f"statement {type(st).__name__}")
        return None

    def run(self):
        r = yield from self.block(self.fn.body)
        return r[1] if r is not None else NONE


# ---------------------------------------------------------------------------------------
# 3. exploration of interleavings


class Outcome:
    def __init__(self, pc, results, trace):
        self.pc, self.results, self.trace = pc, results, trace


def explore(fn, shared, init, n_threads=2, mode="all", max_outcomes=4000, warm=None):
    """mode: 'all' interleavings, or a tuple giving the sequential order of thread ids.  warm: thread id whose input is used for a
    completed warm-up call before the concurrent calls (None: fresh object)"""
    argnames = [a.arg for a in fn.args.args[1:]] + [a.arg for a in fn.args.kwonlyargs]
    outcomes = []
    solver = z3.Solver()
    solver.set("timeout", 5000)

    def inputs(t):
        return {a: z3.Const(f"{a}_{t}", VAL) for a in argnames}  # t may be 0, 1 or "w" (a third input for the warm-up call)

    def feasible(pc):
        solver.push()
        solver.add(*pc)
        r = solver.check()
        solver.pop()
        return str(r) != "unsat"

    def execute(prefix):
        """re-run from scratch following `prefix` (list of choices); returns ('done', outcome) or ('choice', kind, options)"""
        mem = {a: (NONE if (a in init and isinstance(init[a], ast.Constant) and init[a].value is None) else z3.Const(f"init_{a}", VAL)) for a in shared}
        pc, trace, k = [], [], 0
        order = []
        objs = []
        if warm is not None:
            objs.append(Thread("w", fn, shared, inputs(warm)))
            order.append(("warm", objs[-1].run()))
        tobjs = {t: Thread(t, fn, shared, inputs(t)) for t in range(n_threads)}
        objs += list(tobjs.values())
        threads = {t: o.run() for t, o in tobjs.items()}

        def facts():
            return [f for o in objs for f in o.facts]

        pending = {}
        results = {}

        def advance(key, gen, send=None, first=False):
            try:
                op = next(gen) if first else gen.send(send)
                return op
            except StopIteration as e:
                return ("done", e.value)

        # warm-up runs alone
        for key, gen in order:
            op = advance(key, gen, first=True)
            while op[0] != "done":
                if op[0] == "read":
                    op = advance(key, gen, mem[op[1]])
                elif op[0] == "write":
                    mem[op[1]] = op[2]
                    op = advance(key, gen, None)
                else:
                    if k < len(prefix):
                        ch = prefix[k]
                        k += 1
                    else:
                        return ("choice", "branch", [c for c in (True, False) if feasible(pc + facts() + [op[1] if c else z3.Not(op[1])])])
                    pc.append(op[1] if ch else z3.Not(op[1]))
                    op = advance(key, gen, ch)
        for t, gen in threads.items():
            pending[t] = advance(t, gen, first=True)
        while any(p[0] != "done" for p in pending.values()):
            live = [t for t, p in pending.items() if p[0] != "done"]
            # local branch decisions of a thread are not scheduling points: resolve them first (lowest thread id)
            br = [t for t in live if pending[t][0] == "branch"]
            if br:
                t = br[0]
                cond = pending[t][1]
                if k < len(prefix):
                    ch = prefix[k]
                    k += 1
                else:
                    return ("choice", "branch", [c for c in (True, False) if feasible(pc + facts() + [cond if c else z3.Not(cond)])])
                pc.append(cond if ch else z3.Not(cond))
                pending[t] = advance(t, threads[t], ch)
                continue
            if mode == "all":
                if len(live) > 1:
                    if k < len(prefix):
                        t = prefix[k]
                        k += 1
                    else:
                        return ("choice", "sched", live)
                else:
                    t = live[0]
            else:
                t = next(x for x in mode if x in live)
            op = pending[t]
            if op[0] == "read":
                trace.append((t, "read", op[1]))
                pending[t] = advance(t, threads[t], mem[op[1]])
            else:
                trace.append((t, "write", op[1]))
                mem[op[1]] = op[2]
                pending[t] = advance(t, threads[t], None)
        for t, p in pending.items():
            results[t] = p[1]
        return ("done", Outcome(pc + facts(), results, trace))

    stack = [[]]
    while stack:
        prefix = stack.pop()
        r = execute(prefix)
        if r[0] == "done":
            outcomes.append(r[1])
            if len(outcomes) > max_outcomes:
                raise Untranslatable("too many interleavings")
        else:
            for opt in r[2]:
                stack.append(prefix + [opt])
    return outcomes


def check_method(fn, shared, init, timeout_ms=20000):
    """returns ('serialisable', n_interleavings) | ('violation', outcome, model, warm) | ('unknown', reason)"""
    argnames = [a.arg for a in fn.args.args[1:]]
    total = 0
    for warm in (None, 0, 1, "w"):
        conc = explore(fn, shared, init, mode="all", warm=warm)
        seqs = [explore(fn, shared, init, mode=order, warm=warm) for order in ((0, 1), (1, 0))]
        total += len(conc)
        for oc in conc:
            s = z3.Solver()
            s.set("timeout", timeout_ms)
            s.add(*oc.pc)
            # the backend object is shared by the tasks; the other arguments are free (equal or different: the solver chooses)
            for a in argnames:
                if a in ("backend", "xp"):
                    s.add(z3.Const(f"{a}_0", VAL) == z3.Const(f"{a}_1", VAL), z3.Const(f"{a}_0", VAL) == z3.Const(f"{a}_w", VAL))
            for so in seqs:
                alts = [z3.And(*(o.pc + [o.results[t] == oc.results[t] for t in (0, 1)])) for o in so]
                s.add(z3.Not(z3.Or(*alts)) if alts else z3.BoolVal(True))
            r = str(s.check())
            if r == "sat":
                m = s.model()
                eq = {}
                for a in argnames:
                    c0, c1, cw = (z3.Const(f"{a}_{t}", VAL) for t in (0, 1, "w"))
                    eq[a] = {"0=1": z3.is_true(m.eval(c0 == c1, model_completion=True)), "w=0": z3.is_true(m.eval(cw == c0, model_completion=True)), "w=1": z3.is_true(m.eval(cw == c1, model_completion=True))}
                oc.equalities = eq
                return ("violation", oc, m, warm)
            if r != "unsat":
                return ("unknown", "solver: " + r)
    return ("serialisable", total)


# ---------------------------------------------------------------------------------------
# 4. replay on the real class: the watched attributes go through a scheduler


class StepScheduler:
    """lets thread t perform its next access of a watched attribute only when the schedule says so"""

    def __init__(self, order):
        self.order = list(order)  # [(thread id, 'read'|'write', attr)]
        self.pos = 0
        self.cv = threading.Condition()
        self.ids = {}
        self.active = False

    def me(self):
        return self.ids.get(threading.get_ident())

    def gate(self, kind, attr):
        t = self.me()
        if t is None or not self.active:
            return
        with self.cv:
            ok = self.cv.wait_for(lambda: self.pos >= len(self.order) or self.order[self.pos][0] == t, timeout=5.0)
            if self.pos < len(self.order) and ok:
                self.pos += 1
            self.cv.notify_all()


def watched_instance(obj, attrs, sched):
    cls = type(obj)
    watched = set(attrs)

    class Watched(cls):  # type: ignore
        def __getattribute__(self, name):
            if name in watched:
                sched.gate("read", name)
            return super().__getattribute__(name)

        def __setattr__(self, name, value):
            if name in watched:
                sched.gate("write", name)
            super().__setattr__(name, value)

    obj.__class__ = Watched
    return obj


def replay_alignment_model(class_name, attrs, trace, warm, equalities=None):
    """two threads score two sub-volumes with different orientations on ONE real model under the schedule; compare with the sequential results"""
    import numpy as np
    from scipy.spatial.transform import Rotation
    import acryo.alignment as AL
    from acryo.alignment import ZNCCAlignment

    rng = np.random.default_rng(0)
    tmpl = rng.normal(size=(9, 9, 9)).astype(np.float32)
    imgs = [rng.normal(size=(9, 9, 9)).astype(np.float32) for _ in range(2)]
    qa, qb, qc = (Rotation.from_rotvec(v).as_quat() for v in ([0.0, 0.0, 0.0], [0.9, 0.4, -0.3], [-0.5, 0.8, 0.6]))
    eqq = (equalities or {}).get("quat") or (equalities or {}).get("quaternion") or {}
    quats = {0: qa, 1: qa if eqq.get("0=1") else qb}
    quats["w"] = quats[0] if eqq.get("w=0") else quats[1] if eqq.get("w=1") else qc
    imgs = {0: imgs[0], 1: imgs[1], "w": imgs[0]}
    pos = np.zeros(3)

    def fresh():
        return ZNCCAlignment(tmpl, tilt=(-50, 50))

    def call(model, t):
        return float(model.score(imgs[t], quats[t], pos))

    def seq(order):
        m = fresh()
        if warm is not None:
            call(m, warm)
        out = {}
        for t in order:
            out[t] = call(m, t)
        return out

    want = [seq((0, 1)), seq((1, 0))]
    model = fresh()
    if warm is not None:
        call(model, warm)
    sched = StepScheduler(trace)
    watched_instance(model, attrs, sched)
    got = {}

    def worker(t):
        sched.ids[threading.get_ident()] = t
        got[t] = call(model, t)

    ths = [threading.Thread(target=worker, args=(t,)) for t in (0, 1)]
    sched.active = True
    for th in ths:
        th.start()
    for th in ths:
        th.join(30)
    sched.active = False
    bad = not any(all(abs(got.get(t, 1e9) - w[t]) < 1e-6 for t in (0, 1)) for w in want)
    return bad, {"concurrent_scores": got, "sequential_scores": want, "schedule": [list(map(str, s_)) for s_ in trace][:20], "warm_up_call": warm}


# ---------------------------------------------------------------------------------------


def run_section(rec, patches=None):
    import os

    from symx import load

    root = os.path.dirname(load.module_path("acryo.alignment._base"))
    paths = [os.path.join(root, f) for f in ("_base.py", "_concrete.py", "_bound.py") if os.path.exists(os.path.join(root, f))]
    troot = os.path.dirname(load.module_path("acryo.tilt._base"))
    paths += [os.path.join(troot, f) for f in sorted(os.listdir(troot)) if f.endswith(".py")]
    if patches:
        # in-memory mutants: write patched copies to a scratch directory
        import tempfile

        tmpd = tempfile.mkdtemp(prefix="c10race_")
        newpaths = []
        for pth in paths:
            src = open(pth).read()
            for modname, subs in patches.items():
                if load.module_path(modname) == pth:
                    for old, new in subs:
                        if old not in src:
                            raise KeyError(f"patch target not found in {modname}")
                        src = src.replace(old, new)
            q = os.path.join(tmpd, os.path.basename(os.path.dirname(pth)) + "_" + os.path.basename(pth))
            open(q, "w").write(src)
            newpaths.append(q)
        paths = newpaths
    rec.encodes("acryo/alignment/_base.py (every method that assigns attributes of self)", "acryo/alignment/_concrete.py", "acryo/tilt/*.py")
    rec.assume("called functions are pure (uninterpreted functions of their arguments); a load or store of an attribute is atomic; np.array_equal / == are equality; two tasks, each preceded or not by a completed call")
    found = discover(paths)
    rec.extra["methods-writing-shared-state"] = [f"{os.path.basename(p)}:{c}.{m} {w}" for p, c, m, _, w, _ in found]
    rec.fact("race/scan-completed", True, key="C10/race/scan", detail={"methods": rec.extra["methods-writing-shared-state"]})
    for path, cname, mname, fn, written, init in found:
        tag = f"race[{cname}.{mname}]"
        try:
            res = check_method(fn, written, init)
        except Untranslatable as e:
            rec.inconclusive(f"{tag}/serialisable", f"method writes shared attributes {written} but cannot be translated: {e}") if hasattr(rec, "inconclusive") else rec.error(tag, str(e))
            continue
        if res[0] == "serialisable":
            rec.fact(f"{tag}/every-interleaving-of-two-tasks-returns-the-results-of-a-sequential-order ({res[1]} interleavings)", True, key="C10/race/serialisable", detail={"attrs": written})
        elif res[0] == "unknown":
            rec.error(tag, res[1])
        else:
            _, oc, model, warm = res
            try:
                ok, det = replay_alignment_model(cname, written, oc.trace, warm, getattr(oc, "equalities", None))
            except Exception as e:
                ok, det = None, {"replay_error": repr(e)[:300]}
            rec.fact(f"{tag}/every-interleaving-of-two-tasks-returns-the-results-of-a-sequential-order", False, key=f"C10/race/{cname}.{mname}",
                     detail={"attrs": written, "schedule": [list(map(str, s_)) for s_ in oc.trace], "warm_up_call_with_the_input_of_task": warm, "argument_equalities": getattr(oc, "equalities", None), **(det or {})}, reproduced=ok)
