"""C17 -- Fourier shell correlation is the normalised cross-spectrum per shell.

Real code: acryo/_utils.py:fourier_shell_correlation; LoaderBase.fsc_with_halfmaps / fsc_with_average / fsc (what is correlated);
acryo/backend/_fsc.py:_get_radial_label (shell labels of the FSC score).  Images are symbolic on boxes with sides in {1,2,4}
(exact DFT); square roots stay opaque so that each returned value is N/Sqrt(R).
"""
from __future__ import annotations

import itertools
from fractions import Fraction

import numpy as np
import z3

from symx import harness, load, rotation, stubs, smt
from symx import core as C
from symx.arrays import SymArray, to_symarray, _obj
from symx.core import Sym, explore, lift, real, _real, _coerce
from symx.fftstub import FFTStub
from symx.daskstub import DaskArrayStub
from symx.plshim import PlShim

from .common import TRUSTED, fl, frac, quick, select
from .c07 import img, split_score, scale_between

PID = "C17"


def zr(x):
    return _real(lift(_coerce(x)))


def _load(patches=None):
    L = load.load(["acryo._utils"], patches=patches)
    U = L["acryo._utils"]
    fft = FFTStub("exact")
    U.fftn, U.rfftn, U.irfftn = fft.fftn, fft.rfftn, fft.irfftn
    U.sum_labels = stubs.NdiStub.sum_labels
    return L


def fftfreq_frac(n):
    return [Fraction(k if k < (n + 1) // 2 else k - n, n) for k in range(n)]


def ref_dft(a):
    """independent exact DFT of a symbolic image (sides 1,2,4): dict index -> (re, im) z3 terms"""
    shape = a.shape
    A_ = _obj(a)
    out = {}
    for k in np.ndindex(shape):
        re, im = z3.RealVal(0), z3.RealVal(0)
        for j in np.ndindex(shape):
            # exp(-2 pi i sum_k j*k/n): quarter turns because sides are in {1,2,4}
            q = sum(Fraction(jj * kk, n) for jj, kk, n in zip(j, k, shape)) % 1
            s3 = z3.Real("sqrt3")  # sides 3 and 6: multiples of 60 degrees (hypothesis sqrt3^2 = 3, sqrt3 > 0)
            h = Fraction(1, 2)
            c, s = {Fraction(0): (1, 0), Fraction(1, 4): (0, -1), Fraction(1, 2): (-1, 0), Fraction(3, 4): (0, 1),
                    Fraction(1, 6): (h, -s3 / 2), Fraction(1, 3): (-h, -s3 / 2), Fraction(2, 3): (-h, s3 / 2), Fraction(5, 6): (h, s3 / 2)}[q]
            v = zr(A_[j])
            re, im = re + c * v, im + s * v
        out[k] = (re, im)
    return out


def _sqrt_apps(t):
    out, seen, stack = [], set(), [t]
    while stack:
        u = stack.pop()
        if u.get_id() in seen:
            continue
        seen.add(u.get_id())
        if z3.is_app(u) and u.decl().name() == "Sqrt":
            out.append(u)
        stack.extend(u.children())
    return out


def _common_factor(N, Nref):
    """a positive rational c with N = c * Nref, guessed at one point (sqrt3 at its value) and proved by the query that follows; 1 if none is found"""
    from .c07 import _vars_of

    vs = _vars_of(N, Nref)
    rng = np.random.default_rng(7)
    sub = [(v, z3.Sqrt(z3.RealVal(3)) if k == "sqrt3" else z3.RealVal(Fraction(int(rng.integers(1, 40)), int(rng.integers(1, 7))))) for k, v in vs.items()]

    def val(t):
        t = z3.simplify(z3.substitute(t, *sub)) if sub else z3.simplify(t)
        if z3.is_rational_value(t):
            return Fraction(t.as_fraction())
        if z3.is_algebraic_value(t):
            return Fraction(t.approx(40).as_fraction())
        return None

    a, b = val(N), val(Nref)
    if a is None or b is None or b == 0:
        return Fraction(1)
    c = (a / b).limit_denominator(64)
    return c if c > 0 and abs(c - a / b) < Fraction(1, 10 ** 9) else Fraction(1)


def ref_shells(shape, dfreq):
    """shell index floor(|f| / dfreq) of every FFT bin, by exact rational arithmetic"""
    d = Fraction(dfreq).limit_denominator(1 << 20)
    out = {}
    for k in np.ndindex(shape):
        f2 = sum(fftfreq_frac(n)[kk] ** 2 for kk, n in zip(k, shape))
        L = 0
        while (L + 1) ** 2 * d * d <= f2:
            L += 1
        out[k] = L
    return out


def replay_fsc(cex):
    from acryo._utils import fourier_shell_correlation

    rng = np.random.default_rng(0)
    bad = {}
    for shape in [(4, 4, 4), (8, 6, 10), (5, 7, 9)]:
        a = rng.normal(size=shape)
        b = 0.6 * a + 0.8 * rng.normal(size=shape)
        for dfreq in (1.0 / min(shape), 0.25, 0.1):
            freq, out = fourier_shell_correlation(a, b, dfreq)
            fa, fb = np.fft.fftn(a), np.fft.fftn(b)
            fr = np.sqrt(sum(f ** 2 for f in np.meshgrid(*[np.fft.fftfreq(n) for n in shape], indexing="ij")))
            lab = np.floor(fr / dfreq + 1e-9).astype(int)
            for i in range(len(out)):
                sel = lab == i
                if not sel.any():
                    continue
                ref = (fa[sel] * np.conj(fb[sel])).real.sum() / np.sqrt((np.abs(fa[sel]) ** 2).sum() * (np.abs(fb[sel]) ** 2).sum())
                if abs(out[i] - ref) > 1e-4:
                    bad[f"{shape},{dfreq:.3f},shell{i}"] = [float(out[i]), float(ref)]
                if abs(freq[i] - (i + 0.5) * dfreq) > 1e-6:
                    bad[f"{shape},freq{i}"] = float(freq[i])
            _, sym = fourier_shell_correlation(b, a, dfreq)
            if not np.allclose(sym, out, atol=1e-5, equal_nan=True):
                bad[f"{shape},{dfreq:.3f},symmetry"] = True
            _, same = fourier_shell_correlation(a, a, dfreq)
            if not np.allclose(same[np.isfinite(same)], 1, atol=1e-4):
                bad[f"{shape},{dfreq:.3f},self"] = True
            # invariance under positive rescaling, also for numerically tiny / huge images
            for g0, g1 in ((1e-6, 1e-6), (1e-12, 1.0), (1e5, 3e4)):
                _, sc = fourier_shell_correlation(a * g0, b * g1, dfreq)
                if not np.allclose(sc, out, atol=1e-4, equal_nan=True):
                    bad[f"{shape},{dfreq:.3f},rescaled by {g0:g},{g1:g}"] = [float(np.nanmax(np.abs(sc - out)))]
    # the shell labels of the FSC alignment score: floor(|f| * min(shape)), also on non-cubic boxes; the score is the mean of the per-shell FSC
    from acryo.backend import Backend
    from acryo.backend._fsc import _get_radial_label

    for shape in [(8, 12, 10), (5, 4, 6), (6, 6, 6), (9, 7, 7)]:
        lab = np.asarray(_get_radial_label(shape, Backend()))
        fr = np.sqrt(sum(f ** 2 for f in np.meshgrid(*[np.fft.fftfreq(n) for n in shape], indexing="ij")))
        want = np.floor(fr * min(shape) + 1e-9).astype(int)
        if lab.shape != want.shape or (lab.astype(int) != want).any():
            bad[f"radial labels {shape}"] = int((lab.astype(int) != want).sum()) if lab.shape == want.shape else "shape"
    return len(bad) > 0, {"problems": dict(list(bad.items())[:5]), "n": len(bad)}


def replay_loader_fsc(cex):
    """installed library: loader.fsc_with_halfmaps with an explicit and the default shell width on odd / even / non-cubic boxes, n_set = 1 and 3, with and without a mask:
    column FSC-i is the FSC of the i-th pair of half maps it returns, on shells of exactly the requested width"""
    from acryo import SubtomogramLoader, Molecules

    rng = np.random.default_rng(3)
    tomo = rng.normal(size=(40, 40, 40)).astype(np.float32)
    mole = Molecules(rng.uniform(12, 27, size=(9, 3)))
    bad = {}

    def ref_fsc(a, b, dfreq):
        fa, fb = np.fft.fftn(a), np.fft.fftn(b)
        fr = np.sqrt(sum(f ** 2 for f in np.meshgrid(*[np.fft.fftfreq(n) for n in a.shape], indexing="ij")))
        lab = np.floor(fr / dfreq + 1e-9).astype(int)
        out = []
        for i in range(lab.max()):
            sel = lab == i
            out.append((fa[sel] * np.conj(fb[sel])).real.sum() / np.sqrt((np.abs(fa[sel]) ** 2).sum() * (np.abs(fb[sel]) ** 2).sum()) if sel.any() else np.nan)
        return np.array(out)

    for shape in ((9, 9, 9), (8, 8, 8), (7, 10, 8), (5, 5, 5)):
        for dfreq in (None, 0.12, 0.21, 0.25):
            for n_set in (1, 3):
                for use_mask in (False, True):
                    ld = SubtomogramLoader(tomo, mole, order=1, output_shape=shape)
                    mask = (rng.uniform(0.3, 1.0, size=shape)).astype(np.float32) if use_mask else None
                    try:
                        df, halves, mk = ld.fsc_with_halfmaps(mask=mask, seed=0, n_set=n_set, dfreq=dfreq, squeeze=False)
                    except Exception as e:
                        bad[f"{shape},dfreq={dfreq},n_set={n_set}"] = repr(e)[:120]
                        continue
                    d = (1.5 / min(shape)) if dfreq is None else dfreq
                    freq = df["freq"].to_numpy()
                    tag = f"{shape},dfreq={dfreq},n_set={n_set},mask={use_mask}"
                    if not np.allclose(freq, (np.arange(len(freq)) + 0.5) * d, atol=1e-6):
                        bad[tag + ": shell centres"] = [freq[:3].round(4).tolist(), ((np.arange(3) + 0.5) * d).round(4).tolist()]
                        continue
                    m_ = 1.0 if mk is None else np.asarray(mk)
                    for i in range(n_set):
                        want = ref_fsc(np.asarray(halves[0][i]) * m_, np.asarray(halves[1][i]) * m_, d)
                        got = df[f"FSC-{i}"].to_numpy()
                        if len(got) != len(want) or not np.allclose(got, want, atol=2e-4, equal_nan=True):
                            bad[tag + f": FSC-{i}"] = True
    return len(bad) > 0, {"problems": dict(list(bad.items())[:5]), "n": len(bad)}


def sec_shell(rec, shape=(2, 2, 2), dfreq=0.5, patches=None):
    L = _load(patches)
    U = L["acryo._utils"]
    rec.encodes("acryo/_utils.py:fourier_shell_correlation")
    rec.assume("scipy.fft.fftn is the exact DFT (box sides in {1,2,4}); ndimage.sum_labels is a plain grouping sum; sqrt kept opaque")
    a, b = img("a", shape), img("b", shape)
    g = real("gain")
    from symx.fftstub import SQRT3_FACTS

    H3 = list(SQRT3_FACTS) if any(n in (3, 6) for n in shape) else []
    tag = f"fsc[{shape},dfreq={dfreq}]"
    C.SQRT_MODE["opaque"] = True
    try:
        p = explore(lambda: (U.fourier_shell_correlation(a, b, dfreq), U.fourier_shell_correlation(b, a, dfreq), U.fourier_shell_correlation(a, a, dfreq),
                             U.fourier_shell_correlation(a * g, b, dfreq)))[0]
        if not p.ok:
            rec.fact(f"{tag}/runs", False, key="C17/fsc/raises", detail={"exc": repr(p.exc)[:300]}, reproduced=replay_fsc({})[0])
            return
        (freq, out), (_, out_ba), (_, out_aa), (_, out_ga) = p.result
        out, out_ba, out_aa, out_ga = _obj(out), _obj(out_ba), _obj(out_aa), _obj(out_ga)
        Fa, Fb = ref_dft(a), ref_dft(b)
        shells = ref_shells(shape, dfreq)
        nshell = max(shells.values())  # the code reports shells 0 .. max-1
        rec.fact(f"{tag}/number-of-shells", len(out) == nshell and len(freq) == nshell, key="C17/fsc/shell-count", detail={"got": len(out), "want": nshell})
        for i in range(min(len(out), nshell)):
            bins = [k for k, L_ in shells.items() if L_ == i]
            Nref = sum((Fa[k][0] * Fb[k][0] + Fa[k][1] * Fb[k][1] for k in bins), z3.RealVal(0))
            Pa = sum((Fa[k][0] * Fa[k][0] + Fa[k][1] * Fa[k][1] for k in bins), z3.RealVal(0))
            Pb = sum((Fb[k][0] * Fb[k][0] + Fb[k][1] * Fb[k][1] for k in bins), z3.RealVal(0))
            parts = split_score(zr(out[i]))
            if parts is None:
                rec.fact(f"{tag}/shell{i}/has-the-form-N/sqrt(R)", False, key="C17/fsc/form", detail={"term": str(zr(out[i]))[:200]}, reproduced=replay_fsc({})[0])
                continue
            N, R, guard = parts
            if guard is not None:
                # a guarded value If(guard, N/sqrt(R), 0): the guard may only remove the undefined case R = 0 (anything else depends on the image amplitude)
                ax = []
                for sq in _sqrt_apps(guard):
                    ax += [sq >= 0, sq * sq == sq.children()[0]]
                rec.query(f"{tag}/shell{i}/guard<=>radicand>0", H3 + ax, guard == (R > 0), key="C17/fsc/amplitude-dependent-guard", replay=replay_fsc, twin=False, nonlinear=True, timeout_ms=30000)
            # the value is N/sqrt(R): a common positive factor c (N = c Nref, R = c^2 Rref) does not change it
            c = _common_factor(N, Nref)
            rec.query(f"{tag}/shell{i}/numerator=c*Re-sum-F1-conj-F2 (c={c})", H3, N == z3.RealVal(c) * Nref, key="C17/fsc/formula", replay=replay_fsc, twin=False, nonlinear=True)
            rec.query(f"{tag}/shell{i}/radicand=c^2*power-product", H3, R == z3.RealVal(c * c) * Pa * Pb, key="C17/fsc/formula", replay=replay_fsc, twin=False, nonlinear=True)
            rec.fact(f"{tag}/shell{i}/freq=(i+1/2)*dfreq", abs(float(freq[i]) - (i + 0.5) * dfreq) < 1e-12, key="C17/fsc/freq", detail={"freq": float(freq[i])})
            # symmetry in the inputs
            Ns, Rs, _ = split_score(zr(out_ba[i]))
            rec.query(f"{tag}/shell{i}/symmetric", H3, z3.And(Ns == N, Rs == R), key="C17/fsc/symmetry", replay=replay_fsc, twin=False, nonlinear=True)
            # positive gain: N' = g N, R' = g^2 R
            Ng, Rg, _ = split_score(zr(out_ga[i]))
            rec.query(f"{tag}/shell{i}/gain", H3 + [g.e > 0], z3.And(Ng == g.e * N, Rg == g.e * g.e * R), key="C17/fsc/gain-invariance", replay=replay_fsc, twin=False, nonlinear=True)
            # identical inputs: N*N = R and N >= 0  (=> 1 on every shell with power)
            Na, Ra, _ = split_score(zr(out_aa[i]))
            rec.query(f"{tag}/shell{i}/self: N*N=R", H3, Na * Na == Ra, key="C17/fsc/self", replay=replay_fsc, twin=False, nonlinear=True)
            rec.query(f"{tag}/shell{i}/self: N=power>=0", H3, Na == Pa, key="C17/fsc/self", replay=replay_fsc, twin=False, nonlinear=True)
            # range: N^2 <= R is Cauchy-Schwarz over the shell's bins; brute force only when the shell has <= 2 real degrees of freedom
            if len(bins) <= 1:
                rec.query(f"{tag}/shell{i}/N*N<=R", H3, N * N <= R, key="C17/fsc/range", replay=replay_fsc, twin=False, nonlinear=True, timeout_ms=60000)
    finally:
        C.SQRT_MODE["opaque"] = False


def sec_labels(rec, patches=None):
    """shell labels used by the FSC alignment score: floor(|f| * min(shape)) with f = fftfreq"""
    L = load.load(["acryo.backend._fsc", "acryo.backend._api"], patches=patches)
    F, API = L["acryo.backend._fsc"], L["acryo.backend._api"]
    rec.encodes("acryo/backend/_fsc.py:_get_radial_label")
    xp = stubs.make_backend(API, np, None, None)
    bad = []
    for shape in itertools.product((1, 2, 3, 4, 5), repeat=3):
        lab = np.asarray(F._get_radial_label(tuple(shape), xp))
        want = ref_shells(shape, Fraction(1, min(shape)))
        for k in np.ndindex(tuple(shape)):
            if int(lab[k]) != want[k]:
                bad.append((shape, k, int(lab[k]), want[k]))
    rec.fact("labels/_get_radial_label = floor(|f|*min(shape)) on all 125 shapes in {1..5}^3", not bad, key="C17/score/shell-labels", detail={"bad": [list(map(str, b)) for b in bad[:5]], "n": len(bad)})


def sec_loader(rec, patches=None):
    """loader level: what is correlated - the two half averages (zero-normalised) times the mask, one column per split"""
    from . import c09

    L = c09._load(patches)
    LB = L["acryo.loader._base"]
    SL = c09._loader_class(L)
    rec.encodes("acryo/loader/_base.py:LoaderBase.fsc_with_halfmaps", "acryo/loader/_base.py:LoaderBase.fsc_with_average", "acryo/loader/_base.py:LoaderBase.fsc")
    API = L["acryo.backend._api"]
    xp = stubs.make_backend(API, API.np, None)
    LB.Backend = lambda *a, **k: xp
    calls = []

    class FakeUtils:
        @staticmethod
        def fourier_shell_correlation(i0, i1, dfreq=0.02):
            calls.append((i0, i1, dfreq))
            return np.array([0.5 * dfreq]), np.array([0.25])

    # the correlation kernel is replaced wherever the loaded loader modules can reach it (through the `_utils` module object or a name
    # imported from it), so the section does not depend on which module makes the call
    orig = L["acryo._utils"].fourier_shell_correlation
    L["acryo._utils"].fourier_shell_correlation = FakeUtils.fourier_shell_correlation
    for m in L.values():
        for k, v in list(vars(m).items()):
            if v is orig:
                setattr(m, k, FakeUtils.fourier_shell_correlation)
    n = 3
    vals = [real(f"v{i}") for i in range(n)]
    mval = real("mask")
    with L.installed():
        def run():
            del calls[:]
            ld = SL(c09._mk(L, n), vals)
            mask = SymArray(shape=(1, 1, 1))
            mask[0, 0, 0] = mval
            halves = ld.average_split(n_set=2, seed=3, squeeze=False)
            res = ld.fsc_with_halfmaps(mask=mask, seed=3, n_set=2, dfreq=None, zero_norm=True, squeeze=False)
            res1 = ld.fsc_with_halfmaps(mask=None, seed=3, n_set=1, dfreq=0.3, zero_norm=False)
            return halves, res, res1, list(calls)

        for pi, pth in enumerate(explore(run, max_paths=300)):
            if not pth.ok:
                rec.fact(f"loader/path{pi}/runs", False, key="C17/loader/raises", detail={"exc": repr(pth.exc)[:300]})
                continue
            halves, res, res1, cl = pth.result
            h = [pth.condition()]
            H = _obj(halves)
            mean_all = sum((zr(H[s][k][0, 0, 0]) for s in range(2) for k in range(2)), z3.RealVal(0)) / 4
            ok_n = len(cl) == 3
            rec.fact(f"loader/path{pi}/one-correlation-per-split", ok_n, key="C17/loader/call-count", detail={"calls": len(cl)})
            if not ok_n:
                continue
            for s in range(2):
                i0, i1, dfq = cl[s]
                for k, im in enumerate((i0, i1)):
                    want = (zr(H[s][k][0, 0, 0]) - mean_all) * mval.e
                    rec.query(f"loader/path{pi}/set{s}/input{k}=(half-mean)*mask", h, zr(_obj(im)[0, 0, 0]) == want, key="C17/loader/inputs", twin=False, nonlinear=True)
                rec.fact(f"loader/path{pi}/set{s}/default-dfreq=1.5/min(shape)", abs(float(dfq) - 1.5) < 1e-12, key="C17/loader/dfreq", detail={"dfreq": float(dfq)})
            i0, i1, dfq = cl[2]
            rec.fact(f"loader/path{pi}/explicit-dfreq-and-no-mask", abs(float(dfq) - 0.3) < 1e-12, key="C17/loader/dfreq", detail={})
            cols = res.fsc.columns
            rec.fact(f"loader/path{pi}/columns", cols == ["freq", "FSC-0", "FSC-1"] and res1.fsc.columns == ["freq", "FSC-0"], key="C17/loader/columns", detail={"cols": cols})
            hm0, hm1 = res.halfmaps
            same_halves = all(z3.is_true(z3.simplify(zr(_obj(hm0)[s][0, 0, 0]) == zr(H[s][0][0, 0, 0]) - mean_all)) for s in range(2))
            rec.fact(f"loader/path{pi}/returned-halfmaps-are-the-split-halves(zero-normalised)", bool(same_halves), key="C17/loader/halfmaps", detail={})


def sec_halves(rec, n=5, patches=None):
    """the two half sets that are correlated are disjoint and jointly exhaustive, for odd and even molecule counts (executed by C09's split section)"""
    from .c09 import sec_split

    sec_split(rec, n=n, n_set=1, patches=patches)


def sections(tier):
    S = [("labels", "checks.c17", "sec_labels", {}), ("loader", "checks.c17", "sec_loader", {}), ("halves-n4", "checks.c17", "sec_halves", {"n": 4}), ("halves-n5", "checks.c17", "sec_halves", {"n": 5})]
    # (box, shell width) pairs in which every reported shell is non-empty (the property's lower bound on the width exists for that reason)
    cfgs = [((1, 1, 2), 0.5), ((1, 2, 2), 0.5), ((2, 2, 2), 0.5), ((1, 1, 4), 0.25), ((1, 2, 4), 0.25), ((1, 1, 3), Fraction(1, 3)), ((1, 2, 3), Fraction(1, 3)), ((1, 3, 3), Fraction(1, 5))]
    if not quick(tier):
        cfgs += [((2, 1, 3), Fraction(1, 3)), ((1, 3, 3), Fraction(1, 3)), ((1, 3, 2), Fraction(1, 3)), ((2, 2, 4), 0.25), ((1, 4, 4), 0.25), ((1, 1, 4), 0.5), ((2, 1, 4), 0.25), ((2, 4, 4), 0.25)]
    for shp, d in cfgs:
        S.append((f"shell-{shp}-{d}", "checks.c17", "sec_shell", {"shape": shp, "dfreq": d}))
    return S


_U = "acryo._utils"
MUTANTS = [
    ("fsc:missing-imaginary-part", "checks.c17", "sec_shell", {"shape": (1, 1, 4), "dfreq": 0.25}, {_U: [("    cov = f0.real * f1.real + f0.imag * f1.imag", "    cov = f0.real * f1.real")]}),
    ("fsc:wrong-power", "checks.c17", "sec_shell", {"shape": (1, 2, 2), "dfreq": 0.5}, {_U: [("    pw1 = f1.real**2 + f1.imag**2", "    pw1 = f0.real**2 + f0.imag**2")]}),
    ("fsc:labels-rounded", "checks.c17", "sec_shell", {"shape": (1, 2, 4), "dfreq": 0.25}, {_U: [("    labels = (r / dfreq).astype(np.uint16)", "    labels = np.round(r / dfreq).astype(np.uint16)")]}),
    ("fsc:unshifted-spectrum", "checks.c17", "sec_shell", {"shape": (1, 1, 4), "dfreq": 0.25}, {_U: [("    f1 = np.fft.fftshift(fftn(img1))", "    f1 = fftn(img1)")]}),
    ("fsc:freq-offset", "checks.c17", "sec_shell", {"shape": (1, 1, 4), "dfreq": 0.25}, {_U: [("    freq = (np.arange(len(out)) + 0.5) * dfreq", "    freq = np.arange(len(out)) * dfreq")]}),
    ("loader:mask-on-one-half", "checks.c17", "sec_loader", {}, {"acryo.loader._base": [("                img0 * _mask, img1 * _mask, dfreq=dfq", "                img0 * _mask, img1, dfreq=dfq")]}),
    ("loader:same-half-twice", "checks.c17", "sec_loader", {}, {"acryo.loader._base": [("            img0, img1 = halves[i]\n", "            img0, img1 = halves[i][0], halves[i][0]\n")]}),
    ("loader:first-split-for-every-column", "checks.c17", "sec_loader", {}, {"acryo.loader._base": [("            img0, img1 = halves[i]\n", "            img0, img1 = halves[0]\n")]}),
]


def run(tier, procs=None, only=None):
    S = select(sections(tier), only)
    return harness.run_check(
        PID, tier, S, procs=procs,
        explanation="fourier_shell_correlation is executed on pairs of images with symbolic voxels over an exact DFT; each returned value has the form N/Sqrt(R) and z3 proves N = Re sum F1 conj(F2) and "
                    "R = sum|F1|^2 sum|F2|^2 over exactly the bins of shell floor(|f|/dfreq) (shells recomputed independently with rational arithmetic), symmetry, gain scaling, N*N = R and "
                    "N = power for identical inputs, freq = (i+1/2) dfreq. The loader-level FSC is run on the C09 stand-in loader: the correlated images are the two zero-normalised split halves times the mask, one column per split.",
        bounds={"boxes": "sides in {1,2,4}, <= 8 voxels quick / <= 32 thorough; all voxels and the gain symbolic", "dfreq": [0.5, 0.25, 0.125],
                "range [-1,1]": "Cauchy-Schwarz over a shell: solver-checked for single-bin shells, lemma beyond", "loader": "3 molecules, n_set 1 and 2, every split"},
        trusted_base=TRUSTED + ["FFTStub exact DFT", "NdiStub.sum_labels (grouping sum)", "C09 stubs for the loader level"],
        outside=["boxes with sides other than 1,2,4 (irrational twiddle factors)", "uint16 label overflow for dfreq below the property's minimum", "backend fsc()/fsc_landscape value (C07/C05 cover its guards; here only its shell labels)"],
        mutants=MUTANTS if (not quick(tier) and not only) else None,
    )


# every real-library oracle of this property (each returns (reproduced, detail)); used to confirm structural facts that carry no replay of their own
ALL_REPLAYS = [replay_fsc, replay_loader_fsc]


def replay(data):
    ok, detail = replay_fsc(data.get("cex") or {})
    print("replay:", detail)
    print("REPRODUCED" if ok else "not reproduced")
    return 1 if ok else 0
