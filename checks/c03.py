"""C03 -- row i of every result belongs to molecule i.

Real code: SubtomogramLoader / BatchLoader.construct_loading_tasks, LoaderAccessor.__iter__/__getitem__, BatchLoader.add_tomogram /
add_loader / replace / binning, LoaderBase.iter_mapping_tasks / construct_mapping_tasks / head / tail / sample / filter / groupby / apply,
_misc.dict_iterrows, LoaderGroup (_from_loader, __iter__, filter/head/tail/sample, align), LoaderGroupByIterator.__iter__,
DaskArrayList.concat.  Molecules carry symbolic position tags, tomograms are distinct shape-only images; the table side runs on the
real polars, the task side on the real dask.delayed (synchronous).
"""
from __future__ import annotations

import itertools
from fractions import Fraction

import numpy as np
import polars as pl
import z3

from symx import harness, load, rotation, stubs, smt
from symx.arrays import SymArray, to_symarray, _obj
from symx.core import Sym, explore, integer, lift, real, _real, _coerce
from symx.plshim import PlShim

from .common import TRUSTED, fl, frac, quick, select

PID = "C03"
MODS = ["acryo._utils", "acryo._rotation", "acryo.backend._api", "acryo.molecules._rotation", "acryo.molecules._group", "acryo.molecules._cut", "acryo.molecules.core",
        "acryo.alignment._base", "acryo.loader._misc", "acryo.loader._group", "acryo.loader._base", "acryo.loader._loader", "acryo.loader._batch"]


def zr(x):
    return _real(lift(_coerce(x)))


def _load(patches=None):
    stubs.patch_dask_from_delayed()
    L = load.load(MODS, overrides={"Rotation": rotation.SymRotation, "da": stubs.DaStub(), "pl": PlShim()}, patches=patches)
    # every `Backend()` created inside the loaders is the shim backend (recording ndimage stub)
    API = L["acryo.backend._api"]
    xp = stubs.make_backend(API, L["acryo.loader._loader"].np, stubs.NdiStub())
    for m in ("acryo.loader._loader", "acryo.loader._base", "acryo.loader._batch", "acryo.loader._group"):
        L[m].Backend = lambda *a, **k: xp
    L.xp = xp
    return L


SHAPE = (3, 3, 3)


def _pos(tag):
    return [real(f"{tag}_p{a}") for a in range(3)]


def _quat(tag):
    return [real(f"{tag}_q{c}") for c in "xyzw"]


def _hyps(tags):
    h = []
    for t in tags:
        for a in range(3):
            h += [z3.Real(f"{t}_p{a}") >= 50, z3.Real(f"{t}_p{a}") <= 150]
    return h


def _molecules(MC, tags, feats=None):
    f = {"row": list(tags)}
    if feats:
        f.update(feats)
    return MC.Molecules(to_symarray([_pos(t) for t in tags]), rotation.SymRotation([_quat(t) for t in tags]), features=f)


def _tag_of_pos(vec):
    tags = set()
    for a in range(3):
        s = str(z3.simplify(zr(vec[a])))
        tags.add(s[: -len(f"_p{a}")] if s.endswith(f"_p{a}") else None)
    return tags.pop() if len(tags) == 1 else None


def _tag_of_quat(vec):
    tags = set()
    for k, c in enumerate("xyzw"):
        s = str(z3.simplify(zr(vec[k])))
        tags.add(s[: -len(f"_q{c}")] if s.endswith(f"_q{c}") else None)
    return tags.pop() if len(tags) == 1 else None


def _task_identity(recd, hyps):
    """which molecule and which tomogram does a computed loading task (Sampled record of affine_transform) belong to?"""
    src = recd.src
    root = src.root
    M = recd.matrix
    ctr = [Fraction(s - 1, 2) for s in SHAPE]
    coord = []
    for a in range(3):
        e = sum((zr(M[a, b]) * ctr[b] for b in range(3)), z3.RealVal(0)) + zr(M[a, 3]) + zr(src.origin[a])
        coord.append(e)
    return root, coord


def _mol_of_coord(coord, tags, hyps, cond):
    """the tag t with coord == position of t (scale 1) for all three axes, decided by z3"""
    for t in tags:
        goal = z3.And(*[coord[a] == z3.Real(f"{t}_p{a}") for a in range(3)])
        if smt.prove(hyps + [cond], goal).status == "holds":
            return t
    return None


class Recorder2:
    """mapping function handed to construct_mapping_tasks: records what it receives"""

    def __init__(self):
        self.calls = []

    def __call__(self, subvol, *args, **kw):
        self.calls.append((subvol, args, kw))
        return len(self.calls) - 1


# ---------------------------------------------------------------------------------------
# replays on the installed library


def replay_batch_order(ids):
    def run(cex):
        with load.real_modules():
            from acryo import BatchLoader, Molecules

            rng = np.random.default_rng(0)
            imgs = {k: np.full((12, 12, 12), 10.0 * (k + 1), dtype=np.float32) + rng.normal(size=(12, 12, 12)).astype(np.float32) * 0.01 for k in set(ids)}
            bl = BatchLoader(order=0, scale=1.0, output_shape=(3, 3, 3))
            for k in sorted(imgs):
                n = ids.count(k)
                bl.add_tomogram(imgs[k], Molecules(np.full((n, 3), 6.0)), image_id=k)
            # reorder the molecules so that the image ids come in the requested order
            mol = bl.molecules
            cur = list(mol.features["image-id"])
            order = []
            used = set()
            for want in ids:
                j = next(i for i, v in enumerate(cur) if v == want and i not in used)
                used.add(j)
                order.append(j)
            bl2 = bl.replace(molecules=mol.subset(order))
            got_ids = list(bl2.molecules.features["image-id"])
            sub = bl2.construct_dask().compute()
            means = [float(s.mean()) for s in sub]
            img_of_task = [int(round(m / 10.0)) - 1 for m in means]
            # the re-ordered batch merged into a new one: row i still comes from the tomogram molecule i was registered with
            # (position z of a molecule = 5 + its original image id, so the pairing is observable after image ids are renumbered)
            bz = BatchLoader(order=0, scale=1.0, output_shape=(3, 3, 3))
            for k in sorted(imgs):
                n = ids.count(k)
                bz.add_tomogram(imgs[k], Molecules(np.column_stack([np.full(n, 5.0 + k), np.full(n, 6.0), np.full(n, 6.0)])), image_id=k)
            bz2 = bz.replace(molecules=bz.molecules.subset(order))
            merged_bad = {}
            for name, mk in (("add_loader", lambda: BatchLoader(order=0, scale=1.0, output_shape=(3, 3, 3)).add_loader(bz2)),
                             ("from_loaders", lambda: BatchLoader.from_loaders([bz2], order=0, scale=1.0, output_shape=(3, 3, 3)))):
                try:
                    bm = mk()
                    want = [int(round(float(z))) - 5 for z in bm.molecules.pos[:, 0]]
                    gotm = [int(round(float(s.mean()) / 10.0)) - 1 for s in bm.construct_dask().compute()]
                    if want != gotm or len(want) != len(ids):
                        merged_bad[name] = {"tomogram_registered_for_row": want, "tomogram_loaded_for_row": gotm}
                except Exception as e:
                    merged_bad[name] = repr(e)[:200]
            return img_of_task != got_ids or bool(merged_bad), {"molecule_image_ids": got_ids, "image_actually_loaded_for_task_k": img_of_task, "merged": merged_bad}

    return run


def replay_alias_batch(cex):
    """installed library: a batch derived by copy / replace(order=) / binning(1) does not share its image registry with its parent"""
    with load.real_modules():
        from acryo import BatchLoader, Molecules

        bad = {}
        for name, derive in (("copy()", lambda b: b.copy()), ("replace(order=3)", lambda b: b.replace(order=3)), ("binning(1)", lambda b: b.binning(1)), ("replace(output_shape)", lambda b: b.replace(output_shape=(2, 2, 2)))):
            par = BatchLoader(order=1, scale=1.0, output_shape=(3, 3, 3))
            par.add_tomogram(np.zeros((12, 12, 12), dtype=np.float32), Molecules(np.full((2, 3), 6.0)))
            par.add_tomogram(np.ones((12, 12, 12), dtype=np.float32), Molecules(np.full((1, 3), 6.0)))
            ch = derive(par)
            ch.add_tomogram(np.full((12, 12, 12), 5.0, dtype=np.float32), Molecules(np.full((1, 3), 6.0)), image_id=5)
            par.add_tomogram(np.full((12, 12, 12), 7.0, dtype=np.float32), Molecules(np.full((1, 3), 6.0)), image_id=5)
            p_ids, c_ids = sorted(map(str, par.images)), sorted(map(str, ch.images))
            pm = [round(float(x.mean())) for x in par.construct_dask().compute()]
            cm = [round(float(x.mean())) for x in ch.construct_dask().compute()]
            if len(par.images) != 3 or len(ch.images) != 3 or pm != [0, 0, 1, 7] or cm != [0, 0, 1, 5]:
                bad[name] = {"parent_image_ids": p_ids, "child_image_ids": c_ids, "parent_subtomogram_means": pm, "child_subtomogram_means": cm}
        return len(bad) > 0, {"problems": bad}


def replay_autoid(cex):
    with load.real_modules():
        from acryo import BatchLoader, Molecules

        bl = BatchLoader(order=0, scale=1.0, output_shape=(3, 3, 3))
        for k in range(3):
            bl.add_tomogram(np.full((10, 10, 10), float(k), dtype=np.float32), Molecules(np.full((2, 3), 5.0)))
        t = bl.tail(4)  # drops tomogram 0
        t.add_tomogram(np.full((10, 10, 10), 9.0, dtype=np.float32), Molecules(np.full((1, 3), 5.0)))
        sub = t.construct_dask().compute()
        got = [float(s.mean()) for s in sub]
        return got != [1.0, 1.0, 2.0, 2.0, 9.0], {"mean_of_each_loaded_subtomogram": got, "want": [1.0, 1.0, 2.0, 2.0, 9.0]}


def replay_group_twice(op):
    def run(cex):
        with load.real_modules():
            from acryo import SubtomogramLoader, Molecules

            rng = np.random.default_rng(0)
            tomo = rng.normal(size=(16, 16, 16)).astype(np.float32)
            mol = Molecules(np.full((4, 3), 8.0), features={"g": [0, 1, 0, 1], "v": [1, 2, 3, 4]})
            ld = SubtomogramLoader(tomo, mol, order=0, output_shape=(3, 3, 3))
            grp = ld.groupby("g")
            d = {"filter": lambda g: g.filter(pl.col("v") > 0), "head": lambda g: g.head(2), "tail": lambda g: g.tail(2), "sample": lambda g: g.sample(1, seed=0)}[op](grp)
            first = [k for k, _ in d]
            second = [k for k, _ in d]
            tmpl = rng.normal(size=(3, 3, 3)).astype(np.float32)
            try:
                aligned = [k for k, _ in d.align(tmpl, max_shifts=1)]
            except Exception as e:
                aligned = repr(e)[:80]
            return not (first == second == [0, 1] and aligned == [0, 1]), {"op": op, "first_iteration": first, "second_iteration": second, "groups_after_align": aligned}

    return run


# ---------------------------------------------------------------------------------------


def _single_loader(L, xp, tags, feats=None, image=None):
    LD, MC = L["acryo.loader._loader"], L["acryo.molecules.core"]
    img = image or stubs.ImgStub((200, 200, 200), root="tomoA")
    return LD.SubtomogramLoader(img, _molecules(MC, tags, feats), order=1, scale=1, output_shape=SHAPE)


def _collect(loader, xp):
    """(inside explore) compute every loading task and run one mapping-task round; returns raw records"""
    tasks = loader.construct_loading_tasks(backend=xp)
    recs = stubs.compute_together(tasks)
    fn = Recorder2()
    mol = loader.molecules
    mt = loader.construct_mapping_tasks(fn, "CONST", var_kwarg=dict(quaternion=mol.quaternion(), pos=mol.pos), extra=7)
    mt.compute()
    return recs, list(fn.calls)


def _check_tasks(rec, tag, collected, hyps, cond, want_tags, want_roots, key, replay=None):
    """task k must be molecule k of the loader on the tomogram registered for it; kwargs k must belong to subtomogram k"""
    recs, calls = collected
    rec.fact(f"{tag}/n-tasks", len(recs) == len(want_tags), key=f"{key}/task-count", detail={"tasks": len(recs), "molecules": len(want_tags)})
    got = []
    for r in recs:
        root, coord = _task_identity(r, hyps)
        got.append((_mol_of_coord(coord, want_tags, hyps, cond), root))
    ok = [g[0] for g in got] == list(want_tags) and [g[1] for g in got] == list(want_roots)
    okr, det = (True, {}) if ok or replay is None else replay({})
    rec.fact(f"{tag}/task-k-loads-molecule-k-from-its-tomogram", ok, key=f"{key}/task-order", detail={"got": [list(map(str, g)) for g in got], "want_molecules": list(want_tags), "want_tomograms": list(want_roots), **det},
             reproduced=okr)
    pairs = []
    for (sub, args, kw) in calls:
        root, coord = _task_identity(sub, hyps)
        pairs.append((_mol_of_coord(coord, want_tags, hyps, cond), _tag_of_pos(kw["pos"]), _tag_of_quat(kw["quaternion"]), args == ("CONST",) and kw.get("extra") == 7))
    okm = len(pairs) == len(want_tags) and all(a == b == c and d for a, b, c, d in pairs) and sorted(str(p[0]) for p in pairs) == sorted(want_tags)
    okr, det = (True, {}) if okm or replay is None else replay({})
    rec.fact(f"{tag}/mapping-kwargs-k-belong-to-subtomogram-k", okm, key=f"{key}/kwargs-pairing", detail={"pairs": [list(map(str, p)) for p in pairs], **det}, reproduced=okr)


def sec_single(rec, patches=None):
    L = _load(patches)
    API = L["acryo.backend._api"]
    LD = L["acryo.loader._loader"]
    rec.encodes("acryo/loader/_loader.py:SubtomogramLoader.construct_loading_tasks", "acryo/loader/_base.py:LoaderBase.iter_mapping_tasks", "acryo/loader/_base.py:LoaderBase.construct_mapping_tasks",
                "acryo/loader/_misc.py:dict_iterrows", "acryo/loader/_base.py:LoaderBase.head/tail/sample/filter", "acryo/loader/_loader.py:SubtomogramLoader.replace", "acryo/_dask.py:DaskTaskList")
    xp = L.xp
    tags = ["m0", "m1", "m2"]
    hyps = _hyps(tags)
    feats = {"v": [3, 1, 2]}
    with L.installed():
        derived = {
            "self": (lambda ld: ld, tags),
            "head(2)": (lambda ld: ld.head(2), tags[:2]),
            "tail(2)": (lambda ld: ld.tail(2), tags[1:]),
            "filter(v>1)": (lambda ld: ld.filter(pl.col("v") > 1), ["m0", "m2"]),
            "replace(sorted)": (lambda ld: ld.replace(molecules=ld.molecules.sort("v")), ["m1", "m2", "m0"]),
            "copy": (lambda ld: ld.copy(), tags),
            "binning(1)": (lambda ld: ld.binning(1), tags),
            "head(2).tail(1)": (lambda ld: ld.head(2).tail(1), ["m1"]),
            "tail(0)": (lambda ld: ld.tail(0), []),
            "head(0)": (lambda ld: ld.head(0), []),
            "tail(5)": (lambda ld: ld.tail(5), tags),
            "head(-1)": (lambda ld: ld.head(-1), tags[:2]),
            "tail(-1)": (lambda ld: ld.tail(-1), tags[1:]),
            "tail(3).head(0).tail(0)": (lambda ld: ld.tail(3).head(0).tail(0), []),
        }
        for name, (fn, want) in derived.items():
            def run():
                ld = _single_loader(L, xp, tags, feats)
                d = fn(ld)
                return ld, d, _collect(d, xp)

            for pth in explore(run, assumptions=hyps, max_paths=20):
                tag = f"single/{name}"
                if not pth.ok:
                    rec.fact(f"{tag}/runs", False, key="C03/single/raises", detail={"exc": repr(pth.exc)[:300]})
                    continue
                ld, d, col = pth.result
                rows = d.molecules.features["row"].to_list()
                rec.fact(f"{tag}/selected-molecules", rows == want, key="C03/single/derived-selection", detail={"got": rows, "want": want})
                rec.fact(f"{tag}/same-tomogram", d.image is ld.image, key="C03/single/derived-image", detail={})
                rec.fact(f"{tag}/source-untouched", ld.molecules.features["row"].to_list() == tags and [_tag_of_pos(ld.molecules.pos[i]) for i in range(3)] == tags,
                         key="C03/single/source-modified", detail={})
                _check_tasks(rec, tag, col, hyps, pth.condition(), want, ["tomoA"] * len(want), "C03/single")
        # sample: any subset without duplicates, fields together
        def run_s():
            ld = _single_loader(L, xp, tags, feats)
            d = ld.sample(2, seed=1)
            return d, _collect(d, xp)

        for pth in explore(run_s, assumptions=hyps):
            if pth.ok:
                d, col = pth.result
                rows = d.molecules.features["row"].to_list()
                rec.fact("single/sample(2)/subset", len(rows) == 2 and len(set(rows)) == 2 and set(rows) <= set(tags), key="C03/single/derived-selection", detail={"got": rows})
                _check_tasks(rec, "single/sample(2)", col, hyps, pth.condition(), rows, ["tomoA"] * 2, "C03/single")
            else:
                rec.fact("single/sample(2)/runs", False, key="C03/single/raises", detail={"exc": repr(pth.exc)[:200]})


def sec_batch(rec, ids=(0, 1, 0, 1), patches=None):
    """molecules of a batch in an arbitrary image-id order"""
    L = _load(patches)
    API = L["acryo.backend._api"]
    BT, MC, LD = L["acryo.loader._batch"], L["acryo.molecules.core"], L["acryo.loader._loader"]
    rec.encodes("acryo/loader/_batch.py:BatchLoader.add_tomogram", "acryo/loader/_batch.py:BatchLoader.replace", "acryo/loader/_batch.py:BatchLoader.construct_loading_tasks",
                "acryo/loader/_batch.py:LoaderAccessor.__iter__", "acryo/loader/_batch.py:LoaderAccessor.__getitem__", "acryo/_dask.py:DaskArrayList.concat")
    xp = L.xp
    ids = list(ids)
    n = len(ids)
    tags = [f"m{i}" for i in range(n)]
    hyps = _hyps(tags + ["x0"])
    roots = {k: f"tomo{k}" for k in sorted(set(ids))}
    rp = replay_batch_order(ids)
    tag = f"batch[ids={ids}]"
    with L.installed():
        def run():
            bl = BT.BatchLoader(order=1, scale=1, output_shape=SHAPE)
            # register each tomogram with its molecules (in id order), then bring the table into the requested row order
            reg = []
            for k in sorted(roots):
                mine = [t for t, i in zip(tags, ids) if i == k]
                bl.add_tomogram(stubs.ImgStub((200, 200, 200), root=roots[k]), _molecules(MC, mine), image_id=k)
                reg += mine
            order = [reg.index(t) for t in tags]
            bl2 = bl.replace(molecules=bl.molecules.subset(order))
            subs = {k: bl2.loaders[k] for k in sorted(roots)}
            it = [sub for sub in bl2.loaders]
            # merging the re-ordered batch into other batches keeps every molecule on its tomogram
            bm = BT.BatchLoader(order=1, scale=1, output_shape=SHAPE).add_loader(bl2)
            bf = BT.BatchLoader.from_loaders([_single_loader(L, xp, ["x0"], image=stubs.ImgStub((200, 200, 200), root="tomoX")), bl2], order=1, scale=1, output_shape=SHAPE)
            merged = [(bm.molecules.features["row"].to_list(), _collect(bm, xp)), (bf.molecules.features["row"].to_list(), _collect(bf, xp))]
            return bl, bl2, reg, _collect(bl2, xp), subs, it, merged

        for pth in explore(run, assumptions=hyps, max_paths=20, max_depth=3000):
            if not pth.ok:
                ok, det = rp({})
                rec.fact(f"{tag}/runs", False, key="C03/batch/raises", detail={"exc": repr(pth.exc)[:300], **det}, reproduced=ok)
                continue
            bl, bl2, reg, col, subs, it, merged = pth.result
            root_of = dict(zip(tags, [roots[i] for i in ids]), x0="tomoX")
            for name, (mrows, mcol) in zip(("add_loader(batch)", "from_loaders([single, batch])"), merged):
                rec.fact(f"{tag}/{name}/all-molecules-kept", sorted(mrows) == sorted(tags + (["x0"] if "from_loaders" in name else [])), key="C03/batch/merge-rows", detail={"rows": mrows})
                _check_tasks(rec, f"{tag}/{name}", mcol, hyps, pth.condition(), mrows, [root_of.get(t) for t in mrows], "C03/batch/merge", replay=rp)
            rows = bl2.molecules.features["row"].to_list()
            got_ids = bl2.molecules.features["image-id"].to_list()
            rec.fact(f"{tag}/table-order", rows == tags and got_ids == ids, key="C03/batch/table", detail={"rows": rows, "ids": got_ids})
            rec.fact(f"{tag}/source-untouched", bl.molecules.features["row"].to_list() == reg, key="C03/batch/source-modified", detail={})
            _check_tasks(rec, tag, col, hyps, pth.condition(), tags, [roots[i] for i in ids], "C03/batch", replay=rp)
            # loaders[k] holds exactly the molecules of image k, on image k
            for k in sorted(roots):
                sub = subs[k]
                want = [t for t, i in zip(tags, ids) if i == k]
                rec.fact(f"{tag}/loaders[{k}]", sub.molecules.features["row"].to_list() == want and sub.image.root == roots[k], key="C03/batch/accessor",
                         detail={"got": sub.molecules.features["row"].to_list(), "want": want})
            seen = []
            for sub in it:
                seen += sub.molecules.features["row"].to_list()
            rec.fact(f"{tag}/iter(loaders)-partitions", sorted(seen) == sorted(tags), key="C03/batch/accessor-partition", detail={"seen": seen})


def sec_batch_ops(rec, patches=None):
    """derived batch loaders: filter / head / replace drop unused images, keep ids attached; add_tomogram ids"""
    L = _load(patches)
    BT, MC = L["acryo.loader._batch"], L["acryo.molecules.core"]
    with L.installed():
        def run():
            bl = BT.BatchLoader(order=1, scale=1, output_shape=SHAPE)
            bl.add_tomogram(stubs.ImgStub((200,) * 3, root="tomoA"), _molecules(MC, ["a0", "a1"], {"v": [1, 2]}))
            bl.add_tomogram(stubs.ImgStub((200,) * 3, root="tomoB"), _molecules(MC, ["b0"], {"v": [3]}))
            bl.add_tomogram(stubs.ImgStub((200,) * 3, root="tomoC"), _molecules(MC, ["c0", "c1"], {"v": [4, 5]}), image_id=7)
            f = bl.filter(pl.col("v") > 2)
            h = bl.head(2)
            # history: a derived loader that lost its first tomogram gets a new tomogram without an explicit id
            bh = BT.BatchLoader(order=1, scale=1, output_shape=SHAPE)
            bh.add_tomogram(stubs.ImgStub((200,) * 3, root="tomoA"), _molecules(MC, ["a0", "a1"], {"v": [1, 2]}))
            bh.add_tomogram(stubs.ImgStub((200,) * 3, root="tomoB"), _molecules(MC, ["b0"], {"v": [3]}))
            bh.add_tomogram(stubs.ImgStub((200,) * 3, root="tomoC"), _molecules(MC, ["c0", "c1"], {"v": [4, 5]}))
            t = bh.tail(3)
            ids_before = list(t.images)
            t.add_tomogram(stubs.ImgStub((200,) * 3, root="tomoD"), _molecules(MC, ["d0"], {"v": [9]}))
            hist = (ids_before, {k: im.root for k, im in t.images.items()}, t.molecules.features["row"].to_list(), t.molecules.features["image-id"].to_list())
            # history: derive without changing the molecules (copy / replace(order=) / binning(1)), then register a tomogram on one side: the other side is not affected
            alias = {}
            for name, derive in (("copy()", lambda b: b.copy()), ("replace(order=3)", lambda b: b.replace(order=3)), ("binning(1)", lambda b: b.binning(1)), ("replace(output_shape)", lambda b: b.replace(output_shape=(2, 2, 2)))):
                par = BT.BatchLoader(order=1, scale=1, output_shape=SHAPE)
                par.add_tomogram(stubs.ImgStub((200,) * 3, root="tomoA"), _molecules(MC, ["a0", "a1"], {"v": [1, 2]}))
                par.add_tomogram(stubs.ImgStub((200,) * 3, root="tomoB"), _molecules(MC, ["b0"], {"v": [3]}))
                ch = derive(par)
                ch.add_tomogram(stubs.ImgStub((200,) * 3, root="tomoZ"), _molecules(MC, ["z0"], {"v": [9]}), image_id=5)
                par.add_tomogram(stubs.ImgStub((200,) * 3, root="tomoY"), _molecules(MC, ["y0"], {"v": [8]}), image_id=6)
                alias[name] = (sorted(im.root for im in par.images.values()), par.molecules.features["row"].to_list(), len(par.loaders),
                               sorted(im.root for im in ch.images.values()), ch.molecules.features["row"].to_list(), len(ch.loaders))
            return bl, f, h, hist, alias

        for pth in explore(run, max_paths=10):
            if not pth.ok:
                rec.fact("batch-ops/runs", False, key="C03/batch/raises", detail={"exc": repr(pth.exc)[:300]})
                continue
            bl, f, h, hist, alias = pth.result
            for name, (pr, prow, pn, cr, crow, cn) in alias.items():
                okp = pr == ["tomoA", "tomoB", "tomoY"] and prow == ["a0", "a1", "b0", "y0"] and pn == 3
                okc = cr == ["tomoA", "tomoB", "tomoZ"] and crow == ["a0", "a1", "b0", "z0"] and cn == 3
                okr, det = (True, {}) if (okp and okc) else replay_alias_batch({})
                rec.fact(f"batch-ops/history: {name} then add_tomogram on either side leaves the other side alone", okp and okc, key="C03/batch/derived-shares-images",
                         detail={"parent_images": pr, "parent_rows": prow, "child_images": cr, "child_rows": crow, **det}, reproduced=okr)
            ids_before, roots_after, rows_after, ids_after = hist
            img_of = dict(zip(rows_after, [roots_after[i] for i in ids_after]))
            ok_hist = img_of == {"b0": "tomoB", "c0": "tomoC", "c1": "tomoC", "d0": "tomoD"} and len(roots_after) == 3
            okr, det = (True, {}) if ok_hist else replay_autoid({})
            rec.fact("batch-ops/history: tail(3) then add_tomogram() keeps every molecule on its own tomogram", ok_hist, key="C03/batch/auto-id-collision",
                     detail={"image_of_molecule": img_of, "ids_before": list(map(str, ids_before)), **det}, reproduced=okr)
            rec.fact("batch-ops/auto-image-ids", bl.molecules.features["image-id"].to_list() in ([0, 0, 1, 7, 7],), key="C03/batch/image-ids",
                     detail={"ids": list(map(str, bl.molecules.features["image-id"].to_list()))})
            rec.fact("batch-ops/filter", f.molecules.features["row"].to_list() == ["b0", "c0", "c1"] and sorted(f.images) == [1, 7], key="C03/batch/derived",
                     detail={"rows": f.molecules.features["row"].to_list(), "images": list(map(str, f.images))})
            rec.fact("batch-ops/head", h.molecules.features["row"].to_list() == ["a0", "a1"] and list(map(str, h.images)) == ["0"], key="C03/batch/derived",
                     detail={"rows": h.molecules.features["row"].to_list(), "images": list(map(str, h.images))})
            rec.fact("batch-ops/source-untouched", len(bl.images) == 3 and bl.molecules.features["row"].to_list() == ["a0", "a1", "b0", "c0", "c1"], key="C03/batch/source-modified", detail={})
            rec.fact("batch-ops/image-of-each-id", f.images[7].root == "tomoC" and f.images[1].root == "tomoB", key="C03/batch/image-registry", detail={})


def sec_group(rec, patches=None):
    """groups partition the molecules; a derived group can be iterated (and aligned) more than once"""
    L = _load(patches)
    API = L["acryo.backend._api"]
    LD, G, B = L["acryo.loader._loader"], L["acryo.loader._group"], L["acryo.alignment._base"]
    rec.encodes("acryo/loader/_group.py:LoaderGroup._from_loader", "acryo/loader/_group.py:LoaderGroupByIterator.__iter__", "acryo/loader/_group.py:LoaderGroup.filter/head/tail/sample",
                "acryo/loader/_group.py:LoaderGroup.align", "acryo/loader/_base.py:LoaderBase.groupby")
    xp = L.xp
    tags = ["m0", "m1", "m2", "m3"]
    hyps = _hyps(tags)
    with L.installed():
        for gkeys in ([0, 1, 0, 1], [1, 1, 0, 1], [2, 2, 2, 2]):
            def run():
                ld = _single_loader(L, xp, tags, {"g": gkeys, "v": [4, 3, 2, 1]})
                grp = ld.groupby("g")
                g1 = [(k, l) for k, l in grp]
                return ld, g1, [(k, l) for k, l in grp], [_collect(l, xp) for _, l in g1]

            for pth in explore(run, assumptions=hyps, max_paths=10):
                tag = f"group[keys={gkeys}]"
                if not pth.ok:
                    rec.fact(f"{tag}/runs", False, key="C03/group/raises", detail={"exc": repr(pth.exc)[:300]})
                    continue
                ld, g1, g2, cols = pth.result
                allrows = []
                okk = True
                for (k, l), col in zip(g1, cols):
                    rows = l.molecules.features["row"].to_list()
                    allrows += rows
                    okk = okk and all(gkeys[tags.index(r)] == k for r in rows) and l.image is ld.image and ".index" not in l.molecules.features.columns
                    _check_tasks(rec, f"{tag}/group{k}", col, hyps, pth.condition(), rows, ["tomoA"] * len(rows), "C03/group")
                rec.fact(f"{tag}/partition", sorted(allrows) == sorted(tags), key="C03/group/not-a-partition", detail={"rows": allrows})
                rec.fact(f"{tag}/keys-and-image", okk, key="C03/group/key-mismatch", detail={})
                rec.fact(f"{tag}/iterable-twice", [k for k, _ in g1] == [k for k, _ in g2], key="C03/group/one-shot", detail={})
        # derived groups must survive being iterated twice (align iterates the group twice)
        for op in ("filter", "head", "tail", "sample"):
            rp = replay_group_twice(op)

            def run2():
                ld = _single_loader(L, xp, tags, {"g": [0, 1, 0, 1], "v": [4, 3, 2, 1]})
                grp = ld.groupby("g")
                d = {"filter": lambda g: g.filter(pl.col("v") > 0), "head": lambda g: g.head(1), "tail": lambda g: g.tail(1), "sample": lambda g: g.sample(1, seed=0)}[op](grp)
                first = [(k, l.molecules.features["row"].to_list()) for k, l in d]
                second = [(k, l.molecules.features["row"].to_list()) for k, l in d]
                return first, second

            for pth in explore(run2, assumptions=hyps, max_paths=10):
                if not pth.ok:
                    rec.fact(f"group-derived[{op}]/runs", False, key="C03/group/raises", detail={"exc": repr(pth.exc)[:300]})
                    continue
                first, second = pth.result
                ok = first == second and len(first) == 2
                okr, det = (True, {}) if ok else rp({})
                rec.fact(f"group-derived[{op}]/same-groups-on-second-iteration", ok, key="C03/group/derived-group-is-one-shot", detail={"first": first, "second": second, **det}, reproduced=okr)
                want = {"filter": {0: ["m0", "m2"], 1: ["m1", "m3"]}, "head": {0: ["m0"], 1: ["m1"]}, "tail": {0: ["m2"], 1: ["m3"]}}.get(op)
                if want is not None:
                    rec.fact(f"group-derived[{op}]/rows", dict(first) == want, key="C03/group/derived-selection", detail={"got": first})


def sec_writeback(rec, patches=None):
    """apply(): row i of the result table is the value computed from subtomogram i (3 molecules)"""
    L = _load(patches)
    API = L["acryo.backend._api"]
    LD, LB = L["acryo.loader._loader"], L["acryo.loader._base"]
    rec.encodes("acryo/loader/_base.py:LoaderBase.apply", "acryo/_dask.py:compute")
    xp = L.xp
    tags = ["m0", "m1", "m2"]
    hyps = _hyps(tags)
    with L.installed():
        seen = {}

        def f1(sub):
            root, coord = _task_identity(sub, hyps)
            seen[id(sub)] = coord
            return float(len(seen))

        f1.__name__ = "f1"

        def run():
            seen.clear()
            ld = _single_loader(L, xp, tags)
            vals = []

            def fn(sub):
                root, coord = _task_identity(sub, hyps)
                vals.append(coord)
                return float(len(vals))

            fn.__name__ = "val"
            df = ld.apply(fn)
            return df, vals

        for pth in explore(run, assumptions=hyps, max_paths=10):
            if not pth.ok:
                rec.fact("writeback/apply/runs", False, key="C03/apply/raises", detail={"exc": repr(pth.exc)[:300]})
                continue
            df, vals = pth.result
            col = df["val"].to_list()
            # value v was produced by the v-th executed task; that task's molecule must be row index of v
            owners = [_mol_of_coord(c, tags, hyps, pth.condition()) for c in vals]
            ok = len(col) == 3 and all(owners[int(v) - 1] == tags[i] for i, v in enumerate(col))
            rec.fact("writeback/apply/row-i-from-subtomogram-i", bool(ok), key="C03/apply/row-order", detail={"column": col, "task_owners": owners})


def replay_apply(cex):
    """installed library: apply() of several functions on a loader and on a group: cell (i, j) = function j of sub-tomogram i, also when #functions == #molecules or == 1"""
    with load.real_modules():
        from acryo import SubtomogramLoader, Molecules

        rng = np.random.default_rng(0)
        tomo = rng.normal(size=(30, 30, 30)).astype(np.float32)
        bad = []
        for n in (1, 2, 3, 4):
            pos = rng.uniform(8, 20, size=(n, 3))
            ld = SubtomogramLoader(tomo, Molecules(pos, features={"g": [0] * n}), order=1, output_shape=(5, 5, 5))
            sub = ld.asnumpy()
            for k in (1, 2, 3):
                fs = [np.mean, np.std, np.max][:k]
                want = np.array([[f(x) for f in fs] for x in sub])
                for name, get in (("loader.apply", lambda: ld.apply(fs)), ("group.apply", lambda: ld.groupby("g").apply(fs)[0])):
                    try:
                        got = get()
                        arr = got.to_numpy()
                        if got.columns != [f.__name__ for f in fs] or arr.shape != want.shape or not np.allclose(arr.astype(float), want, atol=1e-5):
                            bad.append({"call": name, "molecules": n, "functions": k, "shape": list(arr.shape), "columns": got.columns})
                    except Exception as e:
                        bad.append({"call": name, "molecules": n, "functions": k, "raised": repr(e)[:120]})
        return len(bad) > 0, {"n": len(bad), "examples": bad[:5]}


def sec_apply(rec, n=3, k=3, group=False, patches=None):
    """apply(f_0..f_{k-1}): cell (i, j) of the result table is f_j of the sub-tomogram of molecule i -- also when k == n (a square table) and k == 1; loaders and groups"""
    L = _load(patches)
    rec.encodes("acryo/loader/_base.py:LoaderBase.apply", "acryo/loader/_group.py:LoaderGroup.apply", "acryo/loader/_base.py:LoaderBase.construct_mapping_tasks", "acryo/_dask.py:compute")
    rec.assume("the real polars builds the result frame (its orientation inference for 2-D arrays included)")
    xp = L.xp
    tags = [f"m{i}" for i in range(n)]
    hyps = _hyps(tags)
    tag = f"apply[n={n},k={k},{'group' if group else 'loader'}]"
    with L.installed():
        def run():
            ld = _single_loader(L, xp, tags, {"g": [7] * n})
            logs = [[] for _ in range(k)]
            fns = []
            for j in range(k):
                def fn(sub, j=j):
                    root, coord = _task_identity(sub, hyps)
                    logs[j].append(coord)
                    return float(100 * (j + 1) + len(logs[j]))

                fn.__name__ = f"f{j}"
                fns.append(fn)
            arg = fns if k > 1 else fns[0]
            if group:
                out = ld.groupby("g").apply(arg if k > 1 else [arg])
                df = out[7]
            else:
                df = ld.apply(arg)
            return df, logs

        for pth in explore(run, assumptions=hyps, max_paths=10):
            if not pth.ok:
                ok, det = replay_apply({})
                rec.fact(f"{tag}/runs", False, key="C03/apply/raises", detail={"exc": repr(pth.exc)[:300], **det}, reproduced=ok)
                continue
            df, logs = pth.result
            oksh = df.columns == [f"f{j}" for j in range(k)] and df.height == n
            okr, det = (True, {}) if oksh else replay_apply({})
            rec.fact(f"{tag}/one-row-per-molecule,one-column-per-function", oksh, key="C03/apply/table-shape", detail={"columns": df.columns, "rows": df.height, **det}, reproduced=okr)
            if not oksh:
                continue
            good = True
            cells = []
            for j in range(k):
                owners = [_mol_of_coord(c, tags, hyps, pth.condition()) for c in logs[j]]
                col = df[f"f{j}"].to_list()
                for i, v in enumerate(col):
                    jj, serial = divmod(int(round(float(v))), 100)
                    ok = jj == j + 1 and 1 <= serial <= len(owners) and owners[serial - 1] == tags[i]
                    cells.append((i, j, v, ok))
                    good = good and ok
            okr, det = (True, {}) if good else replay_apply({})
            rec.fact(f"{tag}/cell(i,j)=f_j(subtomogram of molecule i)", good, key="C03/apply/row-order", detail={"bad_cells": [c[:3] for c in cells if not c[3]][:6], **det}, reproduced=okr)


def replay_readd(cex):
    """installed library: molecules added to tomogram 0 in two portions (interleaved image ids) plus a tomogram without molecules; groupby on a table that has a '.index' feature"""
    with load.real_modules():
        from acryo import BatchLoader, SubtomogramLoader, Molecules

        bad = {}
        imgs = [np.full((12, 12, 12), 10.0 * (k + 1), dtype=np.float32) for k in range(3)]
        bl = BatchLoader(order=0, scale=1.0, output_shape=(3, 3, 3))
        bl.add_tomogram(imgs[0], Molecules(np.full((2, 3), 6.0)), image_id=0)
        bl.add_tomogram(imgs[1], Molecules(np.full((2, 3), 6.0)), image_id=1)
        bl.add_tomogram(imgs[0], Molecules(np.full((2, 3), 5.0)), image_id=0)
        bl.add_tomogram(imgs[2], Molecules(np.zeros((0, 3))), image_id=2)
        ids = bl.molecules.features["image-id"].to_list()
        got = [int(round(float(x.mean()) / 10.0)) - 1 for x in bl.construct_dask().compute()]
        if got != ids:
            bad["interleaved ids + empty tomogram"] = {"image_ids": ids, "tomogram_loaded_for_row": got}
        tomo = np.random.default_rng(0).normal(size=(16, 16, 16)).astype(np.float32)
        m = Molecules(np.full((6, 3), 8.0), features={"cls": [0, 1, 0, 2, 1, 2], ".index": [7, 7, 8, 8, 9, 9]})
        ld = SubtomogramLoader(tomo, m, order=0, output_shape=(3, 3, 3))
        for by, want in (("cls", {0: 2, 1: 2, 2: 2}), (".index", {7: 2, 8: 2, 9: 2})):
            g = {k: sub for k, sub in ld.groupby(by)}
            counts = {k: len(v.molecules) for k, v in g.items()}
            cols = {k: sorted(v.molecules.features.columns) for k, v in g.items()}
            if counts != want or any(c != ["%s" % x for x in sorted([".index", "cls"])] for c in cols.values()):
                bad[f"groupby({by!r}) with a '.index' feature"] = {"counts": {str(k): v for k, v in counts.items()}, "columns": {str(k): v for k, v in cols.items()}}
        return len(bad) > 0, {"problems": bad}


def sec_readd(rec, patches=None):
    """(a) molecules registered for tomogram 0 in two portions (image ids 0,0,1,1,0,0) and a tomogram without molecules: row i is still cut from its tomogram;
    (b) groupby on molecules that carry a feature named like the loader's temporary row-index column ('.index'): groups partition by the requested key and keep every feature"""
    L = _load(patches)
    BT, MC, LD = L["acryo.loader._batch"], L["acryo.molecules.core"], L["acryo.loader._loader"]
    xp = L.xp
    rec.encodes("acryo/loader/_batch.py:BatchLoader.add_tomogram (same id twice, empty tomogram)", "acryo/loader/_batch.py:BatchLoader.construct_loading_tasks", "acryo/loader/_group.py:LoaderGroupByIterator.__iter__ ('.index' column)")
    tags = ["a0", "a1", "b0", "b1", "c0", "c1"]
    hyps = _hyps(tags)
    with L.installed():
        def run():
            bl = BT.BatchLoader(order=1, scale=1, output_shape=SHAPE)
            img0 = stubs.ImgStub((200, 200, 200), root="tomo0")
            bl.add_tomogram(img0, _molecules(MC, ["a0", "a1"]), image_id=0)
            bl.add_tomogram(stubs.ImgStub((200, 200, 200), root="tomo1"), _molecules(MC, ["b0", "b1"]), image_id=1)
            bl.add_tomogram(img0, _molecules(MC, ["c0", "c1"]), image_id=0)
            bl.add_tomogram(stubs.ImgStub((200, 200, 200), root="tomo2"), MC.Molecules.empty(["row"]), image_id=2)
            return bl, _collect(bl, xp)

        for pth in explore(run, assumptions=hyps, max_paths=20, max_depth=3000):
            if not pth.ok:
                ok, det = replay_readd({})
                rec.fact("readd/runs", False, key="C03/batch/raises", detail={"exc": repr(pth.exc)[:300], **det}, reproduced=ok)
                continue
            bl, col = pth.result
            rows = bl.molecules.features["row"].to_list()
            ids = bl.molecules.features["image-id"].to_list()
            rec.fact("readd/table", rows == tags and ids == [0, 0, 1, 1, 0, 0] and len(bl.images) == 3, key="C03/batch/table", detail={"rows": rows, "ids": ids, "images": len(bl.images)}, reproduced=None)
            _check_tasks(rec, "readd", col, hyps, pth.condition(), tags, ["tomo0", "tomo0", "tomo1", "tomo1", "tomo0", "tomo0"], "C03/batch", replay=replay_readd)

        def run2():
            ld = _single_loader(L, xp, ["m0", "m1", "m2", "m3"], {"cls": [0, 1, 0, 1], ".index": [7, 8, 8, 7]})
            out = {}
            for by in ("cls", ".index"):
                out[by] = [(k, sub.molecules.features.columns, sub.molecules.features["row"].to_list()) for k, sub in ld.groupby(by)]
            return out

        for pth in explore(run2, assumptions=_hyps(["m0", "m1", "m2", "m3"]), max_paths=10):
            if not pth.ok:
                ok, det = replay_readd({})
                rec.fact("groupby-index-column/runs", False, key="C03/group/raises", detail={"exc": repr(pth.exc)[:300], **det}, reproduced=ok)
                continue
            want = {"cls": {0: ["m0", "m2"], 1: ["m1", "m3"]}, ".index": {7: ["m0", "m3"], 8: ["m1", "m2"]}}
            for by, groups in pth.result.items():
                got = {k: r for k, _, r in groups}
                okg = got == want[by] and all(sorted(c) == sorted(["row", "cls", ".index"]) for _, c, _ in groups)
                okr, det = (True, {}) if okg else replay_readd({})
                rec.fact(f"groupby-index-column/groupby({by!r}): partition by the key, every feature kept", okg, key="C03/group/index-column-collision", detail={"groups": {str(k): r for k, r in got.items()}, "columns": [c for _, c, _ in groups][:2], **det}, reproduced=okr)


def sec_batch_binning(rec, patches=None):
    """after BatchLoader.binning(compute=True) of a batch mixing in-memory and dask tomograms, every molecule still reads the (binned) image of its own tomogram (executed by C15's section)"""
    from .c15 import sec_region_batch

    for kinds in (("numpy", "dask"), ("dask", "numpy")):
        sec_region_batch(rec, b=2, compute=True, kinds=kinds, patches=patches)


def _apply_sections():
    out = []
    for group in (False, True):
        for (n, k) in ((3, 1), (2, 2), (3, 3), (3, 2), (1, 1), (2, 3)):
            out.append((f"apply-{'group' if group else 'loader'}-{n}x{k}", "checks.c03", "sec_apply", {"n": n, "k": k, "group": group}))
    return out


def sections(tier):
    S = [("batch-binning-mixed", "checks.c03", "sec_batch_binning", {}), ("single", "checks.c03", "sec_single", {}), ("batch-ops", "checks.c03", "sec_batch_ops", {}), ("group", "checks.c03", "sec_group", {}), ("writeback", "checks.c03", "sec_writeback", {}), ("readd-and-index-column", "checks.c03", "sec_readd", {})]
    seqs = [(0, 1, 0, 1), (1, 0), (0, 0, 1), (1, 0, 0), (0, 1, 1, 0), (1, 2, 0, 1), (2, 0, 1)] if quick(tier) else [s for n in (2, 3, 4) for s in itertools.product((0, 1), repeat=n) if len(set(s)) == 2] + [(0, 1, 2, 0), (2, 0, 1, 0), (1, 2, 0, 1), (2, 0, 1), (1, 2, 0), (2, 1, 0), (3, 1, 0, 2), (1, 3, 0, 2, 1)]
    for s in seqs:
        S.append((f"batch-{''.join(map(str, s))}", "checks.c03", "sec_batch", {"ids": s}))
    return S + _apply_sections()


_BT = "acryo.loader._batch"
_LB = "acryo.loader._base"
_LG = "acryo.loader._group"
_MI = "acryo.loader._misc"
MUTANTS = [
    ("batch:revert-task-order-fix", "checks.c03", "sec_batch", {"ids": (0, 1, 0, 1)}, {_BT: [("            for row, task in zip(rows, each):\n                tasks[row] = task\n        return DaskArrayList(tasks)", "            for row, task in zip(rows, each):\n                tasks[row] = task\n        return DaskArrayList([t for ld in self.loaders for t in ld.construct_loading_tasks(output_shape=output_shape, backend=_backend)])")]}),
    ("batch:rows-of-wrong-key", "checks.c03", "sec_batch", {"ids": (0, 0, 1)}, {_BT: [("            rows = np.flatnonzero(image_ids == key)", "            rows = np.flatnonzero(image_ids != key)[::-1] if len(set(image_ids)) > 1 and False else np.flatnonzero(image_ids == key)[::-1]")]}),
    ("batch:accessor-wrong-image", "checks.c03", "sec_batch", {"ids": (1, 0)}, {_BT: [("        for key, group in ldr.molecules.groupby(IMAGE_ID_LABEL):\n            image = ldr._images[key]", "        for key, group in ldr.molecules.groupby(IMAGE_ID_LABEL):\n            image = list(ldr._images.values())[0]")]}),
    ("batch:replace-keeps-unused-images", "checks.c03", "sec_batch_ops", {}, {_BT: [("                if k not in _id_exists:\n                    out._images.pop(k)", "                if k not in _id_exists:\n                    pass")]}),
    ("batch:replace-shares-image-dict", "checks.c03", "sec_batch_ops", {}, {_BT: [("        out._images = self._images.copy()\n        if molecules is None:", "        out._images = self._images\n        if molecules is None:")]}),
    ("map:kwargs-reversed", "checks.c03", "sec_single", {}, {_MI: [("    value_iters = [iter(v) for v in d.values()]", "    value_iters = [iter(list(v)[::-1]) for v in d.values()]")]}),
    ("map:kwargs-off-by-one", "checks.c03", "sec_single", {}, {_LB: [("                for ar, kw in zip(dask_array, _misc.dict_iterrows(var_kwarg))", "                for ar, kw in zip(dask_array[1:] + dask_array[:1], _misc.dict_iterrows(var_kwarg))")]}),
    ("group:revert-one-shot-fix", "checks.c03", "sec_group", {}, {_LG: [("        return self.__class__([(key, loader.head(n)) for key, loader in self])", "        return self.__class__((key, loader.head(n)) for key, loader in self)")]}),
    ("group:index-column-leaks", "checks.c03", "sec_group", {}, {_LG: [("                molecules=mole.drop_features(index_col_name),", "                molecules=mole,")]}),
    ("group:parent-molecules", "checks.c03", "sec_group", {}, {_LG: [("                molecules=mole.drop_features(index_col_name),", "                molecules=loader.molecules,")]}),
    ("group-apply:2d-array-to-polars (defect fixed by 2292111)", "checks.c03", "sec_apply", {"n": 2, "k": 2, "group": True}, {"acryo.loader._group": [("            out[key] = pl.DataFrame([np.array(r) for r in result], schema=schema)", "            out[key] = pl.DataFrame(np.array(result), schema=schema)")]}),
    ("apply:2d-array-transposed-to-polars (seeded change C03_8)", "checks.c03", "sec_apply", {"n": 3, "k": 3, "group": False}, {_LB: [("        df_input = [np.array(r) for r in all_results]\n        return pl.DataFrame(df_input, schema=schema)", "        return pl.DataFrame(np.array(all_results).T, schema=schema)")]}),
    ("apply:rows-reversed", "checks.c03", "sec_writeback", {}, {_LB: [("        df_input = [np.array(r) for r in all_results]", "        df_input = [np.array(r)[::-1] for r in all_results]")]}),
]


def run(tier, procs=None, only=None):
    S = select(sections(tier), only)
    return harness.run_check(
        PID, tier, S, procs=procs,
        explanation="Loaders are built over shape-only tomograms and molecules whose positions/orientations are symbolic tags; the real task construction (dask.delayed) and the real polars "
                    "tables run; each computed loading task is identified by the tomogram it reads and - decided by z3 - by the molecule whose position equals the sampled centre; the "
                    "k-th task, the k-th per-molecule kwargs and the k-th result row must all be molecule k; derived loaders/groups must hold the selected molecules and leave the source untouched.",
        bounds={"molecules": "3-4 per loader, positions 50..150 px inside 200^3 tomograms (boundary handling is C02), scale 1", "batch": ("5" if quick(tier) else "all") + " image-id orderings of length 2-4 over 2 (3) tomograms",
                "groups": "3 key patterns, 4 derived-group operations", "operations": "head/tail/filter/sample/replace/copy/binning(1)/groupby; sequences of <= 2"},
        trusted_base=TRUSTED + ["real polars (Object columns)", "real dask.delayed/compute (synchronous)", "C02's affine_transform contract"],
        outside=["classification write-back (PCA is not_applicable; it uses the same iter_mapping_tasks order)", "polars internals"],
        mutants=MUTANTS if (not quick(tier) and not only) else None,
    )


# every real-library oracle of this property (each returns (reproduced, detail)); used to confirm structural facts that carry no replay of their own
ALL_REPLAYS = [lambda c: replay_batch_order([0, 1, 0, 1])(c), lambda c: replay_batch_order([1, 0])(c), replay_alias_batch, replay_autoid, replay_readd, lambda c: replay_group_twice('head')(c), lambda c: replay_group_twice('filter')(c), replay_apply]


def replay(data):
    key = data.get("key", "")
    det = data.get("replay_detail") or {}
    if "one-shot" in key:
        ok, detail = replay_group_twice(det.get("op", "head"))({})
    else:
        ok, detail = replay_batch_order(list(det.get("molecule_image_ids") or [0, 1, 0, 1]))({})
    print("replay:", detail)
    print("REPRODUCED" if ok else "not reproduced")
    return 1 if ok else 0
