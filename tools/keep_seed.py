#!/usr/bin/env python3
"""tools/keep_seed.py <name> <property> <detected: yes|no|partial> "<needs>" "<detected_by>"  -- file a confirmed seeded change under /verif/seeded/<name>/"""
import json, os, re, shutil, sys
name, prop, detected, needs, by = sys.argv[1:6]
src = f"/tmp/seeded_out/{name}"
dst = f"/verif/seeded/{name}"
os.makedirs(dst, exist_ok=True)
for f in ("patch.diff", "demo.py", "notes.md"):
    if os.path.exists(os.path.join(src, f)):
        shutil.copy(os.path.join(src, f), os.path.join(dst, f))
conf = ""
for line in open("/tmp/confirm_batch1.log"):
    if line.startswith(name + ":"):
        conf = line.strip()
def _title(pid):
    for l in open("/verif/properties.jsonl"):
        d = json.loads(l)
        if d["id"] == pid:
            return f"{pid}: {d['title']}"
    return pid


meta = {"name": name, "property": prop, "breaks": _title(prop),
        "needs_to_manifest": needs, "confirmed_in_scratch_worktree": conf,
        "commands": [f"tools/confirm_seed.sh /tmp/seeded_out/{name} {name}   # demo on pristine: rc 0; demo with patch: rc != 0; test-suite with patch: passes",
                     f"tools/try_seed.sh seeded/{name}/patch.diff {prop}   # git -C /repo apply; ./check {prop}; git -C /repo checkout -- ."],
        "detected": detected, "detected_by": by, "base_commit": os.popen("git -C /repo rev-parse --short HEAD").read().strip()}
json.dump(meta, open(os.path.join(dst, "meta.json"), "w"), indent=1)
print("kept", dst)
