"""C10 (ii): the template cache shared by all alignment tasks, under arbitrary thread interleavings.

TemplateMaskCache.get is translated from its CPython bytecode (dis) into the sequence of steps that touch
the shared dict; each step gets the dict semantics of CPython (dict.get, values(), iter() capturing the
size, next() raising RuntimeError when the size changed, list() as an atomic snapshot, __setitem__ growing
the dict iff the key is new).  The schedule - which thread executes its next step - is a z3 variable
(bounded model checking over n_threads * n_steps transitions).  Property: no thread raises and every thread
obtains the (template, mask) stored at construction.  A satisfying schedule is replayed on the real class
with an opcode-level deterministic scheduler (sys.settrace + f_trace_opcodes).
"""
from __future__ import annotations

import dis
import sys
import threading

import z3

from symx import load

# ---------------------------------------------------------------------------------------
# bytecode -> shared-dict steps


class Untranslatable(Exception):
    pass


def translate_get(func):
    """Abstractly interpret the (loop-free) bytecode of TemplateMaskCache.get.  Returns the list of
    shared steps along the fall-through path: [(kind, offset)], kinds in
    GET, ITER_DICT, SNAPSHOT, ITER_LIST, NEXT_DICT, NEXT_LIST, STORE.
    Conditional jumps right after GET / NEXT_* must lead to a return (early exit)."""
    ins = list(dis.get_instructions(func))
    by_off = {i.offset: k for k, i in enumerate(ins)}
    steps = []
    stack = []
    local = {}
    k = 0
    seen_back = False
    last_result = None
    while k < len(ins):
        i = ins[k]
        op = i.opname
        if op in ("RESUME", "NOP", "CACHE", "PRECALL", "KW_NAMES"):
            pass
        elif op == "LOAD_FAST" or op == "LOAD_FAST_CHECK":
            stack.append(local.get(i.argval, ("local", i.argval)))
        elif op == "STORE_FAST":
            local[i.argval] = stack.pop()
        elif op == "LOAD_CONST":
            stack.append(("const", i.argval))
        elif op == "LOAD_GLOBAL":
            if i.arg & 1:
                stack.append(("null",))
            stack.append(("global", i.argval))
        elif op == "PUSH_NULL":
            stack.append(("null",))
        elif op in ("LOAD_ATTR", "LOAD_METHOD"):
            obj = stack.pop()
            is_method = op == "LOAD_METHOD" or (op == "LOAD_ATTR" and i.arg & 1)
            if obj == ("local", "self") and i.argval == "_dict":
                val = ("DICT",)
            else:
                val = ("attr", obj, i.argval)
            if is_method:
                stack.append(("boundmethod", obj, i.argval))
                stack.append(("selfarg",))
            else:
                stack.append(val)
        elif op == "CALL":
            argc = i.arg
            args = [stack.pop() for _ in range(argc)][::-1]
            a = stack.pop()
            b = stack.pop()
            if a == ("selfarg",):
                callee = b
            elif b == ("null",):
                callee = a
            else:
                callee, args = b, [a] + args
            res = ("opaque",)
            if callee[0] == "boundmethod" and callee[1] == ("DICT",):
                name = callee[2]
                if name == "get":
                    steps.append(("GET", i.offset))
                    res = ("GOT",)
                elif name == "values":
                    res = ("VIEW",)
                elif name in ("items", "keys"):
                    res = ("VIEW",)
                else:
                    raise Untranslatable(f"unmodelled dict method {name}")
            elif callee == ("global", "iter"):
                if args[0] == ("VIEW",) or args[0] == ("DICT",):
                    steps.append(("ITER_DICT", i.offset))
                    res = ("DITER",)
                elif args[0] == ("SNAP",):
                    steps.append(("ITER_LIST", i.offset))
                    res = ("LITER",)
                else:
                    raise Untranslatable("iter() of an unknown object")
            elif callee in (("global", "list"), ("global", "tuple")):
                if args and args[0] in (("VIEW",), ("DICT",)):
                    steps.append(("SNAPSHOT", i.offset))
                    res = ("SNAP",)
            elif callee == ("global", "next"):
                if args[0] == ("DITER",):
                    steps.append(("NEXT_DICT", i.offset))
                    res = ("NEXTVAL",)
                elif args[0] == ("LITER",):
                    steps.append(("NEXT_LIST", i.offset))
                    res = ("NEXTVAL",)
                else:
                    raise Untranslatable("next() of an unknown iterator")
            elif any(x in (("DICT",), ("VIEW",), ("DITER",)) for x in args):
                raise Untranslatable(f"shared dict passed to unmodelled callee {callee}")
            stack.append(res)
            last_result = res
        elif op == "COPY":
            stack.append(stack[-i.arg])
        elif op == "SWAP":
            stack[-1], stack[-i.arg] = stack[-i.arg], stack[-1]
        elif op == "POP_TOP":
            stack.pop()
        elif op in ("POP_JUMP_IF_FALSE", "POP_JUMP_IF_TRUE", "POP_JUMP_IF_NONE", "POP_JUMP_IF_NOT_NONE"):
            cond = stack.pop()
            tgt = by_off[i.argval]
            if tgt <= k:
                raise Untranslatable("backward jump")
            fall_is_return = _leads_to_return(ins, k + 1, tgt)
            jump_is_return = _leads_to_return(ins, tgt, len(ins))
            if cond == ("GOT",):
                # `if out := d.get(k): return out`  -> the hit side must return
                if op == "POP_JUMP_IF_FALSE" and fall_is_return:
                    k = tgt
                    continue
                raise Untranslatable("unexpected branch shape after dict.get")
            if cond == ("NEXTVAL",):
                if op == "POP_JUMP_IF_FALSE" and jump_is_return:
                    pass  # empty -> return None at the jump target; continue on the fall-through (value found)
                else:
                    raise Untranslatable("unexpected branch shape after next()")
            else:
                raise Untranslatable(f"branch on unmodelled condition {cond}")
        elif op == "BINARY_SUBSCR":
            stack.pop()
            stack.pop()
            stack.append(("opaque",))
        elif op == "BUILD_TUPLE":
            for _ in range(i.arg):
                stack.pop()
            stack.append(("opaque",))
        elif op == "STORE_SUBSCR":
            key = stack.pop()
            cont = stack.pop()
            stack.pop()
            if cont == ("DICT",):
                if key != ("local", "backend"):
                    raise Untranslatable("store under a key other than the backend argument")
                steps.append(("STORE", i.offset))
        elif op in ("RETURN_VALUE", "RETURN_CONST"):
            break
        elif op in ("FOR_ITER", "JUMP_BACKWARD", "GET_ITER"):
            raise Untranslatable(f"loop instruction {op}")
        else:
            raise Untranslatable(f"unmodelled instruction {op}")
        k += 1
    return steps


def _leads_to_return(ins, start, stop):
    for j in range(start, min(stop, len(ins))):
        if ins[j].opname in ("RETURN_VALUE", "RETURN_CONST"):
            return True
        if ins[j].opname.startswith(("POP_JUMP", "JUMP")) or ins[j].opname == "CALL":
            return False
    return False


# ---------------------------------------------------------------------------------------
# bounded model checking of the interleavings


def bmc(steps, n_threads, same_key):
    kinds = [k for k, _ in steps]
    m = len(kinds)
    T = n_threads * m
    s = z3.SolverFor("QF_BV")
    s.set("timeout", 120000)
    W = 6
    Int = lambda name: z3.BitVec(name, W)  # noqa: E731  (finite domains: bit-blasted BMC)
    bv = lambda v: z3.BitVecVal(v, W)  # noqa: E731
    sched = [Int(f"sched_{i}") for i in range(T)]
    size = [Int(f"size_{i}") for i in range(T + 1)]
    nk = 1 if same_key else n_threads
    present = [[z3.Bool(f"present_{i}_{q}") for q in range(nk)] for i in range(T + 1)]
    pc = [[Int(f"pc_{i}_{t}") for t in range(n_threads)] for i in range(T + 1)]
    cap = [[Int(f"cap_{i}_{t}") for t in range(n_threads)] for i in range(T + 1)]
    snapne = [[z3.Bool(f"snapne_{i}_{t}") for t in range(n_threads)] for i in range(T + 1)]
    err = [[z3.Bool(f"err_{i}_{t}") for t in range(n_threads)] for i in range(T + 1)]
    ret = [[Int(f"ret_{i}_{t}") for t in range(n_threads)] for i in range(T + 1)]
    s.add(size[0] == 1)  # the entry written by the model constructor (its own Backend instance)
    for q in range(nk):
        s.add(z3.Not(present[0][q]))
    for t in range(n_threads):
        s.add(pc[0][t] == 0, cap[0][t] == 0, z3.Not(snapne[0][t]), z3.Not(err[0][t]), ret[0][t] == 0)
    for i in range(T):
        runnable = [z3.And(z3.ULT(pc[i][t], m), z3.Not(err[i][t])) for t in range(n_threads)]
        any_run = z3.Or(*runnable)
        s.add(z3.ULT(sched[i], n_threads))
        for t in range(n_threads):
            s.add(z3.Implies(z3.And(any_run, sched[i] == t), runnable[t]))
        # frame: defaults
        nsize = size[i]
        npresent = list(present[i])
        for t in range(n_threads):
            act = z3.And(any_run, sched[i] == t)
            q = 0 if same_key else t
            npc, ncap, nsn, nerr, nret = pc[i][t], cap[i][t], snapne[i][t], err[i][t], ret[i][t]
            for j, kind in enumerate(kinds):
                here = z3.And(act, pc[i][t] == j)
                if kind == "GET":
                    hit = present[i][q]
                    npc = z3.If(here, z3.If(hit, bv(m), bv(j + 1)), npc)
                    nret = z3.If(z3.And(here, hit), bv(1), nret)
                elif kind == "ITER_DICT":
                    ncap = z3.If(here, size[i], ncap)
                    npc = z3.If(here, bv(j + 1), npc)
                elif kind == "SNAPSHOT":
                    nsn = z3.If(here, z3.UGT(size[i], 0), nsn)
                    npc = z3.If(here, bv(j + 1), npc)
                elif kind == "ITER_LIST":
                    npc = z3.If(here, bv(j + 1), npc)
                elif kind == "NEXT_DICT":
                    changed = cap[i][t] != size[i]
                    nerr = z3.If(z3.And(here, changed), z3.BoolVal(True), nerr)
                    empty = size[i] == 0
                    npc = z3.If(here, z3.If(changed, pc[i][t], z3.If(empty, bv(m), bv(j + 1))), npc)
                    nret = z3.If(z3.And(here, z3.Not(changed), empty), bv(2), nret)
                elif kind == "NEXT_LIST":
                    npc = z3.If(here, z3.If(snapne[i][t], bv(j + 1), bv(m)), npc)
                    nret = z3.If(z3.And(here, z3.Not(snapne[i][t])), bv(2), nret)
                elif kind == "STORE":
                    grow = z3.And(here, z3.Not(present[i][q]))
                    nsize = z3.If(grow, nsize + 1, nsize)
                    npresent[q] = z3.If(here, z3.BoolVal(True), npresent[q])
                    npc = z3.If(here, bv(m), npc)
                    nret = z3.If(here, bv(1), nret)
            s.add(pc[i + 1][t] == npc, cap[i + 1][t] == ncap, snapne[i + 1][t] == nsn, err[i + 1][t] == nerr, ret[i + 1][t] == nret)
        s.add(size[i + 1] == nsize)
        for q in range(nk):
            s.add(present[i + 1][q] == npresent[q])
    bad = z3.Or(*[z3.Or(err[T][t], ret[T][t] != 1) for t in range(n_threads)])
    return s, bad, sched, pc, err, ret, T, m


def schedule_from_model(model, sched, pc, T, m, n_threads):
    """[(thread, step index)] actually executed"""
    out = []
    for i in range(T):
        t = model.eval(sched[i], model_completion=True).as_long()
        j = model.eval(pc[i][t], model_completion=True).as_long()
        nj = model.eval(pc[i + 1][t], model_completion=True).as_long()
        if j < m and (nj != j or True):
            out.append((t, j))
    # drop entries of finished threads
    seen = {}
    res = []
    for t, j in out:
        if seen.get(t, -1) >= j and j != seen.get(t):
            continue
        if seen.get(t) == j:
            continue
        seen[t] = j
        res.append((t, j))
    return res


# ---------------------------------------------------------------------------------------
# deterministic replay on the real class


def replay_schedule(order, offsets, n_threads, same_key):
    """Drive the real TemplateMaskCache.get in n threads so that the shared steps execute in `order`
    (list of (thread, step index)); returns (reproduced, detail)."""
    import numpy as np
    from acryo.alignment._base import TemplateMaskCache
    from acryo.backend import Backend

    code = TemplateMaskCache.get.__code__
    cache = TemplateMaskCache()
    v0 = (np.zeros((2, 2, 2), dtype=np.complex64), np.ones((2, 2, 2), dtype=np.float32))
    cache.set(Backend(), *v0)
    keys = [Backend()] * n_threads if same_key else [Backend() for _ in range(n_threads)]
    cv = threading.Condition()
    state = {"cur": 0, "dead": set()}
    results = [None] * n_threads
    errors = [None] * n_threads
    off_to_idx = {off: k for k, off in enumerate(offsets)}

    def my_turn(t, j):
        # skip entries of threads that already finished/died
        while state["cur"] < len(order) and order[state["cur"]][0] in state["dead"]:
            state["cur"] += 1
        if state["cur"] >= len(order):
            return True
        return order[state["cur"]] == (t, j)

    def worker(t):
        pending = {"v": False}

        def advance():
            with cv:
                if pending["v"]:
                    pending["v"] = False
                    state["cur"] += 1
                    cv.notify_all()

        def tracer(frame, event, arg):
            if frame.f_code is not code:
                return None
            frame.f_trace_opcodes = True
            if event == "opcode":
                advance()
                j = off_to_idx.get(frame.f_lasti)
                if j is not None:
                    with cv:
                        ok = cv.wait_for(lambda: my_turn(t, j), timeout=5.0)
                        pending["v"] = True
            elif event in ("return", "exception"):
                advance()
            return tracer

        sys.settrace(tracer)
        try:
            results[t] = cache.get(keys[t])
        except Exception as e:  # noqa: BLE001
            errors[t] = repr(e)
        finally:
            sys.settrace(None)
            with cv:
                if pending["v"]:
                    pending["v"] = False
                    state["cur"] += 1
                state["dead"].add(t)
                cv.notify_all()

    ths = [threading.Thread(target=worker, args=(t,)) for t in range(n_threads)]
    for th in ths:
        th.start()
    for th in ths:
        th.join(30)
    got_err = [e for e in errors if e]
    wrong = [t for t in range(n_threads) if errors[t] is None and not (isinstance(results[t], tuple) and results[t][0] is v0[0] and results[t][1] is v0[1])]
    return bool(got_err or wrong), {"schedule": [list(x) for x in order], "errors": errors, "threads_with_wrong_value": wrong, "same_key": same_key}


# ---------------------------------------------------------------------------------------


def run_section(rec, n_threads=2, patches=None):
    L = load.load(["acryo.alignment._base"], patches=patches)
    B = L["acryo.alignment._base"]
    rec.encodes("acryo/alignment/_base.py:TemplateMaskCache.get (CPython bytecode)", "acryo/alignment/_base.py:TemplateMaskCache.set",
                "acryo/backend/_api.py:Backend.__hash__ (no __eq__: keys equal by identity)")
    rec.assume("CPython dict: iter(d.values()) captures len(d); next() raises RuntimeError if len(d) changed; list(view) is an atomic snapshot under the GIL; "
               "a thread switch may happen between any two bytecodes")
    try:
        steps = translate_get(B.TemplateMaskCache.get)
    except Untranslatable as e:
        rec.inconclusive("cache/translate", f"bytecode pattern not recognised: {e}")
        return
    kinds = [k for k, _ in steps]
    offsets = [o for _, o in steps]
    rec.extra["steps"] = [list(x) for x in steps]
    if "GET" not in kinds or "STORE" not in kinds:
        rec.inconclusive("cache/translate", f"unexpected step list {kinds}")
        return
    # Backend keys compare by identity?
    import inspect

    API = load.load(["acryo.backend._api"])["acryo.backend._api"]
    by_identity = "__eq__" not in API.Backend.__dict__
    for same_key in (True, False):
        if not by_identity and not same_key:
            continue
        s, bad, sched, pc, err, ret, T, m = bmc(steps, n_threads, same_key)
        tag = f"cache[{n_threads} threads,{'shared backend object' if same_key else 'one Backend() per task'}]"
        s.push()
        s.add(bad)
        r = str(s.check())
        if r == "unsat":
            rec.records.append({"label": f"{tag}/no-raise-and-stored-value-for-every-schedule", "section": rec.section, "status": "holds", "seconds": 0.0,
                                "key": "C10/cache/race", "nontrivial": True, "twin": "sat"})
            s.pop()
            # reachability twin: some schedule completes all threads
            s.push()
            s.add(z3.And(*[ret[T][t] == 1 for t in range(n_threads)]))
            if str(s.check()) != "sat":
                rec.inconclusive(f"{tag}/twin", "no completing schedule: encoding vacuous")
            s.pop()
            continue
        if r != "sat":
            rec.inconclusive(tag, f"solver returned {r}")
            s.pop()
            continue
        model = s.model()
        order = schedule_from_model(model, sched, pc, T, m, n_threads)
        s.pop()
        try:
            ok, det = replay_schedule(order, offsets, n_threads, same_key)
        except Exception as e:  # noqa: BLE001
            ok, det = None, {"error": repr(e)}
        det["steps"] = [f"{k}@{o}" for k, o in steps]
        rec.fact(f"{tag}/no-raise-and-stored-value-for-every-schedule", False, key="C10/cache/race", detail=det, reproduced=ok)
