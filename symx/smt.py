"""symx.smt -- discharging queries: `prove(hyps, goal)` asks z3 for a counterexample of
hyps => goal.  unsat = holds for every value; sat = counterexample (model returned);
unknown/timeout = inconclusive.  Polynomial queries use the nlsat tactic explicitly."""
from __future__ import annotations

import time
from fractions import Fraction

import z3

from .core import STATS


def _has_nonlinear(e, _seen=None) -> bool:
    """cheap syntactic test: any product of two non-constant terms / division by a term"""
    seen = set() if _seen is None else _seen
    stack = [e]
    while stack:
        t = stack.pop()
        if t.get_id() in seen:
            continue
        seen.add(t.get_id())
        if z3.is_app(t):
            k = t.decl().kind()
            if k == z3.Z3_OP_MUL:
                nonconst = [c for c in t.children() if not (z3.is_rational_value(c) or z3.is_int_value(c))]
                if len(nonconst) >= 2:
                    return True
            if k in (z3.Z3_OP_DIV, z3.Z3_OP_IDIV, z3.Z3_OP_MOD, z3.Z3_OP_POWER):
                ch = t.children()
                if len(ch) == 2 and not (z3.is_rational_value(ch[1]) or z3.is_int_value(ch[1])):
                    return True
            stack.extend(t.children())
    return False


def _has_toint(e) -> bool:
    seen = set()
    stack = [e]
    while stack:
        t = stack.pop()
        if t.get_id() in seen:
            continue
        seen.add(t.get_id())
        if z3.is_app(t):
            k = t.decl().kind()
            if k in (z3.Z3_OP_TO_INT, z3.Z3_OP_IDIV, z3.Z3_OP_MOD, z3.Z3_OP_UNINTERPRETED) and (
                k != z3.Z3_OP_UNINTERPRETED or t.num_args() > 0
            ):
                return True
            if t.sort() == z3.IntSort() and k == z3.Z3_OP_UNINTERPRETED:
                return True
            stack.extend(t.children())
    return False


class Verdict:
    __slots__ = ("status", "model", "seconds", "label", "formula")

    def __init__(self, status, model=None, seconds=0.0, label="", formula=None):
        self.status = status  # "holds" | "violated" | "inconclusive"
        self.model = model
        self.seconds = seconds
        self.label = label
        self.formula = formula

    def __repr__(self):
        return f"Verdict({self.label}: {self.status}, {self.seconds:.3f}s)"


def check_sat(formulas, timeout_ms=20000, nonlinear=None):
    """returns ('sat'|'unsat'|'unknown', model|None)"""
    f = z3.And(*formulas) if len(formulas) != 1 else formulas[0]
    if nonlinear is None:
        nonlinear = _has_nonlinear(f) and not _has_toint(f)
    t0 = time.time()
    if nonlinear:
        s = z3.Tactic("qfnra-nlsat").solver()
    else:
        s = z3.Solver()
    s.set("timeout", int(timeout_ms))
    s.add(f)
    r = str(s.check())
    if r == "unknown" and nonlinear:
        # fall back to the default portfolio
        s = z3.Solver()
        s.set("timeout", int(timeout_ms))
        s.add(f)
        r = str(s.check())
    elif r == "unknown" and not nonlinear and _has_nonlinear(f):
        s = z3.SolverFor("QF_NIRA") if _has_toint(f) else z3.Tactic("qfnra-nlsat").solver()
        s.set("timeout", int(timeout_ms))
        s.add(f)
        try:
            r = str(s.check())
        except z3.Z3Exception:
            r = "unknown"
    dt = time.time() - t0
    STATS["solver_calls"] += 1
    STATS["solver_s"] += dt
    m = s.model() if r == "sat" else None
    return r, m


def prove(hyps, goal, label="", timeout_ms=20000, nonlinear=None) -> Verdict:
    """Is `goal` implied by `hyps` for every value?"""
    t0 = time.time()
    g = z3.simplify(goal)
    STATS["queries"] += 1
    if z3.is_true(g):
        STATS["unsat"] += 1
        return Verdict("holds", None, 0.0, label, goal)
    if ring_identity(goal):
        STATS["unsat"] += 1
        return Verdict("holds", None, time.time() - t0, label, goal)
    r, m = check_sat(list(hyps) + [z3.Not(goal)], timeout_ms, nonlinear)
    dt = time.time() - t0
    if r == "unsat":
        STATS["unsat"] += 1
        return Verdict("holds", None, dt, label, goal)
    if r == "sat":
        STATS["sat"] += 1
        return Verdict("violated", m, dt, label, goal)
    STATS["unknown"] += 1
    return Verdict("inconclusive", None, dt, label, goal)


def ring_identity(goal) -> bool:
    """a (conjunction of) polynomial equalities that z3's arithmetic normaliser (sum-of-monomials) reduces to 0 = 0:
    a ring identity, valid for every value without any hypothesis"""
    try:
        if z3.is_and(goal):
            return all(ring_identity(c) for c in goal.children())
        if z3.is_eq(goal):
            l, r = goal.children()
            if not (z3.is_arith(l) and z3.is_arith(r)):
                return False
            d = z3.simplify(l - r, som=True, arith_lhs=True)
            if z3.is_int_value(d):
                return d.as_long() == 0
            return z3.is_rational_value(d) and d.as_fraction() == 0
    except z3.Z3Exception:
        return False
    return False


def reachable(hyps, timeout_ms=20000) -> str:
    """reachability twin: the hypotheses must be satisfiable (else the claim is vacuous)."""
    r, _ = check_sat(list(hyps) if hyps else [z3.BoolVal(True)], timeout_ms)
    return r


def model_value(m, e):
    v = m.eval(e, model_completion=True)
    if z3.is_int_value(v):
        return v.as_long()
    if z3.is_rational_value(v):
        return Fraction(v.as_fraction())
    if z3.is_true(v):
        return True
    if z3.is_false(v):
        return False
    if z3.is_algebraic_value(v):
        return float(v.approx(20).as_fraction())
    return str(v)


def model_dict(m, names=None):
    out = {}
    if m is None:
        return out
    for d in m.decls():
        if d.arity() != 0:
            continue
        n = d.name()
        if "!" in n and names is None:
            continue
        if names is not None and n not in names:
            continue
        v = model_value(m, d())
        out[n] = v
    return out


def jsonable(v):
    if isinstance(v, Fraction):
        return {"frac": f"{v.numerator}/{v.denominator}", "float": float(v)}
    if isinstance(v, dict):
        return {k: jsonable(x) for k, x in v.items()}
    if isinstance(v, (list, tuple)):
        return [jsonable(x) for x in v]
    return v


def smtlib(hyps, goal) -> str:
    s = z3.Solver()
    for h in hyps:
        s.add(h)
    s.add(z3.Not(goal))
    return s.to_smt2()
