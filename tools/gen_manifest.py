#!/usr/bin/env python3
import json, os, sys
sys.path.insert(0, os.path.dirname(os.path.dirname(os.path.abspath(__file__))))
from checks import registry as R

ALL = [f"C{i:02d}" for i in range(1, 21)]
checks = []
for pid in ALL:
    if pid in R.CLAIMED:
        c = R.CLAIMED[pid]
        checks.append({
            "property_id": pid,
            "quick_cmd": f"./check {pid} --tier quick",
            "thorough_cmd": f"./check {pid} --tier thorough",
            "evidence_file": f"/verif/evidence/{pid}.json",
            "replay_cmd_template": f"./check {pid} --replay {{path}}",
            "engine": "symx",
            "level_claimed": {"category": "other", "text": c["text"], "design_ref": c["ref"]},
            "level_note": c["note"],
            "technique": c.get("technique", R.TECH),
        })
na = []
for pid in ALL:
    if pid in R.CLAIMED:
        continue
    if pid in R.NOT_APPLICABLE:
        na.append({"property_id": pid, "reason": R.NOT_APPLICABLE[pid]})
    else:
        na.append({"property_id": pid, "reason": R.PENDING.get(pid, "not claimed yet: the solver-based harness for this property is still being built (see DESIGN.md §4); nothing is asserted about it")})
m = {
    "version": 1,
    "setup_cmd": "./setup.sh",
    "hooks": {
        "guard": "ACRYO_VERIF",
        "enable": "n/a - checks load /repo's current source text directly into shimmed namespaces; no instrumentation commits in /repo",
        "baseline_off_cmd": "cd /repo && /venv/bin/python -m pytest -ra -q -p no:cacheprovider --timeout=900 --continue-on-collection-errors",
        "source_commits": [],
        "add_only": True,
    },
    "engines": [{"name": "symx", "path": "/verif/symx", "serves_properties": sorted(R.CLAIMED),
                 "kind_free_text": "symbolic execution of the real Python source with z3 (proxy scalars, re-execution path forking, object-ndarray SymArray, contract stubs for scipy/dask/polars)"}],
    "checks": checks,
    "not_applicable": na,
    "notes": "Exit codes: 0 all claimed queries hold (KNOWN-FINDING lines for listed findings), 1 replayed unlisted violation (VIOLATION line), 3 harness error/inconclusive. known_findings.json lists fixed/open findings.",
}
with open(os.path.join(os.path.dirname(os.path.dirname(os.path.abspath(__file__))), "MANIFEST.json"), "w") as f:
    json.dump(m, f, indent=1)
print("MANIFEST.json:", len(checks), "checks,", len(na), "not claimed")
