"""C04 -- translational alignment returns the true displacement: the convention part.

What is decided here (solver, all values within the stated bounds) is the chain
    landscape entry  <->  lag (displacement of the sub-volume window relative to the template)  <->  returned shift
for ZNCC, NCC, PCC and FSC, coarse and refined stage:

 * semantics   real ncc_landscape / *_landscape_with_crop on images of symbolic voxels: entry x of the uncropped landscape is the
               (zero-)normalised correlation of the template with the window of the padded sub-volume at lag x-centre; entry r of
               the cropped landscape has lag r-int(m).  pcc_landscape / fsc_landscape: entry r <-> circular lag r-int(m) / r-ceil(m).
 * decode      real subpixel_zncc/ncc/fsc/pcc with a data-blind arg-max (every coarse and refined peak position): the returned
               shift is the lag of the landscape position that was sampled at the refined maximum; the node of the coarse maximum
               is part of the refinement mesh/window; the refinement window is exactly the set of nodes within +-1 px (ZNCC/NCC/FSC)
               or +-0.75 px (PCC) of the coarse peak whose lag lies inside [-m, m].
 * updft       real _upsampled_dft: the kernel phase of output index n, frequency k is -2 pi (n - offset) k'/(N up), axis by axis.
 * plumbing    the models pass (sub-volume, template) in this order, return the backend's shift unchanged with an identity rotation;
               fit() resamples the sub-volume at o + shift.

A sub-volume that is the template displaced by d correlates perfectly with the template at lag d (Cauchy-Schwarz: nowhere more), so
with these conventions the returned shift is +d.  The numeric accuracy figures of the statement (0.1 / 0.5 px) depend on
floating-point FFT and spline interpolation of image content and are outside the claim.
"""
from __future__ import annotations

import itertools
import math
from fractions import Fraction

import numpy as np
import z3

from symx import harness, load, rotation, stubs, smt
from symx import core as C
from symx.arrays import SymArray, to_symarray, _obj
from symx.core import Sym, explore, integer, lift, real, _real, _coerce
from symx.fftstub import FFTStub
from symx.npshim import BlindNP
from symx.shapes import ShapeOnly

from .common import TRUSTED, fl, frac, quick, select
from . import c07

PID = "C04"
BMODS = ["acryo.backend._api", "acryo.backend._upsample", "acryo.backend._zncc", "acryo.backend._pcc", "acryo.backend._fsc"]
UP = 20


def zr(x):
    return _real(lift(_coerce(x)))


def zi(x):
    return lift(_coerce(x))


def rat(v):
    """exact-real reading of a float32/float64 mesh constant (k/20 grids): the nearest fraction with a small denominator"""
    if isinstance(v, (float, np.floating)):
        f = Fraction(float(v)).limit_denominator(10 ** 6)
        if abs(float(f) - float(v)) > 1e-6:
            raise harness.HarnessError(f"mesh constant {v!r} is not a small fraction") if hasattr(harness, "HarnessError") else ValueError(v)
        return z3.RealVal(f)
    return zr(v)


from .common import ratz  # noqa: E402  (exact-real reading of float constants)


def ceil_z(e):
    return -z3.ToInt(-e)


def _is_zero(t):
    t = z3.simplify(t)
    return z3.is_rational_value(t) and t.as_fraction() == 0


def split_entry(t):
    """landscape entry = If(var>0, N / If(var>0, Sqrt(R), 0), 0): returns (N, R, outer condition) or None; a constant 0 entry -> (0, 0, None)"""
    if _is_zero(t):
        return z3.RealVal(0), z3.RealVal(0), None
    c1 = None
    if z3.is_app(t) and t.decl().kind() == z3.Z3_OP_ITE and _is_zero(t.children()[2]):
        c1, t = t.children()[0], t.children()[1]
    if not (z3.is_app(t) and t.decl().kind() == z3.Z3_OP_DIV):
        return None
    num, den = t.children()
    if z3.is_app(den) and den.decl().kind() == z3.Z3_OP_ITE:
        den = den.children()[1]
    if not (z3.is_app(den) and den.decl().name() == "Sqrt"):
        return None
    return num, den.children()[0], c1


# ---------------------------------------------------------------------------------------
# replay: planted displacements on the installed library, judged with the tolerances of the property


def _template(shape, seed=0):
    rng = np.random.default_rng(seed)
    zz = np.indices(shape).astype(np.float64)
    ctr = [(s - 1) / 2 for s in shape]
    return sum(np.exp(-sum((zz[a] - ctr[a] - c[a]) ** 2 for a in range(3)) / 1.5) for c in rng.uniform(-1.2, 1.2, size=(4, 3))).astype(np.float32)


def replay_planted(kind, parity=(0, 0, 0), landscape=False):
    """kind in zncc/ncc/pcc/fsc; boxes 12+parity; displacements: integer and fractional, inside and on the edge of the range"""

    def run(cex):
        from scipy import ndimage as ndi
        from acryo.alignment import ZNCCAlignment, NCCAlignment, PCCAlignment, FSCAlignment

        Model = {"zncc": ZNCCAlignment, "ncc": NCCAlignment, "pcc": PCCAlignment, "fsc": FSCAlignment}[kind]
        tol = 0.5 if kind == "fsc" else 0.1
        bad = []
        shapes = {tuple(16 + p for p in parity), tuple(17 - p for p in parity), (16, 17, 15), (15, 16, 17)}
        ms = [fl(cex.get(f"m{a}")) for a in range(3)]
        mlist = [2.0, 2.5, 3.75, (3.0, 1.0, 2.0), (1.0, 2.5, 3.0)]  # isotropic and per-axis ranges
        if any(v is not None for v in ms):
            mlist.append(tuple(min(max(v if v is not None else 2.0, 0.0), 4.0) for v in ms))
        for shape in sorted(shapes):
            tmpl = _template(shape)
            model = Model(tmpl)
            for m in mlist:
                mt = (m,) * 3 if not isinstance(m, tuple) else m
                ds = [tuple(0.0 for _ in mt), tuple(float(int(v)) for v in mt), tuple(-float(int(v)) for v in mt), tuple(v for v in mt), tuple(-v for v in mt),
                      (min(1.0, mt[0]), -min(2.0, mt[1]), min(0.4, mt[2])), (-min(0.35, mt[0]), min(1.6, mt[1]), -min(1.0, mt[2]))]
                for d in ds:
                    sub = ndi.shift(tmpl, d, order=3, mode="constant", prefilter=True).astype(np.float32)
                    try:
                        if landscape:
                            di = tuple(float(round(v)) for v in d)
                            sub = ndi.shift(tmpl, di, order=1, mode="constant").astype(np.float32)
                            lds = np.asarray(model.landscape(sub, mt))
                            pk = np.array(np.unravel_index(np.argmax(lds), lds.shape), dtype=float) - (np.array(lds.shape) - 1) / 2
                            if np.abs(pk - np.array(di)).max() > 1e-6:
                                bad.append({"shape": list(shape), "max_shifts": list(mt), "d": list(di), "landscape_peak_offset": pk.tolist()})
                            continue
                        res = model.align(sub, mt)
                    except Exception as e:
                        bad.append({"shape": list(shape), "max_shifts": list(mt), "d": list(d), "raised": repr(e)[:100]})
                        continue
                    err = float(np.abs(np.asarray(res.shift, dtype=float) - np.array(d)).max())
                    if err > tol or not np.allclose(res.quat, [0, 0, 0, 1]):
                        bad.append({"shape": list(shape), "max_shifts": list(mt), "d": list(d), "shift": [float(v) for v in res.shift], "err": err})
        return len(bad) > 0, {"model": kind, "n_violations": len(bad), "violations": bad[:4], "tolerance_px": tol}

    return run


# ---------------------------------------------------------------------------------------
# section: landscape semantics of ZNCC / NCC on symbolic voxels


def _load_sym(patches=None):
    return c07._load(patches)


def _ref_parts(A, T, shape, lag, pad, centre_a):
    """numerator and radicand of the normalised correlation between template T and the window of (padded) A at `lag`"""
    V = int(np.prod(shape))
    am = sum((zr(v) for v in A.reshape(-1)), z3.RealVal(0)) / V
    tm = sum((zr(v) for v in T.reshape(-1)), z3.RealVal(0)) / V
    sub = am if centre_a else z3.RealVal(0)
    padv = z3.RealVal(0) if pad == "zero" else am
    W, tc = {}, {}
    for k in np.ndindex(shape):
        i = tuple(k[j] + lag[j] for j in range(3))
        inside = all(0 <= i[j] < shape[j] for j in range(3))
        W[k] = (zr(A[i]) - sub) if inside else padv
        tc[k] = zr(T[k]) - tm
    s1 = sum(W.values(), z3.RealVal(0))
    s2 = sum((v * v for v in W.values()), z3.RealVal(0))
    ssd = sum((v * v for v in tc.values()), z3.RealVal(0))
    N = sum((W[k] * tc[k] for k in W), z3.RealVal(0))
    R = (s2 - s1 * s1 / V) * ssd
    return N, R


def sec_semantics(rec, kind="zncc", shape=(1, 1, 3), axis=2, mhi=2, patches=None):
    L = _load_sym(patches)
    Z, xp = L["acryo.backend._zncc"], L.xp
    rec.encodes("acryo/backend/_zncc.py:ncc_landscape", "acryo/backend/_zncc.py:ncc_landscape_no_pad", "acryo/backend/_zncc.py:fftconvolve", "acryo/backend/_zncc.py:_apply_conv_mode",
                "acryo/backend/_zncc.py:_window_sum_2d", "acryo/backend/_zncc.py:_window_sum_3d", "acryo/backend/_zncc.py:_safe_sqrt", "acryo/backend/_zncc.py:_get_padding_width",
                f"acryo/backend/_zncc.py:{kind}_landscape_with_crop", f"acryo/backend/_zncc.py:subpixel_{kind} (up to its upsample() call)")
    rec.assume("scipy.fft: irfftn(rfftn(a,s)*rfftn(b,s),s) is the circular convolution of the zero-padded inputs (convolution theorem); next_fast_len(n) = n (any admissible length gives the same linear convolution)")
    a, t = c07.img("a", shape), c07.img("t", shape)
    A, T = _obj(a), _obj(t)
    msym = real(f"m{axis}")
    hyps = [msym.e >= 0, msym.e <= mhi]
    ms = tuple(msym if k == axis else 0 for k in range(3))
    names = {f"m{axis}"}
    tag = f"semantics[{kind},{shape},axis={axis}]"
    rp = replay_planted(kind, tuple(s % 2 for s in shape))
    rpl = replay_planted(kind, tuple(s % 2 for s in shape), landscape=True)
    C.SQRT_MODE["opaque"] = True

    cap = {}

    def up_stub(res, res_ori, max_shifts, pad_eff, backend):
        cap["res"], cap["res_ori"] = res, res_ori
        return np.zeros(3), 0.0

    Z.upsample = up_stub

    def run():
        # the landscapes as the real sub-pixel routine builds them (captured at its upsample() call), and the public cropped landscape
        cap.clear()
        if kind == "zncc":
            Z.subpixel_zncc(a, t, ms, backend=xp)
            crop = Z.zncc_landscape_with_crop(a, t, ms, backend=xp)
        else:
            Z.subpixel_ncc(a, t, ms, backend=xp)
            crop = Z.ncc_landscape_with_crop(a, t, ms, backend=xp)
        return cap["res_ori"], crop, cap["res"]

    try:
        try:
            paths = explore(run, assumptions=hyps, max_paths=40)
        except C.Unsupported as e:
            # the engine has no encoding for what the code now does (e.g. an FFT over a grid the stub cannot follow): the installed library decides.
            # A reproduced displacement error is a violation; otherwise the section stays inconclusive (the exception is passed on).
            ok, det = rp({})
            if not ok:
                raise
            rec.fact(f"{tag}/not-encodable:{str(e)[:80]}", False, key=f"C04/{kind}/planted-displacement-not-recovered", detail=det, reproduced=True)
            return
        for pi, p in enumerate(paths):
            h = hyps + [p.condition()]
            if not p.ok:
                ok, det = rp({})
                rec.fact(f"{tag}/path{pi}/runs", False, key=f"C04/{kind}/semantics-raises", detail={"exc": repr(p.exc)[:300], **det}, reproduced=ok)
                continue
            full, crop, sub = (_obj(x) for x in p.result)
            for which, arr, rpx in (("full", full, rp), ("crop", crop, rpl), ("subpixel-crop", sub, rp)):
                lag0 = []
                okshape = True
                for k in range(3):
                    mk = zr(ms[k])
                    n = arr.shape[k]
                    if which == "full":
                        # an odd number of entries, wide enough for the search range plus a margin for the spline; the centre entry <-> lag 0
                        v = rec.query(f"{tag}/path{pi}/{which}/len{k}-odd,covers-range+1", h, z3.And(n % 2 == 1, (n - 1) // 2 >= z3.ToInt(mk) + 1), key=f"C04/{kind}/landscape-shape[{which}]", names=names, replay=rpx)
                        lag0.append(-((n - 1) // 2))
                    else:
                        v = rec.query(f"{tag}/path{pi}/{which}/len{k}=2int(m)+1", h, 2 * z3.ToInt(mk) + 1 == n, key=f"C04/{kind}/landscape-shape[{which}]", names=names, replay=rpx)
                        lag0.append(-((n - 1) // 2))
                    okshape = okshape and v.status == "holds"
                if not okshape:
                    continue
                for x in np.ndindex(arr.shape):
                    lag = tuple(x[k] + lag0[k] for k in range(3))
                    sp = split_entry(zr(arr[x]))
                    if sp is None:
                        rec.fact(f"{tag}/path{pi}/{which}/entry{x}/form", False, key=f"C04/{kind}/entry-form", detail={"term": str(zr(arr[x]))[:200]})
                        continue
                    N, R, cond = sp
                    Nref, Rref = _ref_parts(A, T, shape, lag, "zero" if kind == "zncc" else "mean", kind == "zncc")
                    rec.query(f"{tag}/path{pi}/{which}/entry{x}/numerator=window(lag={lag}).template", h, N == Nref if cond is not None else Rref == 0, key=f"C04/{kind}/entry-lag[{which}]", names=names, replay=rpx, twin=False)
                    if cond is not None:
                        rec.query(f"{tag}/path{pi}/{which}/entry{x}/radicand=var(window(lag={lag}))*var(template)", h, R == Rref, key=f"C04/{kind}/entry-lag[{which}]", names=names, replay=rpx, twin=False)
    finally:
        C.SQRT_MODE["opaque"] = False


# ---------------------------------------------------------------------------------------
# section: decode of the refinement (ZNCC / NCC / FSC): data-blind arg-max


def _load_blind(patches=None):
    return load.load(BMODS, overrides={"np": BlindNP()}, patches=patches)


def _backend_blind(L, fft=None):
    import scipy.fft as sfft

    API = L["acryo.backend._api"]
    return stubs.make_backend(API, API.np, stubs.HybridNdi(), fft or sfft)


def _view_offset(view, base):
    """offset (per axis) of a basic-slice view inside its base array"""
    d = view.__array_interface__["data"][0] - base.__array_interface__["data"][0]
    off = []
    for st in base.strides:
        off.append(d // st)
        d -= (d // st) * st
    return tuple(int(v) for v in off)


def sec_decode(rec, kind="zncc", box=(5, 4, 6), axis=0, others=(0.0, 1.3), patches=None):
    L = _load_blind(patches)
    xp = _backend_blind(L)
    Z, F, U = L["acryo.backend._zncc"], L["acryo.backend._fsc"], L["acryo.backend._upsample"]
    rec.encodes(*{"zncc": ["acryo/backend/_zncc.py:subpixel_zncc"], "ncc": ["acryo/backend/_zncc.py:subpixel_ncc"], "fsc": ["acryo/backend/_fsc.py:subpixel_fsc", "acryo/backend/_fsc.py:fsc_landscape (shape)"]}[kind],
                "acryo/backend/_upsample.py:upsample", "acryo/backend/_upsample.py:_create_mesh")
    rec.assume("argmax over landscape data can be any in-range index (coarse and refined); map_coordinates returns data dependent values on the mesh it is given")
    msym = real(f"m{axis}")
    hi = 2 * box[axis]
    hyps = [msym.e >= 0, msym.e < hi]
    ms = list(others)
    ms.insert(axis, msym)
    ms = tuple(ms)
    names = {f"m{axis}"}
    tag = f"decode[{kind},box={box},axis={axis},others={others}]"
    rp = replay_planted(kind, tuple(s % 2 for s in box))
    rng = np.random.default_rng(1)
    img0 = rng.normal(size=box).astype(np.float32)
    img1 = rng.normal(size=box).astype(np.float32)
    import scipy.fft as sf

    f0, f1 = sf.fftn(img0), sf.fftn(img1)
    cap = {}
    orig_up = U.upsample

    def up_wrap(res, res_ori, max_shifts, pad_eff, backend):
        cap["res"], cap["res_ori"] = res, res_ori
        return orig_up(res, res_ori, max_shifts, pad_eff, backend)

    Z.upsample = up_wrap
    F.upsample = up_wrap
    orig_unravel, orig_mc = xp.unravel_index, xp.map_coordinates

    def unr(idx, shape):
        out = orig_unravel(idx, shape)
        cap.setdefault("unravel", []).append(out)
        return out

    def mc(inp, coords, **kw):
        out = orig_mc(inp, coords, **kw)
        cap["mesh"], cap["mc_input"] = getattr(out, "mesh", None), inp
        return out

    xp.unravel_index, xp.map_coordinates = unr, mc

    def run():
        cap.clear()
        if kind == "zncc":
            out = Z.subpixel_zncc(img0, img1, ms, xp)
        elif kind == "ncc":
            out = Z.subpixel_ncc(img0, img1, ms, xp)
        else:
            out = F.subpixel_fsc(f0, f1, ms, xp)
        return out, dict(cap)

    paths = explore(run, assumptions=hyps, max_paths=3000)
    n_ok = 0
    for pi, p in enumerate(paths):
        h = hyps + [p.condition()]
        if not p.ok:
            continue  # exceptions are C05's subject
        n_ok += 1
        (shifts, score), cp = p.result
        res, res_ori, mesh = cp.get("res"), cp.get("res_ori"), cp.get("mesh")
        unrav = cp.get("unravel", [])
        okcap = res is not None and mesh is not None and len(unrav) == 2 and cp.get("mc_input") is res_ori
        rec.fact(f"{tag}/path{pi}/one-coarse-argmax-on-the-cropped-landscape,one-interpolation-of-the-uncropped-landscape", bool(okcap), key=f"C04/{kind}/decode-structure", detail={})
        if not okcap:
            continue
        off = _view_offset(res, res_ori) if res is not res_ori else (0, 0, 0)
        coarse, local = unrav
        for a in range(3):
            ma = ratz(ms[a])
            if kind == "fsc":
                half = (res_ori.shape[a] - 1) // 2  # entry i of the FSC landscape <-> lag i - centre   (section fsc-semantics)
                lag_of = lambda coord, half=half: coord - half
                rec.query(f"{tag}/path{pi}/axis{a}/landscape-length-odd,covers-the-range", h, z3.And(res_ori.shape[a] % 2 == 1, half >= z3.ToInt(ma), off[a] == 0), key=f"C04/{kind}/landscape-geometry", names=names, replay=rp)
                coarse_lag = zr(coarse[a]) - half
            else:
                ctr = (res_ori.shape[a] - 1) // 2  # entry x of the uncropped landscape <-> lag x - centre   (section semantics)
                lag_of = lambda coord, ctr=ctr: coord - ctr
                rec.query(f"{tag}/path{pi}/axis{a}/uncropped-length-odd,crop-offset=centre-int(m),crop-length=2int(m)+1", h,
                          z3.And(res_ori.shape[a] % 2 == 1, off[a] == ctr - z3.ToInt(ma), res.shape[a] == 2 * z3.ToInt(ma) + 1), key=f"C04/{kind}/landscape-geometry", names=names, replay=rp)
                coarse_lag = zr(coarse[a]) - z3.ToInt(ma)
            rg = mesh.ranges[a]
            start, step, length = ratz(rat(rg.start)), ratz(rat(rg.step)), zi(rg.length)
            if _is_zero(step):  # a one-node range built from concrete data
                step = z3.RealVal(Fraction(1, UP))
            coord = start + zr(local[a]) * step
            rec.query(f"{tag}/path{pi}/axis{a}/shift=lag-of-the-sampled-position", h, ratz(shifts[a]) == lag_of(coord), key=f"C04/{kind}/shift-is-lag", names=names, replay=rp)
            # the node of the coarse maximum belongs to the mesh
            j0 = (zr(coarse[a]) + off[a] - start) / step
            rec.query(f"{tag}/path{pi}/axis{a}/coarse-peak-in-range=>it-is-a-mesh-node", h, z3.Implies(z3.And(coarse_lag <= ma, coarse_lag >= -ma), z3.And(step * UP == 1, j0 == z3.ToReal(z3.ToInt(j0)), j0 >= 0, j0 < z3.ToReal(length))), key=f"C04/{kind}/mesh-contains-coarse-peak",
                      names=names, replay=rp)
            # completeness: the mesh is the set of 1/20 nodes within +-1 px of the coarse peak whose lag is inside [-m, m]
            first, last = lag_of(start), lag_of(start + (z3.ToReal(length) - 1) * step)
            comp = z3.And(first >= -ma, first >= coarse_lag - 1, z3.Or(first - step < -ma, first - step < coarse_lag - 1),
                          last <= ma, last <= coarse_lag + 1, z3.Or(last + step > ma, last + step > coarse_lag + 1))
            rec.query(f"{tag}/path{pi}/axis{a}/mesh=all-nodes-within-1px-and-range", h, comp, key=f"C04/{kind}/mesh-complete", names=names, replay=rp)
    rec.extra[tag] = {"paths": len(paths), "completed": n_ok}
    if n_ok == 0:
        ok, det = rp({})
        rec.fact(f"{tag}/runs", False, key=f"C04/{kind}/decode-raises", detail={"exc": repr(paths[0].exc)[:200] if paths else "no path", **det}, reproduced=ok)


# ---------------------------------------------------------------------------------------
# section: PCC landscape semantics on symbolic voxels (exact DFT: sides 1, 2, 4)


def sec_pcc_semantics(rec, shape=(1, 2, 4), axis=2, patches=None):
    L = _load_sym(patches)
    P, xp = L["acryo.backend._pcc"], L.xp
    rec.encodes("acryo/backend/_pcc.py:pcc_landscape", "acryo/backend/_pcc.py:_abs2")
    rec.assume("scipy.fft.fftn / ifftn are the exact DFT and its inverse (axis lengths 1, 2, 4)")
    a, t = c07.img("a", shape), c07.img("t", shape)
    A, T = _obj(a), _obj(t)
    msym = real(f"m{axis}")
    mhi = Fraction(shape[axis] - 1, 2)
    hyps = [msym.e >= 0, msym.e <= mhi]
    ms = tuple(msym if k == axis else 0 for k in range(3))
    names = {f"m{axis}"}
    tag = f"pcc-semantics[{shape},axis={axis}]"
    rpl = replay_planted("pcc", tuple(s % 2 for s in shape), landscape=True)

    def run():
        return P.pcc_landscape(xp.fftn(a), xp.fftn(t), ms, xp)

    for pi, p in enumerate(explore(run, assumptions=hyps, max_paths=20)):
        h = hyps + [p.condition()]
        if not p.ok:
            ok, det = rpl({})
            rec.fact(f"{tag}/path{pi}/runs", False, key="C04/pcc/semantics-raises", detail={"exc": repr(p.exc)[:300], **det}, reproduced=ok)
            continue
        arr = _obj(p.result)
        ok = True
        for k in range(3):
            v = rec.query(f"{tag}/path{pi}/len{k}=2int(m)+1", h, 2 * z3.ToInt(zr(ms[k])) + 1 == arr.shape[k], key="C04/pcc/landscape-shape", names=names, replay=rpl)
            ok = ok and v.status == "holds"
        if not ok:
            continue
        half = [(n - 1) // 2 for n in arr.shape]
        for r in np.ndindex(arr.shape):
            lag = tuple(r[k] - half[k] for k in range(3))
            cc = sum((zr(A[tuple((k[j] + lag[j]) % shape[j] for j in range(3))]) * zr(T[k]) for k in np.ndindex(shape)), z3.RealVal(0))
            rec.query(f"{tag}/path{pi}/entry{r}=(circular-cross-correlation-at-lag{lag})^2", h, zr(arr[r]) == cc * cc, key="C04/pcc/entry-lag", names=names, replay=rpl, twin=False, nonlinear=True)


# ---------------------------------------------------------------------------------------
# section: PCC index bookkeeping for any box (odd, even): the inverse FFT is replaced by an array of position codes


class TagFFT:
    """ifftn returns an array whose entry at index (i,j,k) encodes (i,j,k): re = 1 + i + 100 j + 10000 k, so that _abs2 = code^2"""

    def __getattr__(self, name):
        import scipy.fft as sf

        return getattr(sf, name)

    @staticmethod
    def ifftn(x, s=None, axes=None, **kw):
        ii = np.indices(np.shape(x))
        return (1 + ii[0] + 100 * ii[1] + 10000 * ii[2]).astype(np.complex128)


def _decode_codes(power):
    code = np.rint(np.sqrt(np.asarray(power, dtype=np.float64))).astype(np.int64) - 1
    return np.stack([code % 100, (code // 100) % 100, code // 10000], axis=0)


def _lookup(table, j):
    """z3 term table[j] for a symbolic index j"""
    out = z3.IntVal(int(table[-1]))
    for k in range(len(table) - 2, -1, -1):
        out = z3.If(j == k, z3.IntVal(int(table[k])), out)
    return out


def sec_pcc_index(rec, box=(5, 4, 7), axis=0, patches=None):
    L = _load_blind(patches)
    xp = _backend_blind(L, TagFFT())
    P = L["acryo.backend._pcc"]
    rec.encodes("acryo/backend/_pcc.py:pcc_landscape (index bookkeeping)")
    rec.assume("ifftn(f0 * conj(f1))[i] is the circular cross-correlation at lag i mod s (cross-correlation theorem; decided on symbolic voxels for sides 1,2,4 in pcc-semantics): here it returns position codes")
    msym = real(f"m{axis}")
    hyps = [msym.e >= 0, msym.e <= Fraction(box[axis] - 1, 2)]
    ms = tuple(msym if k == axis else Fraction(min(1, (box[k] - 1) // 2)) for k in range(3))
    names = {f"m{axis}"}
    tag = f"pcc-index[box={box},axis={axis}]"
    rpl = replay_planted("pcc", tuple(s % 2 for s in box), landscape=True)
    f = np.ones(box, dtype=np.complex64)

    def run():
        return P.pcc_landscape(f, f, ms, xp)

    for pi, p in enumerate(explore(run, assumptions=hyps, max_paths=60)):
        h = hyps + [p.condition()]
        if not p.ok:
            ok, det = rpl({})
            rec.fact(f"{tag}/path{pi}/runs", False, key="C04/pcc/index-raises", detail={"exc": repr(p.exc)[:300], **det}, reproduced=ok)
            continue
        arr = np.asarray(p.result)
        idx = _decode_codes(arr)
        for k in range(3):
            mk = zr(ms[k])
            v = rec.query(f"{tag}/path{pi}/len{k}=2int(m)+1", h, 2 * z3.ToInt(mk) + 1 == arr.shape[k], key="C04/pcc/landscape-shape", names=names, replay=rpl)
            if v.status != "holds":
                continue
            half = (arr.shape[k] - 1) // 2
            for r in range(arr.shape[k]):
                sl = [0, 0, 0]
                sl[k] = r
                orig = int(idx[k][tuple(sl)])
                sep = bool(np.all(np.take(idx[k], r, axis=k) == orig))
                okk = sep and orig == (r - half) % box[k]
                rec.fact(f"{tag}/path{pi}/axis{k}/entry{r}<->lag{r - half}", okk, key="C04/pcc/landscape-index", detail={"original_index": orig, "box_side": box[k], "entry": r, "expected_lag": r - half},
                         reproduced=True if okk else rpl({})[0])


def sec_pcc_decode(rec, box=(5, 4, 6), axis=0, others=(0.0, 1.25), patches=None):
    L = _load_blind(patches)
    xp = _backend_blind(L, TagFFT())
    P = L["acryo.backend._pcc"]
    rec.encodes("acryo/backend/_pcc.py:subpixel_pcc", "acryo/backend/_pcc.py:crop_by_max_shifts")
    rec.assume("ifftn returns position codes (see pcc-index); _upsampled_dft(data, size, up, offsets) returns data dependent values of shape (size,)*3 whose index n has lag (n - offset)/up (decided in section updft); "
               "argmax can be any in-range index")
    msym = real(f"m{axis}")
    hyps = [msym.e >= 0, msym.e < 2 * box[axis]]
    ms = list(others)
    ms.insert(axis, msym)
    ms = tuple(ms)
    names = {f"m{axis}"}
    tag = f"pcc-decode[box={box},axis={axis},others={others}]"
    rp = replay_planted("pcc", tuple(s % 2 for s in box))
    rng = np.random.default_rng(2)
    f0 = (rng.normal(size=box) + 1j * rng.normal(size=box)).astype(np.complex64)
    f1 = (rng.normal(size=box) + 1j * rng.normal(size=box)).astype(np.complex64)
    cap = {}

    def updft(data, size, factor, offs, backend):
        cap["updft"] = (data, size, factor, offs)
        return ShapeOnly((size,) * data.ndim)

    P._upsampled_dft = updft
    orig_unravel, orig_argmax = xp.unravel_index, xp.argmax

    def unr(idx, shape):
        out = orig_unravel(idx, shape)
        cap.setdefault("unravel", []).append(out)
        return out

    def amax(x, axis=None):
        cap.setdefault("argmax_of", []).append(x)
        return orig_argmax(x, axis=axis)

    xp.unravel_index, xp.argmax = unr, amax

    def run():
        cap.clear()
        out = P.subpixel_pcc(f0, f1, UP, ms, xp)
        return out, dict(cap)

    paths = explore(run, assumptions=hyps, max_paths=3000)
    n_ok = 0
    for pi, p in enumerate(paths):
        h = hyps + [p.condition()]
        if not p.ok:
            continue
        n_ok += 1
        (shifts, score), cp = p.result
        unrav, amx, ud = cp.get("unravel", []), cp.get("argmax_of", []), cp.get("updft")
        okcap = len(unrav) == 2 and len(amx) == 2 and ud is not None and isinstance(amx[0], np.ndarray) and isinstance(amx[1], ShapeOnly)
        rec.fact(f"{tag}/path{pi}/coarse-argmax-then-one-upsampled-dft-then-refined-argmax", bool(okcap), key="C04/pcc/decode-structure", detail={})
        if not okcap:
            continue
        data, size, factor, offs = ud
        want = (f0 * f1.conj()).conj()
        okd = bool(np.shape(data) == want.shape and np.allclose(np.asarray(data), want) and factor == UP)
        rec.fact(f"{tag}/path{pi}/upsampled-dft-of-conj(f0*conj(f1)),factor-20", okd, key="C04/pcc/updft-input", detail={}, reproduced=True if okd else rp({})[0])
        idx = _decode_codes(amx[0])
        coarse, local = unrav
        win = amx[1]
        key = win.origin[2] if (win.origin and win.origin[0] == "slice") else None
        if key is None:
            rec.fact(f"{tag}/path{pi}/refined-argmax-on-a-slice-of-the-upsampled-dft", False, key="C04/pcc/decode-structure", detail={"origin": repr(win.origin)[:80]})
            continue
        for a in range(3):
            ma = ratz(ms[a])
            s_a = box[a]
            # coarse: lag of the original index that sits at the cropped position
            sl = [0, 0, 0]
            tab = []
            for r in range(amx[0].shape[a]):
                sl[a] = r
                tab.append(int(idx[a][tuple(sl)]))
            orig = _lookup(tab, zi(coarse[a]))
            off = ratz(offs[a])
            coarse_lag = (z3.RealVal(size // 2) - off) / UP  # the region is centred (index size//2) on the coarse estimate
            rec.query(f"{tag}/path{pi}/axis{a}/coarse-estimate=lag-of-the-coarse-peak (mod box side)", h,
                      z3.And(coarse_lag == z3.ToReal(z3.ToInt(coarse_lag)), (z3.ToInt(coarse_lag) - orig) % s_a == 0, 2 * coarse_lag <= s_a, 2 * coarse_lag >= -s_a), key="C04/pcc/coarse-lag", names=names, replay=rp)
            start = zr(key[a].start if key[a].start is not None else 0)
            stop = start + zr(win.shape[a])
            n = zr(local[a]) + start
            lag_n = lambda nn, off=off: (nn - off) / UP
            rec.query(f"{tag}/path{pi}/axis{a}/shift=lag-of-the-refined-peak", h, ratz(shifts[a]) == lag_n(n), key="C04/pcc/shift-is-lag", names=names, replay=rp)
            rec.query(f"{tag}/path{pi}/axis{a}/coarse-peak-inside-the-refinement-window", h, z3.And(z3.RealVal(size // 2) >= start, z3.RealVal(size // 2) < stop), key="C04/pcc/window-contains-coarse-peak", names=names, replay=rp)
            comp = z3.And(lag_n(start) >= -ma, z3.Or(start == 0, lag_n(start - 1) < -ma), lag_n(stop - 1) <= ma, z3.Or(stop == size, lag_n(stop) > ma))
            rec.query(f"{tag}/path{pi}/axis{a}/window=all-upsampled-nodes-with-lag-in-range", h, comp, key="C04/pcc/window-complete", names=names, replay=rp)
    rec.extra[tag] = {"paths": len(paths), "completed": n_ok}
    if n_ok == 0:
        ok, det = rp({})
        rec.fact(f"{tag}/runs", False, key="C04/pcc/decode-raises", detail={"exc": repr(paths[0].exc)[:200] if paths else "no path", **det}, reproduced=ok)


# ---------------------------------------------------------------------------------------
# section: the matrix-DFT kernel of the PCC refinement, and the FSC phase ramps (exp arguments recorded, any box side)


class _PiNP:
    pass


def _pi_np():
    from symx.npshim import SymNP

    class PiNP(SymNP):
        @property
        def pi(self):
            return C.SymComplex(real("PI"), 0)

    return PiNP()


class _Kernel:
    def __init__(self, arg):
        self.arg = arg
        self.shape = np.shape(arg)


class _Data:
    """stand-in for the spectrum: only its axes (name, length, kernel that produced it) are tracked"""

    def __init__(self, axes):
        self.axes = tuple(axes)
        self.ndim = len(self.axes)
        self.shape = tuple(a[1] for a in self.axes)


def _freq(n, d=1):
    return to_symarray(np.array([Fraction(k if k < (n + 1) // 2 else k - n, n * int(d)) for k in range(n)], dtype=object))


def sec_updft(rec, box=(3, 4, 5), size=7, patches=None):
    L = load.load(["acryo.backend._api", "acryo.backend._pcc"], overrides={"np": _pi_np()}, patches=patches)
    P, API = L["acryo.backend._pcc"], L["acryo.backend._api"]
    xp = stubs.make_backend(API, API.np, stubs.NdiStub(), None)
    rec.encodes("acryo/backend/_pcc.py:_upsampled_dft")
    rec.assume("exp and tensordot are recorded, not evaluated: tensordot(kernel[U,N], data[...,N], axes=(1,-1)) contracts the last data axis and puts the new axis first; "
               "fftfreq(n, d)[k] = k'/(n d) with k' the signed frequency index; pi is a symbolic constant")
    bad = []

    def fexp(x):
        return _Kernel(x)

    def ftd(k, d, axes=2):
        if tuple(axes) != (1, -1) or not isinstance(k, _Kernel) or k.shape[1] != d.shape[-1]:
            bad.append(("tensordot", repr(axes), k.shape, d.shape))
        return _Data((("U", k.shape[0], k),) + d.axes[:-1])

    xp.exp, xp.tensordot, xp.fftfreq = fexp, ftd, lambda n, d=1.0: _freq(n, d)
    offs = [real(f"off{a}") for a in range(3)]
    PI = real("PI").e
    data = _Data(tuple((nm, n, None) for nm, n in zip("zyx", box)))
    tag = f"updft[box={box},size={size}]"
    rp = replay_planted("pcc", tuple(s % 2 for s in box))
    for pi, p in enumerate(explore(lambda: P._upsampled_dft(data, size, UP, to_symarray(offs), xp), max_paths=5)):
        if not p.ok:
            rec.fact(f"{tag}/runs", False, key="C04/pcc/updft-raises", detail={"exc": repr(p.exc)[:300]}, reproduced=rp({})[0])
            continue
        out = p.result
        okax = isinstance(out, _Data) and out.shape == (size,) * 3 and not bad and all(a[2] is not None and a[2].shape == (size, n) for a, n in zip(out.axes, box))
        rec.fact(f"{tag}/three-contractions,output-axes-in-zyx-order", bool(okax), key="C04/pcc/updft-axes", detail={"bad": repr(bad)[:200], "shape": repr(getattr(out, "shape", None))}, reproduced=True if okax else rp({})[0])
        if not okax:
            continue
        for a in range(3):
            K = _obj(out.axes[a][2].arg)
            N = box[a]
            for n in range(size):
                for k in range(N):
                    kk = k if k < (N + 1) // 2 else k - N
                    v = K[n, k]
                    re, im = (zr(v.re), zr(v.im)) if isinstance(v, C.SymComplex) else (zr(v), z3.RealVal(0))
                    rec.query(f"{tag}/axis{a}/kernel[n={n},k={k}]=exp(-2 pi i (n-off) k'/(N up))", [], z3.And(re == 0, im == -2 * PI * (n - offs[a].e) * Fraction(kk, N * UP)), key="C04/pcc/updft-kernel", replay=rp, twin=False,
                              nonlinear=True)


def sec_fsc_phases(rec, box=(3, 4, 5), m=(1.0, 0.5, 2.0), patches=None):
    L = load.load(["acryo.backend._api", "acryo.backend._fsc", "acryo.backend._upsample"], overrides={"np": _pi_np()}, patches=patches)
    F, API = L["acryo.backend._fsc"], L["acryo.backend._api"]
    xp = stubs.make_backend(API, API.np, stubs.NdiStub(), None)
    rec.encodes("acryo/backend/_fsc.py:_get_phases", "acryo/backend/_fsc.py:_get_phase_1d")
    rec.assume("exp is recorded, not evaluated; fftfreq(n)[k] = k'/n; shift theorem: multiplying the spectrum of a by exp(2 pi i x0 f) gives the spectrum of a displaced to a[k + x0] (decided for sides 1,2,4 in fsc-semantics)")
    xp.exp = lambda x: _Kernel(x)
    xp.fftfreq = lambda n, d=1.0: _freq(n, d)
    PI = real("PI").e
    out_shape = tuple(int(math.ceil(v)) * 2 + 1 for v in m)
    tag = f"fsc-phases[box={box},out={out_shape}]"
    rp = replay_planted("fsc", tuple(s % 2 for s in box))
    for p in explore(lambda: F._get_phases(box, out_shape, xp), max_paths=5):
        if not p.ok:
            rec.fact(f"{tag}/runs", False, key="C04/fsc/phases-raises", detail={"exc": repr(p.exc)[:300]}, reproduced=rp({})[0])
            continue
        for a, ph in enumerate(p.result):
            oklen = len(ph) == out_shape[a] and all(isinstance(k, _Kernel) and k.shape == tuple(box) for k in ph)
            rec.fact(f"{tag}/axis{a}/one-phase-array-per-landscape-entry", bool(oklen), key="C04/fsc/phases-shape", detail={"n": len(ph)}, reproduced=True if oklen else rp({})[0])
            if not oklen:
                continue
            half = (out_shape[a] - 1) // 2
            for j, k in enumerate(ph):
                K = _obj(k.arg)
                goal = []
                for idx in np.ndindex(tuple(box)):
                    kk = idx[a] if idx[a] < (box[a] + 1) // 2 else idx[a] - box[a]
                    v = K[idx]
                    re, im = (zr(v.re), zr(v.im)) if isinstance(v, C.SymComplex) else (zr(v), z3.RealVal(0))
                    goal.append(z3.And(re == 0, im == 2 * PI * (j - half) * Fraction(kk, box[a])))
                rec.query(f"{tag}/axis{a}/phase[{j}]=exp(2 pi i (j-centre) f_axis)", [], z3.And(*goal), key="C04/fsc/phase-lag", replay=rp, twin=False, nonlinear=True)


def _exact_exp(x):
    """exp(i c PI) for c a multiple of 1/2: exact (quarter turns); anything else is outside the exact stub"""
    PI = real("PI").e

    def one(v):
        v = C.SymComplex.of(v)
        re, im = z3.simplify(zr(v.re)), z3.simplify(z3.substitute(zr(v.im), (PI, z3.RealVal(1))))
        lin = z3.simplify(zr(v.im) - im * PI)
        if not (_is_zero(re) and z3.is_rational_value(im) and (_is_zero(lin) or smt.ring_identity(zr(v.im) == im * PI))):
            raise C.Unsupported("exp of a non-quarter-turn phase in the exact stub")
        c = Fraction(im.as_fraction()) * 2
        if c.denominator != 1:
            raise C.Unsupported("exp of a non-quarter-turn phase in the exact stub")
        co, si = {0: (1, 0), 1: (0, 1), 2: (-1, 0), 3: (0, -1)}[int(c) % 4]
        return C.SymComplex(co, si)

    arr = _obj(to_symarray(x))
    out = np.empty(arr.shape, dtype=object)
    for k in np.ndindex(arr.shape):
        out[k] = one(arr[k])
    return out.view(SymArray)


def _load_sym_pi(patches=None):
    stubs.patch_dask_from_delayed()
    L = load.load(c07.MODS, overrides={"Rotation": rotation.SymRotation, "np": _pi_np()}, patches=patches)
    API = L["acryo.backend._api"]
    xp = stubs.make_backend(API, API.np, stubs.NdiStub(), FFTStub("exact"))
    L["acryo.alignment._base"].Backend = lambda *a, **k: xp
    xp.exp = _exact_exp
    xp.fftfreq = lambda n, d=1.0: _freq(n, d)
    L.xp = xp
    return L


def sec_fsc_semantics(rec, shape=(1, 2, 4), m=(0, 0.5, 1.0), patches=None):
    """exact DFT: the covariance / power terms summed for landscape entry r are those of the sub-volume displaced to a[k + r - centre]"""
    L = _load_sym_pi(patches)
    F, xp = L["acryo.backend._fsc"], L.xp
    rec.encodes("acryo/backend/_fsc.py:fsc_landscape", "acryo/backend/_fsc.py:_get_phases", "acryo/backend/_fsc.py:_get_radial_label")
    rec.assume("scipy.fft.fftn is the exact DFT (axis lengths 1, 2, 4); exp of quarter-turn phases is exact")
    a, t = c07.img("a", shape), c07.img("t", shape)
    A = _obj(a)
    tag = f"fsc-semantics[{shape},m={m}]"
    rp = replay_planted("fsc", tuple(s % 2 for s in shape))
    seen = []
    orig_sl = xp.sum_labels

    def sl(inp, labels=None, index=None):
        seen.append(inp)
        return orig_sl(inp, labels=labels, index=index)

    xp.sum_labels = sl
    C.SQRT_MODE["opaque"] = True
    try:
        def run():
            del seen[:]
            out = F.fsc_landscape(xp.fftn(a), xp.fftn(t), m, xp)
            return out, list(seen)

        for pi, p in enumerate(explore(run, max_paths=40)):
            if not p.ok:
                rec.fact(f"{tag}/path{pi}/runs", False, key="C04/fsc/semantics-raises", detail={"exc": repr(p.exc)[:300]}, reproduced=rp({})[0])
                continue
            out, calls = p.result
            oshape = tuple(np.shape(out))
            n_e = int(np.prod(oshape))
            okn = all(s % 2 == 1 for s in oshape) and len(calls) == 1 + 2 * n_e
            rec.fact(f"{tag}/path{pi}/odd-landscape,two-shell-sums-per-entry", bool(okn), key="C04/fsc/structure", detail={"shape": list(oshape), "calls": len(calls)}, reproduced=True if okn else rp({})[0])
            if not okn:
                continue
            ft = _obj(xp.fftn(t))
            for e, r in enumerate(np.ndindex(oshape)):
                lag = tuple(r[k] - (oshape[k] - 1) // 2 for k in range(3))
                rolled = SymArray(shape=shape)
                for k in np.ndindex(shape):
                    rolled[k] = A[tuple((k[j] + lag[j]) % shape[j] for j in range(3))]
                fr = _obj(xp.fftn(rolled))
                # the two shell sums of this entry (power of the displaced sub-volume, cross-spectrum with the template), in whichever order the code takes them
                pair = (_obj(calls[1 + 2 * e]), _obj(calls[2 + 2 * e]))
                g1, g2 = ([], []), ([], [])
                for k in np.ndindex(shape):
                    x, y = C.SymComplex.of(fr[k]), C.SymComplex.of(ft[k])
                    for w in range(2):
                        g1[w].append(zr(pair[w][k]) == zr(x.re) * zr(y.re) + zr(x.im) * zr(y.im))
                        g2[w].append(zr(pair[1 - w][k]) == zr(x.re) * zr(x.re) + zr(x.im) * zr(x.im))
                both = z3.Or(z3.And(*g1[0], *g2[0]), z3.And(*g1[1], *g2[1]))
                rec.query(f"{tag}/path{pi}/entry{r}/cross-spectrum-of-(sub-volume-at-lag{lag},template)", [p.condition()], z3.Or(z3.And(*g1[0]), z3.And(*g1[1])), key="C04/fsc/entry-lag", replay=rp, twin=False)
                rec.query(f"{tag}/path{pi}/entry{r}/power-of-sub-volume-at-lag{lag}", [p.condition()], z3.Or(z3.And(*g2[0]), z3.And(*g2[1])), key="C04/fsc/entry-lag", replay=rp, twin=False)
                rec.query(f"{tag}/path{pi}/entry{r}/one-shell-sum-each-for-the-power-and-the-cross-spectrum", [p.condition()], both, key="C04/fsc/entry-lag", replay=rp, twin=False)
    finally:
        C.SQRT_MODE["opaque"] = False


# ---------------------------------------------------------------------------------------
# section: model-level plumbing: argument order, identity rotation, the fit transform


def sec_plumbing(rec, kind="zncc", shape=(1, 2, 2), patches=None):
    L = _load_sym(patches)
    B, CC, xp = L["acryo.alignment._base"], L["acryo.alignment._concrete"], L.xp
    name = {"zncc": "ZNCCAlignment", "ncc": "NCCAlignment", "pcc": "PCCAlignment", "fsc": "FSCAlignment"}[kind]
    rec.encodes(f"acryo/alignment/_concrete.py:{name}._optimize", "acryo/alignment/_base.py:BaseAlignmentModel.align", "acryo/alignment/_base.py:BaseAlignmentModel.fit",
                "acryo/alignment/_base.py:BaseAlignmentModel._optimize_single", "acryo/alignment/_base.py:TomographyInput.pre_transform", "acryo/alignment/_base.py:AlignmentResult.affine_matrix",
                "acryo/_utils.py:compose_matrices")
    rec.assume("the backend sub-pixel routine is replaced by a stand-in that records its arguments and returns a symbolic (shift, score); fftn/ifftn exact (sides 1,2); affine_transform recorded: out[o] = in[M o]")
    a, t, mk = c07.img("a", shape), c07.img("t", shape), c07.img("mask", shape)
    sh = [real(f"shift{k}") for k in range(3)]
    sc = real("score")
    ms = tuple(real(f"m{k}") for k in range(3))
    hyps = [x.e >= 0 for x in ms]
    cap = {}
    fn = {"zncc": "subpixel_zncc", "ncc": "subpixel_ncc", "pcc": "subpixel_pcc", "fsc": "subpixel_fsc"}[kind]

    def stand_in(img0, img1, *args, **kw):
        cap.setdefault("args", []).append((img0, img1, args, kw))
        return to_symarray(sh), sc

    setattr(CC, fn, stand_in)
    lfn = {"zncc": "zncc_landscape_with_crop", "ncc": "ncc_landscape_with_crop", "pcc": "pcc_landscape", "fsc": "fsc_landscape"}[kind]
    lsent = object()

    def land_stand_in(img0, img1, *args, **kw):
        cap["land"] = (img0, img1, args, kw)
        return lsent

    setattr(CC, lfn, land_stand_in)
    xp.asnumpy = lambda x: x
    Model = getattr(CC, name)
    tag = f"plumbing[{kind}]"
    rp = replay_planted(kind, tuple(s % 2 for s in shape))

    def run():
        cap.clear()
        model = Model(t, mk)
        res = model.align(a, ms, backend=xp)
        del xp._ndi_.calls[:]
        fitted, res2 = model.fit(a, ms, backend=xp)
        cap["land_out"] = model.landscape(a, ms, backend=xp)
        return res, dict(cap), fitted, res2, list(xp._ndi_.calls)

    for pi, p in enumerate(explore(run, assumptions=hyps, max_paths=10)):
        h = hyps + [p.condition()]
        if not p.ok:
            rec.fact(f"{tag}/path{pi}/runs", False, key=f"C04/{kind}/plumbing-raises", detail={"exc": repr(p.exc)[:300]}, reproduced=rp({})[0])
            continue
        res, cp, fitted, res2, calls = p.result
        A_, T_, M_ = _obj(a), _obj(t), _obj(mk)
        okn = len(cp.get("args", [])) == 2
        rec.fact(f"{tag}/path{pi}/one-backend-call-per-align-and-per-fit", okn, key=f"C04/{kind}/plumbing-structure", detail={"calls": len(cp.get("args", []))}, reproduced=True if okn else rp({})[0])
        if not okn:
            continue
        want0 = SymArray(shape=shape)
        want1 = SymArray(shape=shape)
        for k in np.ndindex(shape):
            want0[k] = A_[k] * M_[k]
            want1[k] = T_[k] * M_[k]
        if kind in ("pcc", "fsc"):
            want0, want1 = xp.fftn(want0), xp.fftn(want1)
        okl = cp.get("land") is not None and cp.get("land_out") is lsent
        rec.fact(f"{tag}/path{pi}/landscape()-returns-the-backend-landscape", bool(okl), key=f"C04/{kind}/landscape-plumbing", detail={}, reproduced=True if okl else rp({})[0])
        for via, (img0, img1, args, kw) in zip(("align", "fit", "landscape"), cp["args"] + ([cp["land"]] if okl else [])):
            g = []
            okshape = np.shape(img0) == tuple(shape) and np.shape(img1) == tuple(shape)
            if okshape:
                for k in np.ndindex(shape):
                    for got, want in ((_obj(img0)[k], _obj(want0)[k]), (_obj(img1)[k], _obj(want1)[k])):
                        x, y = C.SymComplex.of(got), C.SymComplex.of(want)
                        g.append(z3.And(zr(x.re) == zr(y.re), zr(x.im) == zr(y.im)))
            rec.query(f"{tag}/path{pi}/{via}/backend-gets-(sub-volume*mask,template*mask)-in-this-order", h, z3.And(*g) if okshape else z3.BoolVal(False), key=f"C04/{kind}/argument-order", replay=rp, twin=False)
            mpass = kw.get("max_shifts", (args[-2] if kind == "pcc" and via != "landscape" and len(args) >= 2 else (args[0] if args else None)))
            okm = mpass is not None and len(tuple(mpass)) == 3
            rec.query(f"{tag}/path{pi}/{via}/max_shifts-passed-unchanged", h, z3.And(*[zr(x) == y.e for x, y in zip(mpass, ms)]) if okm else z3.BoolVal(False), key=f"C04/{kind}/max-shifts-passed", replay=rp, twin=False)
            if kind == "pcc" and via != "landscape":
                rec.fact(f"{tag}/path{pi}/{via}/upsample_factor=20", kw.get("upsample_factor", args[0] if args else None) == UP, key="C04/pcc/upsample-factor", detail={}, reproduced=None)
        for nm, r in (("align", res), ("fit", res2)):
            rec.query(f"{tag}/path{pi}/{nm}/shift-is-the-backend-shift", h, z3.And(*[zr(r.shift[k]) == sh[k].e for k in range(3)]), key=f"C04/{kind}/shift-passed", replay=rp, twin=False)
            q = [zr(v) for v in np.asarray(_obj(to_symarray(r.quat))).reshape(-1)]
            rec.query(f"{tag}/path{pi}/{nm}/identity-rotation", h, z3.And(q[0] == 0, q[1] == 0, q[2] == 0, q[3] == 1) if len(q) == 4 else z3.BoolVal(False), key=f"C04/{kind}/identity-rotation", replay=rp, twin=False)
            rec.query(f"{tag}/path{pi}/{nm}/score-is-the-backend-score", h, zr(r.score) == sc.e, key=f"C04/{kind}/score-passed", replay=rp, twin=False)
        aff = [c for c in calls if c.kind == "affine_transform"]
        okf = len(aff) == 1 and aff[0].src is not None and fitted is aff[0]
        rec.fact(f"{tag}/path{pi}/fit/one-affine-transform-of-the-input", bool(okf), key=f"C04/{kind}/fit-structure", detail={"n": len(aff)}, reproduced=True if okf else rp({})[0])
        if okf:
            M = _obj(to_symarray(aff[0].matrix))
            src = _obj(to_symarray(aff[0].src))
            g = [zr(src[k]) == zr(A_[k]) for k in np.ndindex(shape)]
            for i in range(3):
                for j in range(3):
                    g.append(zr(M[i, j]) == (1 if i == j else 0))
                g.append(zr(M[i, 3]) == sh[i].e)
            rec.query(f"{tag}/path{pi}/fit/output[o]=sub-volume[o+shift]", h, z3.And(*g), key=f"C04/{kind}/fit-transform", replay=rp, twin=False)


# ---------------------------------------------------------------------------------------
# section: the up-sampled landscape of model.landscape(..., upsample=u): entry j <-> lag (j - int(m u)) / u


def replay_landscape_multi(kind):
    """installed library: with several searched rotations, every up-sampled landscape peaks at the planted integer displacement"""

    def run(cex):
        from scipy import ndimage as ndi
        from scipy.spatial.transform import Rotation
        from acryo.alignment import ZNCCAlignment, NCCAlignment, PCCAlignment, FSCAlignment

        Model = {"zncc": ZNCCAlignment, "ncc": NCCAlignment, "pcc": PCCAlignment, "fsc": FSCAlignment}[kind]
        bad = []
        for shape in ((16, 17, 15), (16, 16, 16)):
            tmpl = _template(shape)
            for K in (1, 2, 3, 5):
                model = Model(tmpl, rotations=Rotation.from_rotvec([[0.0, 0.0, 0.0]] + [[0.4 * k, 0.0, 0.2] for k in range(1, K)])) if K > 1 else Model(tmpl)
                for d, ms, up in (((1, 0, -1), (2.0, 2.5, 2.0), 4), ((0, 2, 1), (2.0, 2.5, 2.0), 4), ((2, -2, 1), (2.9, 2.9, 2.9), 2), ((-2, 1, 2), (2.3, 2.9, 3.4), 3)):
                    sub = ndi.shift(tmpl, d, order=1, mode="constant").astype(np.float32)
                    try:
                        lds = np.asarray(model.landscape(sub, ms, upsample=up))
                    except Exception as e:
                        bad.append({"K": K, "raised": repr(e)[:100]})
                        continue
                    best = lds[0] if K > 1 else lds  # the un-rotated candidate
                    pk = (np.array(np.unravel_index(np.argmax(best), best.shape), dtype=float) - (np.array(best.shape) - 1) / 2) / up
                    if np.abs(pk - np.array(d)).max() > 0.26:
                        bad.append({"shape": list(shape), "K": K, "d": list(d), "max_shifts": list(ms), "upsample": up, "peak_of_candidate_0": pk.tolist()})
        return len(bad) > 0, {"model": kind, "n": len(bad), "examples": bad[:4]}

    return run


def sec_landscape_upsampled(rec, kind="zncc", box=(6, 5, 7), axis=0, u=4, others=(1.0, 0.5), K=1, patches=None):
    import scipy.fft as sfft

    stubs.patch_dask_from_delayed()
    L = load.load(c07.MODS, overrides={"np": BlindNP(symbolic_float_arrays=False)}, patches=patches)
    API = L["acryo.backend._api"]
    xp = stubs.make_backend(API, API.np, stubs.HybridNdi(), sfft)
    B, CC = L["acryo.alignment._base"], L["acryo.alignment._concrete"]
    B.Backend = lambda *a, **k: xp
    name = {"zncc": "ZNCCAlignment", "ncc": "NCCAlignment", "pcc": "PCCAlignment", "fsc": "FSCAlignment"}[kind]
    rec.encodes("acryo/alignment/_base.py:BaseAlignmentModel.landscape", "acryo/backend/_mesh.py:build_mesh", f"acryo/alignment/_concrete.py:{name}._landscape")
    rec.assume("the un-sampled landscape (computed on concrete data with max_shifts + 2) has its zero lag at its centre entry (sections semantics / pcc-index / fsc-phases); map_coordinates samples it at the recorded mesh")
    cap = {}
    orig = xp.map_coordinates

    def mc(inp, coords, **kw):
        out = orig(inp, coords, **kw)
        cap["mesh"], cap["inp"] = getattr(out, "mesh", None), inp
        cap.setdefault("all", []).append((getattr(out, "mesh", None), inp))
        return out

    xp.map_coordinates = mc
    rng = np.random.default_rng(0)
    t = rng.normal(size=box).astype(np.float32)
    a = rng.normal(size=box).astype(np.float32)
    msym = real(f"m{axis}")
    hyps = [msym.e >= 0, msym.e <= Fraction(box[axis] - 1, 2) - 2 if kind == "pcc" else msym.e <= box[axis]]
    ms = list(others)
    ms.insert(axis, msym)
    ms = tuple(ms)
    names = {f"m{axis}"}
    tag = f"landscape-upsampled[{kind},box={box},axis={axis},u={u}{',K=' + str(K) if K > 1 else ''}]"
    rpl = replay_landscape_multi(kind)

    def run():
        cap.clear()
        if K > 1:
            from scipy.spatial.transform import Rotation as _R

            model = getattr(CC, name)(t, rotations=_R.from_rotvec([[0.0, 0.0, 0.0]] + [[0.3 * k, 0.1, 0.0] for k in range(1, K)]))
        else:
            model = getattr(CC, name)(t)
        out = model.landscape(a, ms, upsample=u, backend=xp)
        return out, dict(cap)

    paths = explore(run, assumptions=hyps, max_paths=200)
    n_ok = 0
    for pi, p in enumerate(paths):
        h = hyps + [p.condition()]
        if not p.ok:
            ok, det = rpl({})
            rec.fact(f"{tag}/path{pi}/runs", False, key=f"C04/{kind}/landscape-upsampled-raises", detail={"exc": repr(p.exc)[:300], **det}, reproduced=ok)
            continue
        n_ok += 1
        out, cp = p.result
        mesh, inp = cp.get("mesh"), cp.get("inp")
        okcap = mesh is not None and inp is not None and tuple(np.shape(out)) == tuple(mesh.shape[-3:]) if hasattr(mesh, "shape") else False
        rec.fact(f"{tag}/path{pi}/result-is-the-landscape-sampled-on-one-mesh", bool(mesh is not None and inp is not None), key=f"C04/{kind}/landscape-upsampled-structure", detail={}, reproduced=True if mesh is not None else rpl({})[0])
        if mesh is None or inp is None:
            continue
        allm = cp.get("all", [])
        okk = len(allm) == K and all(m_ is not None and np.ndim(i_) == 3 for m_, i_ in allm)
        rec.fact(f"{tag}/path{pi}/one-3-D-interpolation-per-candidate", bool(okk), key=f"C04/{kind}/landscape-upsampled-structure", detail={"n": len(allm)}, reproduced=True if okk else rpl({})[0])
        for ci, (mesh, inp) in enumerate(allm if okk else []):
          for k in range(3):
            mk = ratz(ms[k])
            n = np.shape(inp)[k]
            W = z3.ToInt(mk * u)
            rg = mesh.ranges[k]
            start, step, length = ratz(rat(rg.start)), ratz(rat(rg.step)), zi(rg.length)
            ctr = Fraction(n - 1, 2)
            goal = z3.And(n % 2 == 1, length == 2 * W + 1, start - ctr == -z3.ToReal(W) / u, z3.Or(W == 0, step * u == 1))
            rec.query(f"{tag}/path{pi}/cand{ci}/axis{k}/entry-j<->lag-(j-int(m*u))/u", h, goal, key=f"C04/{kind}/landscape-upsampled-lag", names=names, replay=rpl)
    if n_ok == 0:
        rec.fact(f"{tag}/runs", False, key=f"C04/{kind}/landscape-upsampled-raises", detail={"exc": repr(paths[0].exc)[:200] if paths else "no path"}, reproduced=rpl({})[0])


def sec_candidates(rec, patches=None):
    """with several templates (and no rotation search) every template is correlated with the sub-volume under the shared mask: the bank of (template, mask) pairs is complete and
    every pair is scored once (executed by C06's ordering and decode sections for T = 2, K = 1 and T = 2, K = 2)"""
    from .c06 import sec_ordering, sec_decode

    for T, K in ((2, 1), (2, 2)):
        sec_ordering(rec, T=T, K=K, patches=patches)
        sec_decode(rec, T=T, K=K, patches=patches)


def sec_sampling_rule(rec, patches=None):
    """the sub-volume handed to the model is the tomogram sampled on the molecule's grid, also when the crop window crosses a face of the tomogram (executed by C02's sampling section)"""
    from .c02 import sec_sampling

    sec_sampling(rec, order=1, corner_safe=False, patches=patches)


def sec_loader_units(rec, patches=None):
    """the loaders hand the model max_shifts in pixels of their own scale (executed by C01's units section): a wrong window clips or widens the search range"""
    from .c01 import sec_units

    sec_units(rec, patches=patches)


def sections(tier):
    q = quick(tier)
    secs = [("loader-units", "checks.c04", "sec_loader_units", {}), ("sampling-rule", "checks.c04", "sec_sampling_rule", {}), ("multi-template-bank", "checks.c04", "sec_candidates", {})]
    sem_shapes = (((1, 1, 3), 2), ((1, 2, 2), 1), ((2, 1, 2), 0)) if q else (((1, 1, 3), 2), ((1, 2, 2), 1), ((2, 1, 2), 0), ((1, 1, 4), 2), ((3, 1, 1), 0), ((1, 3, 2), 1), ((2, 2, 2), 0), ((2, 2, 3), 2), ((1, 2, 4), 2))
    for kind in ("zncc", "ncc"):
        for shape, axis in sem_shapes:
            secs.append((f"semantics-{kind}-{shape}-{axis}".replace(" ", ""), "checks.c04", "sec_semantics", {"kind": kind, "shape": shape, "axis": axis, "mhi": 2 if int(np.prod(shape)) <= 6 else 1}))
    dec_boxes = (((5, 4, 6), (0.0, 1.3)),) if q else (((5, 4, 6), (0.0, 1.3)), ((4, 7, 5), (2.0, 0.5)), ((8, 9, 8), (3.75, 1.0)), ((3, 3, 3), (0.0, 0.0)))
    for kind in ("zncc", "ncc", "fsc"):
        for box, others in dec_boxes:
            for axis in range(3):
                secs.append((f"decode-{kind}-{box}-{axis}".replace(" ", ""), "checks.c04", "sec_decode", {"kind": kind, "box": box, "axis": axis, "others": others}))
    pcc_sem = (((1, 2, 4), 2), ((4, 1, 2), 0), ((2, 4, 1), 1)) if q else (((1, 2, 4), 2), ((4, 1, 2), 0), ((2, 4, 1), 1), ((2, 2, 4), 2), ((4, 2, 2), 0), ((1, 4, 4), 1))
    for shape, axis in pcc_sem:
        secs.append((f"pcc-semantics-{shape}".replace(" ", ""), "checks.c04", "sec_pcc_semantics", {"shape": shape, "axis": axis}))
    idx_boxes = ((5, 4, 7), (6, 7, 3)) if q else ((5, 4, 7), (6, 7, 3), (8, 9, 10), (11, 3, 2), (1, 12, 13))
    for box in idx_boxes:
        for axis in range(3):
            secs.append((f"pcc-index-{box}-{axis}".replace(" ", ""), "checks.c04", "sec_pcc_index", {"box": box, "axis": axis}))
    pdec = (((5, 4, 6), (0.0, 1.25)),) if q else (((5, 4, 6), (0.0, 1.25)), ((4, 7, 5), (2.0, 0.5)), ((8, 9, 8), (3.75, 1.0)), ((3, 3, 3), (0.0, 0.0)))
    for box, others in pdec:
        for axis in range(3):
            secs.append((f"pcc-decode-{box}-{axis}".replace(" ", ""), "checks.c04", "sec_pcc_decode", {"box": box, "axis": axis, "others": others}))
    for box, size in (((3, 4, 5), 7),) if q else (((3, 4, 5), 7), ((6, 2, 7), 30), ((1, 9, 8), 30)):
        secs.append((f"updft-{box}-{size}".replace(" ", ""), "checks.c04", "sec_updft", {"box": box, "size": size}))
    for box, m in (((3, 4, 5), (1.0, 0.5, 2.0)),) if q else (((3, 4, 5), (1.0, 0.5, 2.0)), ((6, 2, 7), (0.0, 3.2, 1.0)), ((8, 9, 1), (2.5, 2.0, 0.0))):
        secs.append((f"fsc-phases-{box}".replace(" ", ""), "checks.c04", "sec_fsc_phases", {"box": box, "m": m}))
    for shape, m in (((1, 2, 4), (0, 0.5, 1.0)),) if q else (((1, 2, 4), (0, 0.5, 1.0)), ((4, 1, 2), (2.0, 0, 1)), ((2, 4, 2), (0.3, 1.5, 0))):
        secs.append((f"fsc-semantics-{shape}".replace(" ", ""), "checks.c04", "sec_fsc_semantics", {"shape": shape, "m": m}))
    for kind in ("zncc", "ncc", "pcc", "fsc"):
        for axis in (range(3) if not q else (0, 2)):
            secs.append((f"landscape-upsampled-{kind}-{axis}", "checks.c04", "sec_landscape_upsampled", {"kind": kind, "axis": axis, "box": (10, 9, 11) if kind == "pcc" else (6, 5, 7)}))
        secs.append((f"landscape-upsampled-{kind}-K3", "checks.c04", "sec_landscape_upsampled", {"kind": kind, "axis": 1, "box": (10, 9, 11) if kind == "pcc" else (6, 5, 7), "K": 3}))
    for kind in ("zncc", "ncc", "pcc", "fsc"):
        secs.append((f"plumbing-{kind}", "checks.c04", "sec_plumbing", {"kind": kind}))
        if not q:
            secs.append((f"plumbing-{kind}-(2,1,2)", "checks.c04", "sec_plumbing", {"kind": kind, "shape": (2, 1, 2)}))
    return secs


_Z, _U, _P, _F = "acryo.backend._zncc", "acryo.backend._upsample", "acryo.backend._pcc", "acryo.backend._fsc"
_SEM = {"kind": "zncc", "shape": (1, 2, 2), "axis": 1, "mhi": 1}
MUTANTS = [
    ("corr-crop-shifted", "checks.c04", "sec_semantics", _SEM, {_Z: [("[1:-1, 1:-1, 1:-1]", "[:-2, :-2, :-2]")]}),
    ("template-not-flipped", "checks.c04", "sec_semantics", _SEM, {_Z: [("img1[::-1, ::-1, ::-1]", "img1")]}),
    ("window-sum-off-by-one", "checks.c04", "sec_semantics", _SEM, {_Z: [("window_sum[window_shape[0] : -1] - window_sum[: -window_shape[0] - 1]", "window_sum[window_shape[0] + 1 :] - window_sum[1 : -window_shape[0]]")]}),
    ("conv-mode-start+1", "checks.c04", "sec_semantics", _SEM, {_Z: [("startind = (currshape - shape_valid) // 2", "startind = (currshape - shape_valid) // 2 + 1")]}),
    ("landscape-crop-off-by-one", "checks.c04", "sec_semantics", _SEM, {_Z: [("    pad_width_eff = tuple(\n        (s - int(m) * 2 - 1) // 2 for m, s in zip(max_shifts, response.shape)\n    )\n    sl_res = tuple(slice(w, -w, None) for w in pad_width_eff)\n    return response[sl_res]",
                                                                                 "    pad_width_eff = tuple(\n        (s - int(m) * 2 - 1) // 2 for m, s in zip(max_shifts, response.shape)\n    )\n    sl_res = tuple(slice(w + 1, -w + 1 if w > 1 else None, None) for w in pad_width_eff)\n    return response[sl_res]")]}),
    ("ncc-pads-with-zero", "checks.c04", "sec_semantics", {**_SEM, "kind": "ncc"}, {_Z: [("        constant_values=img0.mean(),\n    )\n    pad_width_eff", "        constant_values=0,\n    )\n    pad_width_eff")]}),
    ("loc-offset-dropped", "checks.c04", "sec_decode", {"kind": "zncc", "axis": 0}, {_U: [("loc_shift = local_maxima / UPSAMPLE + local_offset", "loc_shift = local_maxima / UPSAMPLE")]}),
    ("midpoints-ceil", "checks.c04", "sec_decode", {"kind": "zncc", "axis": 1}, {_U: [("midpoints = np.asarray(res.shape, dtype=np.int32) // 2", "midpoints = (np.asarray(res.shape, dtype=np.int32) + 1) // 2")]}),
    ("mesh-half-pixel-window", "checks.c04", "sec_decode", {"kind": "ncc", "axis": 2}, {_U: [("max(float(shiftl), -1.0)", "max(float(shiftl), -0.5)")]}),
    ("mesh-centre+pad_eff-lost", "checks.c04", "sec_decode", {"kind": "zncc", "axis": 0}, {_U: [("/ UPSAMPLE + m + w\n", "/ UPSAMPLE + m\n")]}),
    ("subpixel-crop-off-centre", "checks.c04", "sec_decode", {"kind": "zncc", "axis": 0}, {_Z: [("    response = ncc_landscape(img0, img1, max_shifts, backend=backend)\n    pad_width_eff = tuple(\n        (s - int(m) * 2 - 1) // 2 for",
                                                                                                  "    response = ncc_landscape(img0, img1, max_shifts, backend=backend)\n    pad_width_eff = tuple(\n        (s - int(m) * 2 + 1) // 2 for")]}),
    ("pcc-landscape-ifftshift (seeded change C07_2)", "checks.c04", "sec_pcc_index", {"box": (5, 4, 7), "axis": 0}, {_P: [("    power = backend.fftshift(power)\n    centers", "    power = backend.ifftshift(power)\n    centers")]}),
    ("pcc-landscape-conj-swapped", "checks.c04", "sec_pcc_semantics", {"shape": (1, 2, 4), "axis": 2}, {_P: [("):\n    product = f0 * f1.conj()\n    power = _abs2(backend.ifftn(product))\n    power = backend.fftshift", "):\n    product = f0.conj() * f1\n    power = _abs2(backend.ifftn(product))\n    power = backend.fftshift")]}),
    ("pcc-refinement-window-from-int-shifts (seeded change C01_1)", "checks.c04", "sec_pcc_decode", {"axis": 0}, {_P: [("_rshift = ((_max_shifts - shifts) * upsample_factor)", "_rshift = ((_int_shifts - shifts) * upsample_factor)")]}),
    ("pcc-dftshift-decode-off-by-one", "checks.c04", "sec_pcc_decode", {"axis": 1}, {_P: [("            - dftshift\n        )", "            - dftshift - 1\n        )")]}),
    ("pcc-region-offset-sign", "checks.c04", "sec_pcc_decode", {"axis": 0}, {_P: [("sample_region_offset = dftshift - shifts * upsample_factor", "sample_region_offset = dftshift + shifts * upsample_factor")]}),
    ("pcc-unwrap->=", "checks.c04", "sec_pcc_decode", {"axis": 2}, {_P: [("sl = shifts > midpoints", "sl = shifts >= midpoints")]}),
    ("pcc-product-not-conjugated", "checks.c04", "sec_pcc_decode", {"axis": 0}, {_P: [("            product.conj(),", "            product,")]}),
    ("updft-kernel-sign", "checks.c04", "sec_updft", {}, {_P: [("backend.exp(-2j * np.pi *", "backend.exp(2j * np.pi *")]}),
    ("updft-axis-order", "checks.c04", "sec_updft", {}, {_P: [("for n_items, ups_size, ax_offset in dim_properties[::-1]:", "for n_items, ups_size, ax_offset in dim_properties:")]}),
    ("updft-offset-added", "checks.c04", "sec_updft", {}, {_P: [("dtype=np.float32) - ax_offset", "dtype=np.float32) + ax_offset")]}),
    ("fsc-phase-sign", "checks.c04", "sec_fsc_phases", {}, {_F: [("backend.exp(2j * np.pi * x0 * mesh)", "backend.exp(-2j * np.pi * x0 * mesh)")]}),
    ("fsc-phase-sign (exact)", "checks.c04", "sec_fsc_semantics", {}, {_F: [("backend.exp(2j * np.pi * x0 * mesh)", "backend.exp(-2j * np.pi * x0 * mesh)")]}),
    ("fsc-phase-range-shifted", "checks.c04", "sec_fsc_phases", {}, {_F: [("rng = range(-s, s + 1)", "rng = range(-s + 1, s + 2)")]}),
    ("fsc-phase-axes-swapped", "checks.c04", "sec_fsc_phases", {}, {_F: [("phase_y = _get_phase_1d(mesh[1], out_shape[1], backend)\n    phase_x = _get_phase_1d(mesh[2], out_shape[2], backend)", "phase_y = _get_phase_1d(mesh[2], out_shape[1], backend)\n    phase_x = _get_phase_1d(mesh[1], out_shape[2], backend)")]}),
    ("zncc-args-swapped", "checks.c04", "sec_plumbing", {"kind": "zncc"}, {"acryo.alignment._concrete": [("        shift, zncc = subpixel_zncc(\n            backend.ifftn(subvolume * mw).real,\n            backend.ifftn(template * mw).real,", "        shift, zncc = subpixel_zncc(\n            backend.ifftn(template * mw).real,\n            backend.ifftn(subvolume * mw).real,")]}),
    ("pcc-shift-negated", "checks.c04", "sec_plumbing", {"kind": "pcc"}, {"acryo.alignment._concrete": [("        return shift, self._DUMMY_QUAT, pcc", "        return -shift, self._DUMMY_QUAT, pcc")]}),
    ("fit-matrix-shift-negated", "checks.c04", "sec_plumbing", {"kind": "fsc"}, {"acryo.alignment._base": [("shift_matrix[:3, 3] = self.shift", "shift_matrix[:3, 3] = -self.shift")]}),
    ("optimize-single-unmasked-subvolume", "checks.c04", "sec_plumbing", {"kind": "ncc"}, {"acryo.alignment._base": [("        out = self._optimize(\n            self.pre_transform(subvolume * mask, backend),", "        out = self._optimize(\n            self.pre_transform(subvolume, backend),")]}),
    ("landscape-mesh-centre-off-by-half", "checks.c04", "sec_landscape_upsampled", {"kind": "zncc", "axis": 0}, {"acryo.backend._mesh": [("center = np.array(shape) / 2 - 0.5", "center = np.array(shape) / 2")]}),
    ("landscape-mesh-width-not-divided", "checks.c04", "sec_landscape_upsampled", {"kind": "fsc", "axis": 2}, {"acryo.backend._mesh": [("backend.linspace(c - width / upsample, c + width / upsample, 2 * width + 1)", "backend.linspace(c - width, c + width, 2 * width + 1)")]}),
    ("landscape-mesh-one-node-short", "checks.c04", "sec_landscape_upsampled", {"kind": "ncc", "axis": 0}, {"acryo.backend._mesh": [("c + width / upsample, 2 * width + 1)", "c + width / upsample, 2 * width)")]}),
    ("landscape-args-swapped", "checks.c04", "sec_plumbing", {"kind": "fsc"}, {"acryo.alignment._concrete": [("        return fsc_landscape(\n            subvolume * mw,\n            template * mw,", "        return fsc_landscape(\n            template * mw,\n            subvolume * mw,")]}),
    ("fsc-upsample-with-pad", "checks.c04", "sec_decode", {"kind": "fsc", "axis": 0}, {_F: [("return upsample(out, out, max_shifts, (0, 0, 0), backend=backend)", "return upsample(out, out, max_shifts, (1, 1, 1), backend=backend)")]}),
]


def run(tier, procs=None, only=None):
    secs = select(sections(tier), only)
    return harness.run_check(
        PID, tier, secs, procs=procs,
        explanation="The real landscape functions are executed on images of symbolic voxels (convolution theorem / exact DFT stubs): z3 proves for every entry that its numerator and radicand are those of the normalised "
                    "correlation between the template and the sub-volume window at lag x-centre (uncropped) / r-int(m) (cropped). The real sub-pixel routines are executed with a data-blind arg-max "
                    "(every coarse and refined peak) and symbolic max_shifts: z3 proves that the returned shift is the lag of the landscape position sampled at the refined maximum, that the coarse peak is a node "
                    "of the refinement mesh/window and that the window is exactly the set of nodes near the coarse peak whose lag lies in [-m, m].",
        bounds={"semantics": "boxes <= 6 voxels quick / <= 12 thorough, max_shifts in [0,2] symbolic on one axis", "decode": "boxes (5,4,6) quick; max_shifts symbolic on one axis in [0, 2*side), others {0, 1.3}; every arg-max outcome"},
        trusted_base=TRUSTED + ["FFTStub convolution theorem / exact DFT", "HybridNdi (opaque interpolation)", "BlindNP (arbitrary arg-max)", "Cauchy-Schwarz: a perfect copy at lag d maximises the normalised correlation at d (lemma)"],
        outside=["numeric accuracy (0.1 / 0.5 px) of the refinement: floating-point FFT, cubic-spline interpolation and image content", "float32 rounding of the mesh coordinates (exact-real encoding)"],
        mutants=MUTANTS if (not quick(tier) and not only) else None,
    )


# every real-library oracle of this property (each returns (reproduced, detail)); used to confirm structural facts that carry no replay of their own
ALL_REPLAYS = [lambda c: replay_planted('zncc')(c), lambda c: replay_planted('ncc')(c), lambda c: replay_planted('pcc')(c), lambda c: replay_planted('fsc')(c), lambda c: replay_landscape_multi('zncc')(c)]


def replay(data):
    key = data.get("key", "")
    kind = next((k for k in ("zncc", "ncc", "pcc", "fsc") if k in key), data.get("kind", "zncc"))
    ok, detail = replay_planted(kind)(data.get("cex") or {})
    print("replay:", detail)
    print("REPRODUCED" if ok else "not reproduced")
    return 1 if ok else 0
