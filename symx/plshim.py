"""symx.plshim -- the object bound to the name `pl` inside loaded acryo modules.

The *real* polars is used for every table operation; the shim only makes sure that columns
holding symbolic values are created with dtype `pl.Object` (polars would otherwise try to
infer a numeric dtype and call float()/== on the proxies).  Object columns survive
select/filter/head/tail/sample/sort-by-other-columns/group_by/concat/clone/slicing/to_numpy
unchanged (probed against polars 1.44), so row bookkeeping is decided on the real library.
"""
from __future__ import annotations

import numpy as np
import polars as _pl

from . import arrays as A
from .core import is_symbolic


def _needs_object(values) -> bool:
    if isinstance(values, np.ndarray):
        return values.dtype == object and any(is_symbolic(v) or isinstance(v, A.Q) for v in values.reshape(-1))
    if isinstance(values, (list, tuple)):
        return any(is_symbolic(v) for v in values)
    return False


def _plain(values):
    """object array without symbolic entries -> ordinary python numbers for polars"""
    if isinstance(values, np.ndarray) and values.dtype == object:
        out = []
        for v in values.reshape(-1) if values.ndim == 1 else values:
            out.append(float(v) if isinstance(v, A.Q) else v)
        return out
    return values


def _make_series(name=None, values=None, dtype=None, **kw):
    if values is None and not isinstance(name, str):
        name, values = None, name
    if isinstance(values, np.ndarray) and values.dtype == object:
        if any(is_symbolic(v) for v in values.reshape(-1)):
            return _pl.Series(name, list(values), dtype=_pl.Object)
        values = _plain(values)
    elif _needs_object(values):
        return _pl.Series(name, list(values), dtype=_pl.Object)
    return _pl.Series(name, values, dtype=dtype, **kw)


def _make_frame(data=None, schema=None, **kw):
    if isinstance(data, dict):
        cols = []
        for k, v in data.items():
            if isinstance(v, _pl.Series):
                cols.append(v.alias(k))
            else:
                cols.append(_make_series(k, v))
        if not cols:
            return _pl.DataFrame(None, schema=schema, **kw)
        return _pl.DataFrame(cols)
    if isinstance(data, list) and data and all(isinstance(v, np.ndarray) and v.dtype == object for v in data):
        names = list(schema) if schema is not None else [f"column_{i}" for i in range(len(data))]
        return _pl.DataFrame([_make_series(n, v) for n, v in zip(names, data)])
    return _pl.DataFrame(data, schema=schema, **kw)


class _ClassLike(type):
    """a callable that also works as the second argument of isinstance()"""

    def __instancecheck__(cls, obj):
        return isinstance(obj, cls._real)

    def __subclasscheck__(cls, sub):
        return issubclass(sub, cls._real)

    def __call__(cls, *a, **k):
        return cls._make(*a, **k)

    def __getattr__(cls, name):
        return getattr(cls._real, name)


class SeriesShim(metaclass=_ClassLike):
    _real = _pl.Series
    _make = staticmethod(_make_series)


class DataFrameShim(metaclass=_ClassLike):
    _real = _pl.DataFrame
    _make = staticmethod(_make_frame)


class PlShim:
    Series = SeriesShim
    DataFrame = DataFrameShim

    def __getattr__(self, name):
        return getattr(_pl, name)
