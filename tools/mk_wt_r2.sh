#!/bin/sh
# round 2: (re)create scratch worktree /tmp/wt/<ID>r2 at /repo HEAD and render the round-2 prompt (outputs <ID>_3, <ID>_4)
ID="$1"
mkdir -p /tmp/seeded_out
cd /repo && git worktree remove --force /tmp/wt/${ID}r2 2>/dev/null; git worktree prune
git worktree add -q --detach /tmp/wt/${ID}r2 HEAD || exit 1
/venv/bin/python - "$ID" <<'PY'
import sys, json
p = sys.argv[1]
t = open('/verif/tools/seed_prompt_template_r2.txt').read()
prop = None
for l in open('/verif/properties.jsonl'):
    d = json.loads(l)
    if d['id'] == p:
        prop = f"{p}: {d['title']}\n\nStatement: {d['statement']}\n\nQuantifier: {d['quantifier']['text']}\n"
out = t.replace('{WT}', f'/tmp/wt/{p}r2').replace('{PROPERTY}', prop).replace('{N}', '2').replace('{OUT}', '/tmp/seeded_out').replace('{PID}', p).replace('{{k}}', '{k}')
open(f'/tmp/seeded_out/{p}_prompt_r2.txt', 'w').write(out)
PY
echo "worktree /tmp/wt/${ID}r2 at $(git -C /tmp/wt/${ID}r2 rev-parse --short HEAD)"
