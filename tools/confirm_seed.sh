#!/bin/sh
# tools/confirm_seed.sh <seed_dir> <name>   e.g. /tmp/seeded_out/C02_1 C02_1
# Confirms in a scratch worktree: demo passes on the pristine tree, fails with the patch, test-suite passes with the patch.
D="$1"; NAME="$2"
WT=/tmp/wt/confirm_$NAME
cd /repo && git worktree remove --force $WT 2>/dev/null; git worktree prune
git worktree add -q --detach $WT HEAD || exit 1
cd $WT
/venv/bin/python $D/demo.py > /tmp/confirm_$NAME.pristine.log 2>&1; r0=$?
git apply $D/patch.diff || { echo "$NAME: PATCH DOES NOT APPLY"; git -C /repo worktree remove --force $WT; exit 1; }
/venv/bin/python $D/demo.py > /tmp/confirm_$NAME.patched.log 2>&1; r1=$?
/venv/bin/python -m pytest -q -p no:cacheprovider --timeout=900 --deselect tests/test_molecules.py::test_axes_to_rotator_invert > /tmp/confirm_$NAME.tests.log 2>&1; r2=$?
loaded=$(grep -h -o "/tmp/wt/[^ ]*acryo/__init__.py" /tmp/confirm_$NAME.patched.log | head -1)
echo "$NAME: demo_pristine_rc=$r0 demo_patched_rc=$r1 tests_rc=$r2 tests='$(tail -1 /tmp/confirm_$NAME.tests.log)' acryo_loaded=$loaded"
cd /repo && git worktree remove --force $WT
