"""symx.npshim -- the object bound to the name `np` inside loaded acryo modules.

Delegates to the real numpy; intercepts only constructors/functions that would coerce a
symbolic value to a C float/int (array, asarray, zeros, eye, ..., sqrt, ceil, argmax, ...).
Numeric constructors return object-dtype SymArrays so that later in-place writes of
symbolic values succeed; integer/boolean results with only concrete contents stay real
numpy arrays so that they remain usable as indices.
"""
from __future__ import annotations

import math
from fractions import Fraction

import numpy as _np
import types as _types
import z3

from . import arrays as A
from .core import (
    Sym,
    SymBool,
    SymComplex,
    Unsupported,
    _coerce,
    exact,
    is_symbolic,
    lift,
    sym_exp,
    sym_sqrt,
    symround,
    z_ceil,
    z_floor,
    z_trunc,
    _real,
)


def _kind(dtype):
    if dtype is None:
        return None
    if dtype is object:
        return "O"
    return _np.dtype(dtype).kind


class _Linalg:
    def __getattr__(self, name):
        return getattr(_np.linalg, name)

    @staticmethod
    def norm(x, axis=None, **kw):
        if A.any_symbolic(x):
            x = A.to_symarray(x)
            s = (x * x).sum(axis=axis)
            if isinstance(s, _np.ndarray):
                return A.elementwise(sym_sqrt, s)
            return sym_sqrt(s)
        if isinstance(x, _np.ndarray) and x.dtype == object:
            x = _np.asarray(x.tolist(), dtype=float)
        return _np.linalg.norm(x, axis=axis, **kw)


class _FFT:
    def __getattr__(self, name):
        return getattr(_np.fft, name)

    @staticmethod
    def fftshift(x, axes=None):
        if getattr(x, "_symx_passthrough", False):
            return x  # shape-only: contents are opaque anyway
        return _np.fft.fftshift(x, axes=axes)

    @staticmethod
    def ifftshift(x, axes=None):
        if getattr(x, "_symx_passthrough", False):
            return x
        return _np.fft.ifftshift(x, axes=axes)


class _NdMeta(type):
    def __instancecheck__(cls, obj):
        # real ndarrays, and shape-only image stubs that stand for an in-memory array
        return isinstance(obj, _np.ndarray) or bool(getattr(obj, "numpy_like", False))

    def __subclasscheck__(cls, sub):
        return issubclass(sub, _np.ndarray)


class _NdArrayLike(_np.ndarray, metaclass=_NdMeta):
    """`np.ndarray` as seen by loaded modules (isinstance target)"""


_REWRAPPED = {}


def _as_engine_array(r):
    if type(r) is _np.ndarray and r.dtype == object and r.size and any(isinstance(x, (Sym, SymBool, SymComplex)) for x in r.reshape(-1)):
        return r.view(A.SymArray)
    return r


def _rewrapped(f):
    """a numpy function that has no shim: it runs as it is; an object array of symbolic values it returns (np.pad, np.cumsum, np.roll ... keep the
    dtype but drop the subclass for plain-ndarray inputs) is handed back as an array of the engine, so that masks and comparisons on it stay symbolic"""
    w = _REWRAPPED.get(f)
    if w is None:
        def w(*a, **k):
            r = f(*a, **k)
            if type(r) is tuple:
                return tuple(_as_engine_array(x) for x in r)
            return _as_engine_array(r)

        w.__name__ = getattr(f, "__name__", "numpy_function")
        w.__wrapped__ = f
        _REWRAPPED[f] = w
    return w


class SymNP:
    """Module-like proxy for numpy."""

    ndarray = _NdArrayLike

    linalg = _Linalg()
    fft = _FFT()

    def __init__(self, symbolic_float_arrays=True):
        self._sfa = symbolic_float_arrays

    def __getattr__(self, name):
        v = getattr(_np, name)
        if isinstance(v, _types.FunctionType) or type(v).__name__ in ("_ArrayFunctionDispatcher", "builtin_function_or_method"):
            return _rewrapped(v)
        return v

    @property
    def pi(self):
        from .angles import PiMultiple

        return PiMultiple(2)

    # -- constructors --------------------------------------------------------------------------
    def _numeric(self, dtype):
        return _kind(dtype) in ("f", "c", None) and self._sfa

    def array(self, x, dtype=None, copy=True, **kw):
        if getattr(x, "_symx_passthrough", False):
            return x
        if A.any_symbolic(x) or (isinstance(x, _np.ndarray) and x.dtype == object and _kind(dtype) != "O"):
            return A.to_symarray(x, dtype)
        if _kind(dtype) in ("f", "c") and self._sfa:
            return A.to_symarray(_np.array(x, dtype=dtype, **kw))
        if isinstance(x, A.SymArray):
            return A.to_symarray(x, dtype)
        try:
            return _np.array(x, dtype=dtype, **kw)
        except (TypeError, ValueError):
            return A.to_symarray(x, dtype)

    def asarray(self, x, dtype=None, **kw):
        if getattr(x, "_symx_passthrough", False):
            return x
        if isinstance(x, A.SymArray):
            if dtype is None or _kind(dtype) in ("f", "c", "O"):
                return x
            return x.astype(dtype)
        if not self._sfa and isinstance(x, _np.ndarray) and x.dtype != object and (dtype is None or _np.dtype(dtype) == x.dtype):
            return x  # numpy semantics: no copy (aliasing of the caller's array is observable)
        return self.array(x, dtype=dtype)

    def asanyarray(self, x, dtype=None, **kw):
        return self.asarray(x, dtype)

    def atleast_2d(self, x):
        x = self.asarray(x)
        if x.ndim == 0:
            return x.reshape(1, 1)
        if x.ndim == 1:
            return x[_np.newaxis, :]
        return x

    def atleast_1d(self, x):
        x = self.asarray(x)
        return x.reshape(1) if x.ndim == 0 else x

    def _filled(self, shape, value, dtype):
        if isinstance(shape, Sym):
            shape = int(shape)
        if isinstance(shape, (tuple, list)):
            shape = tuple(int(s) if isinstance(s, Sym) else s for s in shape)
        k = _kind(dtype)
        if (not self._sfa and not is_symbolic(value)) or isinstance(value, (str, bytes)) or value is None:
            return _np.full(shape, value, dtype=dtype)
        if k in ("b",) and not is_symbolic(value):
            return _np.full(shape, value, dtype=dtype)  # boolean masks stay real arrays (usable as indices)
        if k in ("U", "S"):
            return _np.full(shape, value, dtype=dtype)
        out = _np.empty(shape, dtype=object)
        if k in ("i", "u"):
            value = int(value) if not is_symbolic(value) else value
        elif k in ("f", None):
            value = exact(float(value)) if not is_symbolic(value) else value
        elif k == "c":
            value = complex(value) if not is_symbolic(value) else value
        out.fill(value)
        return out.view(A.SymArray)

    def zeros(self, shape, dtype=None, **kw):
        return self._filled(shape, 0, dtype)

    def fromiter(self, it, dtype=None, count=-1, **kw):
        items = []
        for v in it:
            if count >= 0 and len(items) >= count:
                break
            items.append(v)
        if 0 <= count != len(items) and count > len(items):
            raise ValueError(f"iterator too short: Expected {count} but iterator had only {len(items)} items.")
        if any(is_symbolic(v) for v in items):
            return A.to_symarray(items)  # like zeros(dtype=int) + item assignment: an array of the engine (the integer width is applied by astype)
        return _np.fromiter(items, dtype=dtype, count=len(items), **kw)

    def ones(self, shape, dtype=None, **kw):
        return self._filled(shape, 1, dtype)

    def empty(self, shape, dtype=None, **kw):
        return self._filled(shape, 0, dtype)

    def full(self, shape, fill_value, dtype=None, **kw):
        if dtype is None and not is_symbolic(fill_value):
            # numpy takes the dtype of the fill value: an integer id stays an integer column
            if isinstance(fill_value, (bool, _np.bool_)):
                dtype = _np.bool_
            elif isinstance(fill_value, (int, _np.integer)):
                dtype = _np.int64
        return self._filled(shape, fill_value, dtype)

    def zeros_like(self, a, dtype=None, **kw):
        return self._filled(_np.shape(a), 0, dtype or getattr(a, "dtype", None) if getattr(a, "dtype", None) != object else None)

    def ones_like(self, a, dtype=None, **kw):
        return self._filled(_np.shape(a), 1, dtype or getattr(a, "dtype", None) if getattr(a, "dtype", None) != object else None)

    def eye(self, n, m=None, k=0, dtype=None, **kw):
        if not self._sfa:
            return _np.eye(n, m, k, dtype=dtype or float)
        out = _np.eye(n, m, k, dtype=int)
        return out.astype(object).view(A.SymArray)

    def identity(self, n, dtype=None):
        return self.eye(n, dtype=dtype)

    def arange(self, *args, dtype=None, **kw):
        def conc(a):
            if isinstance(a, Sym):
                v = z3.simplify(a.e)
                if z3.is_int_value(v):
                    return v.as_long()
                if z3.is_rational_value(v) and v.as_fraction().denominator == 1:
                    return int(v.as_fraction())
            return a

        args = tuple(conc(a) for a in args)
        if any(isinstance(a, Sym) for a in args):
            from .shapes import SymRange

            return SymRange.arange(*args)
        out = _np.arange(*args, dtype=dtype, **kw)
        return out

    def linspace(self, start, stop, num=50, endpoint=True, dtype=None, **kw):
        if is_symbolic(start) or is_symbolic(stop) or is_symbolic(num):
            from .shapes import SymRange

            return SymRange.linspace(start, stop, num, endpoint)
        return _np.linspace(start, stop, num, endpoint=endpoint, dtype=dtype, **kw)

    # -- element-wise maths ----------------------------------------------------------------------
    def _unary(self, x, fsym, fnp, fpy=None):
        if isinstance(x, (Sym, SymBool, SymComplex)):
            return fsym(x)
        if isinstance(x, Fraction) and fpy is not None:
            return exact(fpy(x))
        if isinstance(x, _np.ndarray) and x.dtype == object:
            def one(a):
                if is_symbolic(a):
                    return fsym(a)
                if fpy is not None and isinstance(a, (Fraction, int)) and not isinstance(a, bool):
                    return exact(fpy(a))
                return exact(_coerce(fnp(float(a) if isinstance(a, Fraction) else a)))

            return A.elementwise(one, x)
        if isinstance(x, (list, tuple)) and A.any_symbolic(x):
            return self._unary(A.to_symarray(x), fsym, fnp)
        if hasattr(x, "_np_unary"):
            return x._np_unary(fsym, fnp, fpy)
        return fnp(x)

    def sqrt(self, x, dtype=None, **kw):
        return self._unary(x, sym_sqrt, lambda a: sym_sqrt(a) if isinstance(a, (int, float, Fraction)) else _np.sqrt(a), sym_sqrt)

    def isclose(self, a, b, rtol=1e-05, atol=1e-08, equal_nan=False):
        """|a - b| <= atol + rtol |b|, exact-real on symbolic / exact-rational operands"""
        if not (A.any_symbolic(a) or A.any_symbolic(b) or any(isinstance(v, Fraction) or (isinstance(v, _np.ndarray) and v.dtype == object) for v in (a, b))):
            return _np.isclose(a, b, rtol=rtol, atol=atol, equal_nan=equal_nan)
        ra, ta = Fraction(rtol).limit_denominator(10 ** 12), Fraction(atol).limit_denominator(10 ** 12)

        def one(x, y):
            x, y = _coerce(x), _coerce(y)
            return abs(x - y) <= ta + ra * abs(y)

        if isinstance(a, _np.ndarray) or isinstance(b, _np.ndarray) or isinstance(a, (list, tuple)) or isinstance(b, (list, tuple)):
            aa, bb = _np.broadcast_arrays(A._obj(A.to_symarray(a)), A._obj(A.to_symarray(b)))
            out = _np.empty(aa.shape, dtype=object)
            for k in _np.ndindex(aa.shape):
                out[k] = one(aa[k], bb[k])
            return out.view(A.SymArray)
        return one(a, b)

    def allclose(self, a, b, rtol=1e-05, atol=1e-08, equal_nan=False):
        r = self.isclose(a, b, rtol=rtol, atol=atol, equal_nan=equal_nan)
        if isinstance(r, _np.ndarray) and r.dtype == object:
            acc = True
            for v in r.reshape(-1):
                acc = (acc & v) if not isinstance(acc, bool) else (v if acc else False)
            return acc
        if isinstance(r, _np.ndarray):
            return bool(r.all())
        return r

    def exp(self, x, dtype=None, **kw):
        return self._unary(x, sym_exp, _np.exp)

    def ceil(self, x):
        return self._unary(x, lambda a: Sym(_real(z_ceil(a.e))), _np.ceil, math.ceil)

    def floor(self, x):
        return self._unary(x, lambda a: Sym(_real(z_floor(a.e))), _np.floor, math.floor)

    def fix(self, x):
        return self._unary(x, lambda a: Sym(_real(z_trunc(a.e))), _np.fix, math.trunc)

    def trunc(self, x):
        return self._unary(x, lambda a: Sym(_real(z_trunc(a.e))), _np.trunc, math.trunc)

    def rint(self, x):
        return self._unary(x, lambda a: a.rint(), _np.rint, round)

    def abs(self, x):
        return self._unary(x, abs, _np.abs, abs)

    absolute = abs

    def round(self, x, decimals=0):
        if isinstance(x, Sym):
            return symround(x, decimals)
        if isinstance(x, _np.ndarray) and x.dtype == object:
            return A.to_symarray(x).round(decimals)
        return _np.round(x, decimals)

    around = round

    def isnan(self, x):
        if A.any_symbolic(x) or (isinstance(x, _np.ndarray) and x.dtype == object):
            return A.elementwise(lambda a: False, x) if isinstance(x, _np.ndarray) else False
        return _np.isnan(x)

    def isfinite(self, x):
        if A.any_symbolic(x) or (isinstance(x, _np.ndarray) and x.dtype == object):
            return A.elementwise(lambda a: True, x) if isinstance(x, _np.ndarray) else True
        return _np.isfinite(x)

    # -- reductions / selection ------------------------------------------------------------------
    def argmax(self, a, axis=None, **kw):
        if A.any_symbolic(a):
            return A.to_symarray(a).argmax(axis)
        if hasattr(a, "_np_argmax"):
            return a._np_argmax()
        if isinstance(a, _np.ndarray) and a.dtype == object:
            was_sym = isinstance(a, A.SymArray)
            a = _np.asarray(a.tolist(), dtype=float)
            res = _np.argmax(a, axis=axis, **kw)
            if was_sym and isinstance(res, _np.ndarray) and res.ndim:
                # stays an array of the engine: it may be looked up next with index arrays that hold symbolic integers
                return res.astype(object).view(A.SymArray)
            return res
        return _np.argmax(a, axis=axis, **kw)

    def searchsorted(self, a, v, side="left", sorter=None):
        """np.searchsorted for a concrete sorted `a`: the index of a symbolic key is the number of entries of `a`
        that are < key (left) / <= key (right); one decision per key and boundary."""
        if sorter is None and not A.any_symbolic(a) and A.any_symbolic(v):
            av = [x for x in _np.asarray(a).ravel().tolist()]
            if any(av[i] > av[i + 1] for i in range(len(av) - 1)):
                raise Unsupported("searchsorted on an unsorted array")

            def one(key):
                k = 0
                for x in av:
                    if bool((x < key) if side == "left" else (x <= key)):
                        k += 1
                    else:
                        break
                return k

            if isinstance(v, _np.ndarray):
                return _np.array([one(k) for k in _np.asarray(v, dtype=object).ravel().tolist()], dtype=_np.intp).reshape(_np.shape(v))
            return one(v)
        return _np.searchsorted(a, v, side=side, sorter=sorter)

    def argmin(self, a, axis=None, **kw):
        if A.any_symbolic(a):
            return A.to_symarray(a).argmin(axis)
        if isinstance(a, _np.ndarray) and a.dtype == object:
            a = _np.asarray(a.tolist(), dtype=float)
        return _np.argmin(a, axis=axis, **kw)

    def max(self, a, axis=None, **kw):
        if A.any_symbolic(a) or (isinstance(a, _np.ndarray) and a.dtype == object):
            return A.sym_reduce(A._maximum, A.to_symarray(a), axis)
        return _np.max(a, axis=axis, **kw)

    amax = max

    def min(self, a, axis=None, **kw):
        if A.any_symbolic(a) or (isinstance(a, _np.ndarray) and a.dtype == object):
            return A.sym_reduce(A._minimum, A.to_symarray(a), axis)
        return _np.min(a, axis=axis, **kw)

    amin = min

    def sum(self, a, axis=None, **kw):
        if isinstance(a, _np.ndarray) and a.dtype == object:
            return A.to_symarray(a).sum(axis, **{k: v for k, v in kw.items() if k == "keepdims"})
        if A.any_symbolic(a):
            return A.to_symarray(a).sum(axis)
        return _np.sum(a, axis=axis, **kw)

    def mean(self, a, axis=None, **kw):
        if isinstance(a, _np.ndarray) and a.dtype == object or A.any_symbolic(a):
            return A.to_symarray(a).mean(axis)
        return _np.mean(a, axis=axis, **kw)

    def prod(self, a, axis=None, dtype=None, **kw):
        if A.any_symbolic(a):
            flat = A._obj(A.to_symarray(a)).reshape(-1)
            out = 1
            for v in flat:
                out = out * v
            return out
        r = _np.prod(a, axis=axis, dtype=dtype, **kw)
        return r

    def all(self, a, axis=None, **kw):
        if A.any_symbolic(a) or (isinstance(a, _np.ndarray) and a.dtype == object):
            return A._row_mask(A.sym_reduce(A._logical_and, A.to_symarray(a), axis), a, axis)
        return _np.all(a, axis=axis, **kw)

    def any(self, a, axis=None, **kw):
        if A.any_symbolic(a) or (isinstance(a, _np.ndarray) and a.dtype == object):
            return A._row_mask(A.sym_reduce(A._logical_or, A.to_symarray(a), axis), a, axis)
        return _np.any(a, axis=axis, **kw)

    def where(self, c, a=None, b=None):
        if A.any_symbolic(c) or A.any_symbolic(a) or A.any_symbolic(b):
            return A._where(c, a, b)
        if a is None:
            return _np.where(c)
        return _np.where(c, a, b)

    def dot(self, a, b, out=None):
        if any(isinstance(v, _np.ndarray) and v.dtype == object for v in (a, b)) or A.any_symbolic(a) or A.any_symbolic(b):
            return A._dot(A.to_symarray(a), A.to_symarray(b))
        return _np.dot(a, b)

    def cross(self, a, b, axis=-1, **kw):
        if any(isinstance(v, _np.ndarray) and v.dtype == object for v in (a, b)) or A.any_symbolic(a) or A.any_symbolic(b):
            return A._np_cross(a, b, axis=axis)
        return _np.cross(a, b, axis=axis, **kw)

    def unravel_index(self, indices, shape):
        if hasattr(indices, "_unravel"):
            return indices._unravel(shape)
        if isinstance(indices, Sym):
            # row-major decode with symbolic flat index
            out = []
            rem = indices
            for s in reversed(shape):
                out.append(rem % s)
                rem = rem // s
            return tuple(reversed(out))
        if hasattr(indices, "_unravel"):
            return indices._unravel(shape)
        return _np.unravel_index(indices, shape)

    def percentile(self, a, q, axis=None, **kw):
        if A.any_symbolic(a):
            from .core import cur

            ex = cur()
            # contract: the result is some real between min and max of the data
            lo = A.sym_reduce(A._minimum, A.to_symarray(a))
            hi = A.sym_reduce(A._maximum, A.to_symarray(a))
            r = z3.Real(ex.fresh_name("percentile"))
            ex.assume(z3.And(r >= _real(lift(lo)), r <= _real(lift(hi))))
            return Sym(r)
        if isinstance(a, _np.ndarray) and a.dtype == object:
            a = _np.asarray(a.tolist(), dtype=float)
        return _np.percentile(a, q, axis=axis, **kw)

    def deg2rad(self, x):
        from .angles import deg2rad

        return deg2rad(x)

    def cos(self, x):
        from .angles import cos

        return cos(x)

    def sin(self, x):
        from .angles import sin

        return sin(x)

    def arctan2(self, y, x):
        from .angles import arctan2

        return arctan2(y, x)

    def clip(self, a, lo, hi, **kw):
        if A.any_symbolic(a) or is_symbolic(lo) or is_symbolic(hi):
            return A.elementwise(lambda v, l, h: A._minimum(A._maximum(v, l), h), a, lo, hi)
        return _np.clip(a, lo, hi, **kw)

    def meshgrid(self, *xi, **kw):
        from .shapes import SymRange, _MeshList

        if any(isinstance(x, SymRange) for x in xi):
            if kw.get("indexing", "xy") != "ij" or kw.get("sparse", False):
                raise Unsupported("meshgrid of symbolic ranges: only indexing='ij', dense")
            rs = [x if isinstance(x, SymRange) else SymRange(len(x), x[0] if len(x) else 0, (x[1] - x[0]) if len(x) > 1 else 0) for x in xi]
            return _MeshList(rs)
        return _np.meshgrid(*xi, **kw)

    def stack(self, arrays, axis=0, **kw):
        from .shapes import MeshStub, _MeshList

        if isinstance(arrays, _MeshList):
            if axis != 0:
                raise Unsupported("stack(meshgrid) along axis != 0")
            return MeshStub(arrays.ranges, stacked=True)
        return A.wrap(_np.stack(arrays, axis=axis, **kw))

    def concatenate(self, arrays, axis=0, **kw):
        return A.wrap(_np.concatenate(arrays, axis=axis, **kw))

    def pad(self, x, pad_width, mode="constant", **kw):
        import operator

        def conc(v):
            if isinstance(v, (tuple, list)):
                return tuple(conc(w) for w in v)
            return operator.index(v) if isinstance(v, Sym) else v

        return _as_engine_array(_np.pad(x, conc(pad_width), mode=mode, **kw))

    def indices(self, dimensions, dtype=int, **kw):
        import operator

        dims = tuple(operator.index(d) if isinstance(d, Sym) else d for d in dimensions)
        return _np.indices(dims, dtype=dtype, **kw)

    def isscalar(self, x):
        return isinstance(x, (Sym, SymBool)) or _np.isscalar(x)


class BlindNP(SymNP):
    """numpy shim for "every possible arg-max outcome": argmax over concrete (data dependent) arrays returns an
    arbitrary in-range index instead of the index of the actual maximum."""

    def argmax(self, a, axis=None, **kw):
        from .shapes import ArbIndex

        if isinstance(a, _np.ndarray) and a.dtype != object and axis is None:
            if a.size == 0:
                raise ValueError("attempt to get argmax of an empty sequence")
            return ArbIndex(a.shape, "peak")
        return super().argmax(a, axis=axis, **kw)
