#!/bin/sh
# round 3: (re)create scratch worktree /tmp/wt/<ID>r2 at /repo HEAD and render the round-2 prompt (outputs <ID>_5, <ID>_6)
ID="$1"
mkdir -p /tmp/seeded_out
cd /repo && git worktree remove --force /tmp/wt/${ID}r3 2>/dev/null; git worktree prune
git worktree add -q --detach /tmp/wt/${ID}r3 HEAD || exit 1
/venv/bin/python - "$ID" <<'PY'
import sys, json
p = sys.argv[1]
t = open('/verif/tools/seed_prompt_template_r3.txt').read()
prop = None
for l in open('/verif/properties.jsonl'):
    d = json.loads(l)
    if d['id'] == p:
        prop = f"{p}: {d['title']}\n\nStatement: {d['statement']}\n\nQuantifier: {d['quantifier']['text']}\n"
out = t.replace('{WT}', f'/tmp/wt/{p}r3').replace('{PROPERTY}', prop).replace('{N}', '2').replace('{OUT}', '/tmp/seeded_out').replace('{PID}', p).replace('{{k}}', '{k}')
open(f'/tmp/seeded_out/{p}_prompt_r3.txt', 'w').write(out)
PY
echo "worktree /tmp/wt/${ID}r3 at $(git -C /tmp/wt/${ID}r3 rev-parse --short HEAD)"
