#!/bin/sh
# run every claimed check (quick tier by default) and print one summary line each
TIER="${1:-quick}"
cd /verif
for id in $(/venv/bin/python -c "import json; print(' '.join(c['property_id'] for c in json.load(open('MANIFEST.json'))['checks']))"); do
  s=$(date +%s); ./check $id --tier $TIER > /tmp/run_all_$id.log 2>&1; rc=$?; e=$(date +%s)
  echo "$id rc=$rc $((e-s))s $(tail -1 /tmp/run_all_$id.log | cut -c1-150)"
done
