"""symx.core -- symbolic scalars (z3-backed) and the re-execution path explorer.

The real acryo source is executed on `Sym`/`SymBool` proxies.  Every time Python asks a
`SymBool` for its truth value the explorer forks: the function is re-executed once per
feasible decision sequence (depth first, feasibility decided by z3 under the current
path condition).  Each completed path yields (path condition, result | exception,
side obligations).  Only `Exception` is treated as a program result; the explorer's own
control flow uses `BaseException` subclasses.
"""
from __future__ import annotations

import fractions
import math
import os
import time
from typing import Any, Callable

import numpy as _np
import os as _os
import z3

Fraction = fractions.Fraction

# ---------------------------------------------------------------------------------------
# control-flow exceptions (BaseException so that `except Exception` in acryo never eats them)


class PathAbort(BaseException):
    """The current path is abandoned (infeasible, budget exceeded, unsupported)."""


class Unsupported(PathAbort):
    """The real code performed an operation the engine has no encoding for."""


class BudgetExceeded(PathAbort):
    pass


# ---------------------------------------------------------------------------------------
# statistics shared by a check run

STATS = {
    "solver_calls": 0,
    "solver_s": 0.0,
    "paths": 0,
    "queries": 0,
    "unsat": 0,
    "sat": 0,
    "unknown": 0,
}

DEFAULT_TIMEOUT_MS = 20000


def _timed_check(solver: z3.Solver, *assumptions) -> str:
    t0 = time.time()
    r = solver.check(*assumptions)
    STATS["solver_calls"] += 1
    STATS["solver_s"] += time.time() - t0
    return str(r)


# ---------------------------------------------------------------------------------------
# the explorer


class Path:
    __slots__ = ("pc", "defs", "result", "exc", "obligations", "decisions", "notes")

    def __init__(self):
        self.pc: list = []  # z3 BoolRefs: branch conditions taken
        self.defs: list = []  # z3 BoolRefs: definitions of fresh variables (sqrt, stubs)
        self.result: Any = None
        self.exc: Exception | None = None
        self.obligations: list = []  # (label, z3 BoolRef that must hold, n_pc, n_defs)
        self.decisions: list[bool] = []
        self.notes: list = []

    def condition(self):
        return z3.And(*self.pc, *self.defs) if (self.pc or self.defs) else z3.BoolVal(True)

    def cond_at(self, n_pc: int, n_defs: int):
        parts = self.pc[:n_pc] + self.defs[:n_defs]
        return z3.And(*parts) if parts else z3.BoolVal(True)

    @property
    def ok(self) -> bool:
        return self.exc is None


class Explorer:
    def __init__(self, assumptions=(), max_paths=2000, max_depth=400, timeout_ms=DEFAULT_TIMEOUT_MS, max_seconds=None):
        self.assumptions = list(assumptions)
        # wall-clock budget of one exploration: exceeding it is a harness error (never a verdict)
        self.max_seconds = float(os.environ.get("SYMX_EXPLORE_BUDGET_S", "600")) if max_seconds is None else max_seconds
        self._t0 = time.time()
        self.max_paths = max_paths
        self.max_depth = max_depth
        self.timeout_ms = timeout_ms
        self.path: Path | None = None
        self._prefix: list[bool] = []
        self._hints: dict[int, int] = {}
        self._pos = 0
        self._solver: z3.Solver | None = None
        self._work: list = []
        self.inconclusive = 0
        self._fresh = 0

    # -- fresh symbols ------------------------------------------------------------------
    def fresh_name(self, stem: str) -> str:
        # names are deterministic along a path so that re-execution reproduces them
        self._fresh += 1
        return f"{stem}!{self._fresh}"

    # -- branching ----------------------------------------------------------------------
    def decide(self, cond) -> bool:
        cond = z3.simplify(cond)
        if z3.is_true(cond):
            return True
        if z3.is_false(cond):
            return False
        p = self.path
        if self._pos < len(self._prefix):
            d = self._prefix[self._pos]
            self._pos += 1
            c = cond if d else z3.Not(cond)
            p.pc.append(c)
            p.decisions.append(d)
            self._solver.add(c)
            return d
        if len(p.decisions) >= self.max_depth:
            raise BudgetExceeded(f"more than {self.max_depth} decisions on one path")
        if time.time() - self._t0 > self.max_seconds:
            raise BudgetExceeded(f"exploration took more than {self.max_seconds:.0f} s")
        s = self._solver
        r_true = _timed_check(s, cond)
        r_false = _timed_check(s, z3.Not(cond))
        if r_true == "unknown" or r_false == "unknown":
            self.inconclusive += 1
        can_t = r_true != "unsat"
        can_f = r_false != "unsat"
        if not can_t and not can_f:
            raise PathAbort("infeasible path")
        if can_t and can_f:
            self._work.append((p.decisions + [False], dict(self._hints)))
            d = True
        else:
            d = can_t
        self._pos += 1
        c = cond if d else z3.Not(cond)
        p.pc.append(c)
        p.decisions.append(d)
        s.add(c)
        return d

    def assume(self, cond):
        """Add a definition/assumption on the current path (e.g. r*r == x for r = sqrt(x))."""
        self.path.defs.append(cond)
        self._solver.add(cond)

    def oblige(self, label: str, cond):
        """Record a side obligation (must hold under the path condition *so far*)."""
        p = self.path
        p.obligations.append((label, cond, len(p.pc), len(p.defs)))

    def note(self, *a):
        self.path.notes.append(a)

    # -- running ------------------------------------------------------------------------
    def run(self, fn: Callable[[], Any]) -> list[Path]:
        global _CUR
        paths: list[Path] = []
        self._work = [([], {})]
        self._t0 = time.time()
        while self._work:
            if len(paths) >= self.max_paths:
                raise BudgetExceeded(f"more than {self.max_paths} paths")
            self._prefix, self._hints = self._work.pop()
            self._pos = 0
            self._fresh = 0
            self.path = Path()
            self._solver = z3.Solver()
            self._solver.set("timeout", self.timeout_ms)
            for a in self.assumptions:
                self._solver.add(a)
            prev = _CUR
            _CUR = self
            try:
                try:
                    self.path.result = fn()
                except PathAbort as e:
                    if isinstance(e, (Unsupported, BudgetExceeded)):
                        raise
                    continue
                except Exception as e:  # a result of the program under test
                    self.path.exc = e
                    if _os.environ.get("SYMX_DEBUG"):
                        import traceback as _tbm

                        where = " @ " + " <- ".join(f"{f.filename.rsplit('/', 1)[-1]}:{f.lineno}:{f.name}" for f in reversed(_tbm.extract_tb(e.__traceback__)[-7:]))
                        try:
                            e.args = ((str(e.args[0]) if e.args else "") + where,) + tuple(e.args[1:])
                        except Exception:
                            pass
            finally:
                _CUR = prev
            STATS["paths"] += 1
            paths.append(self.path)
        return paths


_CUR: Explorer | None = None


def cur() -> Explorer:
    if _CUR is None:
        raise RuntimeError("symbolic branch outside symx.explore()")
    return _CUR


def explore(fn, assumptions=(), **kw) -> list[Path]:
    return Explorer(assumptions, **kw).run(fn)


# ---------------------------------------------------------------------------------------
# exact concrete rationals: a Fraction that never decays to float when mixed with floats


def _to_frac(o):
    if isinstance(o, Fraction):
        return o
    if isinstance(o, (bool, _np.bool_)):
        return Fraction(int(o))
    if isinstance(o, (int, _np.integer)):
        return Fraction(int(o))
    if isinstance(o, (float, _np.floating)):
        f = float(o)
        if math.isnan(f) or math.isinf(f):
            return None
        return Fraction(f)
    return None


class Q(Fraction):
    """Fraction whose arithmetic with python/numpy floats stays exact (float -> exact rational)."""

    __array_ufunc__ = None
    __array_priority__ = 900

    def __new__(cls, num=0, den=None):
        if den is None and isinstance(num, (float, _np.floating)):
            return super().__new__(cls, Fraction(float(num)))
        return super().__new__(cls, num, den) if den is not None else super().__new__(cls, num)

    def _w(self, r):
        if isinstance(r, Fraction) and not isinstance(r, Q):
            return Q(r)
        return r

    def _op(self, o, f, reflected=False):
        if isinstance(o, _np.ndarray):
            # array (op) exact scalar: element by element (numpy defers to us because __array_ufunc__ is None)
            from .arrays import elementwise

            return elementwise((lambda x: f(x, self)) if reflected else (lambda x: f(self, x)), o)
        if isinstance(o, (Sym, SymBool, SymComplex)):
            return NotImplemented
        if isinstance(o, complex):
            return NotImplemented
        fo = _to_frac(o)
        if fo is None:
            return NotImplemented
        a, b = (fo, Fraction(self)) if reflected else (Fraction(self), fo)
        r = f(a, b)
        return Q(r) if isinstance(r, Fraction) else r

    def __add__(self, o):
        return self._op(o, lambda a, b: a + b)

    def __radd__(self, o):
        return self._op(o, lambda a, b: a + b, True)

    def __sub__(self, o):
        return self._op(o, lambda a, b: a - b)

    def __rsub__(self, o):
        return self._op(o, lambda a, b: a - b, True)

    def __mul__(self, o):
        return self._op(o, lambda a, b: a * b)

    def __rmul__(self, o):
        return self._op(o, lambda a, b: a * b, True)

    def __truediv__(self, o):
        if isinstance(o, (float, _np.floating)) and math.isinf(o):
            return Q(0)  # finite / inf (the `norm[norm == 0] = np.inf` idiom)
        return self._op(o, lambda a, b: a / b)

    def __rtruediv__(self, o):
        return self._op(o, lambda a, b: a / b, True)

    def __floordiv__(self, o):
        return self._op(o, lambda a, b: Fraction(a // b))

    def __rfloordiv__(self, o):
        return self._op(o, lambda a, b: Fraction(a // b), True)

    def __mod__(self, o):
        return self._op(o, lambda a, b: a % b)

    def __rmod__(self, o):
        return self._op(o, lambda a, b: a % b, True)

    def __pow__(self, o):
        fo = _to_frac(o) if not isinstance(o, (Sym, SymBool, SymComplex, _np.ndarray)) else None
        if fo is not None and fo.denominator == 1:
            return Q(Fraction(self) ** int(fo))
        if fo is not None and fo == Fraction(1, 2):
            r = sym_sqrt(Fraction(self))
            return Q(r) if isinstance(r, (int, Fraction)) else r
        return NotImplemented

    def __neg__(self):
        return Q(-Fraction(self))

    def __pos__(self):
        return self

    def __abs__(self):
        return Q(abs(Fraction(self)))

    def __hash__(self):
        return Fraction.__hash__(self)

    def __eq__(self, o):
        fo = _to_frac(o) if not isinstance(o, (Sym, SymBool, SymComplex, _np.ndarray)) else None
        if fo is None:
            return NotImplemented
        return Fraction.__eq__(Fraction(self), fo)

    # numpy object loops call these
    def sqrt(self):
        r = sym_sqrt(Fraction(self))
        return Q(r) if isinstance(r, (int, Fraction)) else r

    def conjugate(self):
        return self

    def floor(self):
        return Q(math.floor(self))

    def ceil(self):
        return Q(math.ceil(self))

    def rint(self):
        return Q(round(Fraction(self)))

    def trunc(self):
        return Q(math.trunc(self))

    @property
    def real(self):
        return self

    @property
    def imag(self):
        return 0

    def __repr__(self):
        return f"{self.numerator}/{self.denominator}" if self.denominator != 1 else str(self.numerator)


def exact(x):
    """python/numpy concrete scalar -> exact python scalar (floats become Q)."""
    if isinstance(x, _np.generic):
        x = x.item()
    if isinstance(x, float):
        if math.isnan(x) or math.isinf(x):
            return x
        return Q(x)
    if isinstance(x, Fraction) and not isinstance(x, Q):
        return Q(x)
    return x


# ---------------------------------------------------------------------------------------
# symbolic scalars


def _frac_of_float(x: float) -> Fraction:
    if math.isnan(x) or math.isinf(x):
        raise Unsupported(f"non-finite float constant {x!r}")
    return Fraction(x)


def lift(x):
    """python / numpy / Sym value -> z3 arithmetic term."""
    if isinstance(x, Sym):
        return x.e
    if isinstance(x, SymBool):
        return z3.If(x.e, z3.IntVal(1), z3.IntVal(0))
    if isinstance(x, (bool, _np.bool_)):
        return z3.IntVal(int(x))
    if isinstance(x, (int, _np.integer)):
        return z3.IntVal(int(x))
    if isinstance(x, (float, _np.floating)):
        f = _frac_of_float(float(x))
        return z3.RealVal(f) if f.denominator != 1 else z3.RealVal(f.numerator)
    if isinstance(x, Fraction):
        return z3.RealVal(x)
    if isinstance(x, z3.ArithRef):
        return x
    raise TypeError(f"cannot lift {type(x).__name__} to a z3 term")


def is_symbolic(x) -> bool:
    return isinstance(x, (Sym, SymBool, SymComplex))


def _is_scalar(x) -> bool:
    return isinstance(
        x, (Sym, SymBool, bool, int, float, Fraction, _np.integer, _np.floating, _np.bool_)
    )


def _real(e):
    return z3.ToReal(e) if e.sort() == z3.IntSort() else e


def z_floor(e):
    return e if e.sort() == z3.IntSort() else z3.ToInt(e)


def z_ceil(e):
    return e if e.sort() == z3.IntSort() else -z3.ToInt(-e)


def z_trunc(e):
    if e.sort() == z3.IntSort():
        return e
    return z3.If(e >= 0, z3.ToInt(e), -z3.ToInt(-e))


def z_round_half_even(e):
    if e.sort() == z3.IntSort():
        return e
    f = z3.ToInt(e)
    d = e - z3.ToReal(f)
    half = z3.RealVal(Fraction(1, 2))
    return z3.If(d < half, f, z3.If(d > half, f + 1, z3.If(f % 2 == 0, f, f + 1)))


def z_abs(e):
    return z3.If(e >= 0, e, -e)


def z_max(a, b):
    return z3.If(a >= b, a, b)


def z_min(a, b):
    return z3.If(a <= b, a, b)


class Sym:
    """A symbolic real or integer (sort decided by the z3 term)."""

    __slots__ = ("e",)
    __array_ufunc__ = None  # numpy scalars/arrays defer to our reflected operators
    __array_priority__ = 1000

    def __init__(self, e):
        if not isinstance(e, z3.ArithRef):
            e = lift(e)
        self.e = e

    # -- helpers -----------------------------------------------------------------------
    @property
    def is_int(self) -> bool:
        return self.e.sort() == z3.IntSort()

    def __repr__(self):
        s = str(z3.simplify(self.e))
        return f"Sym({s if len(s) < 120 else s[:117] + '...'})"

    def __format__(self, spec):
        return repr(self)

    __hash__ = object.__hash__

    @staticmethod
    def _arr(other):
        return isinstance(other, _np.ndarray)

    def _bin(self, other, op, reflected=False):
        if isinstance(other, _np.ndarray):
            from .arrays import elementwise

            if reflected:
                return elementwise(lambda a: op(_coerce(a), self), other)
            return elementwise(lambda a: op(self, _coerce(a)), other)
        if isinstance(other, SymComplex):
            return NotImplemented
        if isinstance(other, complex):
            a, b = (SymComplex(other.real, other.imag), SymComplex(self, 0))
            return op(a, b) if reflected else op(b, a)
        if not _is_scalar(other):
            return NotImplemented
        a, b = (other, self) if reflected else (self, other)
        return op(a, b)

    # -- arithmetic --------------------------------------------------------------------
    def __add__(self, o):
        return self._bin(o, lambda a, b: Sym(lift(a) + lift(b)))

    def __radd__(self, o):
        return self._bin(o, lambda a, b: Sym(lift(a) + lift(b)), True)

    def __sub__(self, o):
        return self._bin(o, lambda a, b: Sym(lift(a) - lift(b)))

    def __rsub__(self, o):
        return self._bin(o, lambda a, b: Sym(lift(a) - lift(b)), True)

    def __mul__(self, o):
        return self._bin(o, lambda a, b: Sym(lift(a) * lift(b)))

    def __rmul__(self, o):
        return self._bin(o, lambda a, b: Sym(lift(a) * lift(b)), True)

    def __truediv__(self, o):
        return self._bin(o, _truediv)

    def __rtruediv__(self, o):
        return self._bin(o, _truediv, True)

    def __floordiv__(self, o):
        return self._bin(o, _floordiv)

    def __rfloordiv__(self, o):
        return self._bin(o, _floordiv, True)

    def __mod__(self, o):
        return self._bin(o, _mod)

    def __rmod__(self, o):
        return self._bin(o, _mod, True)

    def __divmod__(self, o):
        return (self // o, self % o)

    def __rdivmod__(self, o):
        return (o // self, o % self)

    def __pow__(self, o):
        return self._bin(o, _pow)

    def __rpow__(self, o):
        return self._bin(o, _pow, True)

    def __neg__(self):
        return Sym(-self.e)

    def __pos__(self):
        return self

    def __abs__(self):
        return Sym(z_abs(self.e))

    # -- comparisons -------------------------------------------------------------------
    def _cmp(self, o, op):
        if isinstance(o, _np.ndarray):
            from .arrays import elementwise

            return elementwise(lambda a: SymBool(op(self.e, lift(_coerce(a)))), o)
        if not _is_scalar(o):
            return NotImplemented
        return SymBool(op(self.e, lift(o)))

    def __lt__(self, o):
        return self._cmp(o, lambda a, b: a < b)

    def __le__(self, o):
        return self._cmp(o, lambda a, b: a <= b)

    def __gt__(self, o):
        return self._cmp(o, lambda a, b: a > b)

    def __ge__(self, o):
        return self._cmp(o, lambda a, b: a >= b)

    def __eq__(self, o):  # type: ignore[override]
        if o is None or isinstance(o, str):
            return False
        return self._cmp(o, lambda a, b: a == b)

    def __ne__(self, o):  # type: ignore[override]
        if o is None or isinstance(o, str):
            return True
        return self._cmp(o, lambda a, b: a != b)

    # -- conversions -------------------------------------------------------------------
    def __bool__(self):
        return cur().decide(self.e != 0)

    def __index__(self):
        if not self.is_int:
            raise TypeError("symbolic real used as an index")
        return concretize(self)

    def __int__(self):
        # builtin int() must return a real int: concretise (forks over feasible values).
        return concretize(Sym(z_trunc(self.e)))

    def __float__(self):
        v = z3.simplify(self.e)
        if z3.is_rational_value(v) or z3.is_int_value(v):
            return float(Fraction(v.as_fraction())) if not z3.is_int_value(v) else float(v.as_long())
        raise Unsupported("float() of a symbolic value (the engine rebinds `float`; a C-level conversion was hit)")

    def __round__(self, n=None):
        if n is None or n == 0:
            return Sym(z_round_half_even(self.e))
        k = 10 ** n
        return Sym(z3.ToReal(z_round_half_even((self * k).e))) / k

    def __floor__(self):
        return Sym(z_floor(self.e))

    def __ceil__(self):
        return Sym(z_ceil(self.e))

    def __trunc__(self):
        return Sym(z_trunc(self.e))

    # -- the method names numpy's object loops call -------------------------------------
    def sqrt(self):
        return sym_sqrt(self)

    def exp(self):
        return sym_exp(self)

    def floor(self):
        return Sym(_real(z_floor(self.e))) if not self.is_int else self

    def ceil(self):
        return Sym(_real(z_ceil(self.e))) if not self.is_int else self

    def trunc(self):
        return Sym(_real(z_trunc(self.e))) if not self.is_int else self

    def rint(self):
        return Sym(_real(z_round_half_even(self.e))) if not self.is_int else self

    def conjugate(self):
        return self

    conj = conjugate

    @property
    def real(self):
        return self

    @property
    def imag(self):
        return Sym(z3.IntVal(0))

    def item(self):
        return self

    def astype(self, dtype, copy=True):
        return cast_scalar(self, dtype)

    @property
    def ndim(self):
        return 0

    @property
    def shape(self):
        return ()


def _coerce(a):
    """numpy scalar -> python scalar (so that lift() sees exact values)."""
    if isinstance(a, _np.generic):
        return a.item()
    return a


def _truediv(a, b):
    ea, eb = _real(lift(a)), _real(lift(b))
    vb = z3.simplify(eb)
    if z3.is_rational_value(vb) or z3.is_int_value(vb):
        if vb.as_fraction() == 0:
            raise ZeroDivisionError("division by zero")
    elif _CUR is not None:
        _CUR.oblige("div0", eb != 0)
    return Sym(ea / eb)


def _floordiv(a, b):
    ea, eb = lift(a), lift(b)
    both_int = ea.sort() == z3.IntSort() and eb.sort() == z3.IntSort()
    vb = z3.simplify(eb)
    if z3.is_int_value(vb) and both_int:
        k = vb.as_long()
        if k == 0:
            raise ZeroDivisionError("integer division or modulo by zero")
        if k > 0:
            return Sym(ea / eb)  # z3 Int division is floor for positive divisors
        return Sym(z3.ToInt(z3.ToReal(ea) / z3.ToReal(eb)))
    if _CUR is not None and not (z3.is_rational_value(vb) or z3.is_int_value(vb)):
        _CUR.oblige("div0", eb != 0)
    q = z3.ToInt(_real(ea) / _real(eb))
    return Sym(q if both_int else z3.ToReal(q))


def _mod(a, b):
    ea, eb = lift(a), lift(b)
    both_int = ea.sort() == z3.IntSort() and eb.sort() == z3.IntSort()
    vb = z3.simplify(eb)
    if both_int and z3.is_int_value(vb) and vb.as_long() > 0:
        return Sym(ea % eb)
    q = _floordiv(a, b)
    return Sym(ea - eb * q.e) if both_int else Sym(_real(ea) - _real(eb) * _real(q.e))


def _pow(a, b):
    if isinstance(b, Sym):
        vb = z3.simplify(b.e)
        if z3.is_int_value(vb):
            b = vb.as_long()
        elif z3.is_rational_value(vb):
            b = Fraction(vb.as_fraction())
        else:
            raise Unsupported("symbolic exponent")
    b = _coerce(b)
    if isinstance(b, float) and b == int(b):
        b = int(b)
    if isinstance(b, (float, Fraction)) and Fraction(b) == Fraction(1, 2):
        return sym_sqrt(a if isinstance(a, Sym) else Sym(lift(a)))
    if isinstance(b, int):
        ea = lift(a)
        if b == 0:
            return Sym(z3.IntVal(1))
        neg = b < 0
        n = abs(b)
        out = ea
        for _ in range(n - 1):
            out = out * ea
        if neg:
            return _truediv(1, Sym(out))
        return Sym(out)
    raise Unsupported(f"power with exponent {b!r}")


class SymBool:
    __slots__ = ("e",)
    __array_ufunc__ = None

    def __init__(self, e):
        if isinstance(e, bool):
            e = z3.BoolVal(e)
        self.e = e

    def __bool__(self):
        return cur().decide(self.e)

    def __repr__(self):
        return f"SymBool({z3.simplify(self.e)})"

    __hash__ = object.__hash__

    @staticmethod
    def _b(o):
        if isinstance(o, SymBool):
            return o.e
        if isinstance(o, (bool, _np.bool_)):
            return z3.BoolVal(bool(o))
        if isinstance(o, Sym):
            return o.e != 0
        if isinstance(o, (int, float)):
            return z3.BoolVal(bool(o))
        return None

    def _logic(self, o, op):
        if isinstance(o, _np.ndarray):
            from .arrays import elementwise

            return elementwise(lambda a: SymBool(op(self.e, SymBool._b(_coerce(a)))), o)
        b = SymBool._b(o)
        if b is None:
            return NotImplemented
        return SymBool(op(self.e, b))

    def __and__(self, o):
        return self._logic(o, z3.And)

    __rand__ = __and__

    def __or__(self, o):
        return self._logic(o, z3.Or)

    __ror__ = __or__

    def __xor__(self, o):
        return self._logic(o, z3.Xor)

    __rxor__ = __xor__

    def __invert__(self):
        return SymBool(z3.Not(self.e))

    def __eq__(self, o):  # type: ignore[override]
        b = SymBool._b(o)
        if b is None:
            return False
        return SymBool(self.e == b)

    def __ne__(self, o):  # type: ignore[override]
        b = SymBool._b(o)
        if b is None:
            return True
        return SymBool(self.e != b)

    # arithmetic on booleans (mask * value etc.)
    def _num(self):
        return Sym(z3.If(self.e, z3.IntVal(1), z3.IntVal(0)))

    def __mul__(self, o):
        return self._num() * o

    __rmul__ = __mul__

    def __add__(self, o):
        return self._num() + o

    __radd__ = __add__

    def __sub__(self, o):
        return self._num() - o

    def __rsub__(self, o):
        return o - self._num()

    def __neg__(self):
        return -self._num()

    def __int__(self):
        return int(bool(self))

    def __index__(self):
        return int(bool(self))

    def astype(self, dtype, copy=True):
        return cast_scalar(self, dtype)

    def item(self):
        return self


# ---------------------------------------------------------------------------------------
# complex numbers (exact: pairs of Sym/rational)


class SymComplex:
    __slots__ = ("re", "im")
    __array_ufunc__ = None
    __array_priority__ = 1000

    def __init__(self, re, im=0):
        self.re = re if isinstance(re, Sym) else Sym(lift(_coerce(re)))
        self.im = im if isinstance(im, Sym) else Sym(lift(_coerce(im)))

    @staticmethod
    def of(x):
        if isinstance(x, SymComplex):
            return x
        x = _coerce(x)
        if isinstance(x, complex):
            return SymComplex(x.real, x.imag)
        return SymComplex(x, 0)

    def __repr__(self):
        return f"SymComplex({self.re!r}, {self.im!r})"

    __hash__ = object.__hash__

    def _bin(self, o, op, reflected=False):
        if isinstance(o, _np.ndarray):
            from .arrays import elementwise

            if reflected:
                return elementwise(lambda a: op(SymComplex.of(a), self), o)
            return elementwise(lambda a: op(self, SymComplex.of(a)), o)
        if not (_is_scalar(o) or isinstance(o, (complex, SymComplex, _np.complexfloating))):
            return NotImplemented
        o = SymComplex.of(o)
        return op(o, self) if reflected else op(self, o)

    def __add__(self, o):
        return self._bin(o, lambda a, b: SymComplex(a.re + b.re, a.im + b.im))

    def __radd__(self, o):
        return self._bin(o, lambda a, b: SymComplex(a.re + b.re, a.im + b.im), True)

    def __sub__(self, o):
        return self._bin(o, lambda a, b: SymComplex(a.re - b.re, a.im - b.im))

    def __rsub__(self, o):
        return self._bin(o, lambda a, b: SymComplex(a.re - b.re, a.im - b.im), True)

    @staticmethod
    def _mul(a, b):
        return SymComplex(a.re * b.re - a.im * b.im, a.re * b.im + a.im * b.re)

    def __mul__(self, o):
        return self._bin(o, SymComplex._mul)

    def __rmul__(self, o):
        return self._bin(o, SymComplex._mul, True)

    @staticmethod
    def _div(a, b):
        d = b.re * b.re + b.im * b.im
        return SymComplex((a.re * b.re + a.im * b.im) / d, (a.im * b.re - a.re * b.im) / d)

    def __truediv__(self, o):
        return self._bin(o, SymComplex._div)

    def __rtruediv__(self, o):
        return self._bin(o, SymComplex._div, True)

    def __neg__(self):
        return SymComplex(-self.re, -self.im)

    def __pos__(self):
        return self

    def __pow__(self, n):
        n = _coerce(n)
        if isinstance(n, float) and n == int(n):
            n = int(n)
        if not isinstance(n, int) or n < 0:
            raise Unsupported("complex power")
        out = SymComplex(1, 0)
        for _ in range(n):
            out = SymComplex._mul(out, self)
        return out

    def conjugate(self):
        return SymComplex(self.re, -self.im)

    conj = conjugate

    @property
    def real(self):
        return self.re

    @property
    def imag(self):
        return self.im

    def __eq__(self, o):  # type: ignore[override]
        o = SymComplex.of(o)
        return SymBool(z3.And(self.re.e == lift(o.re), self.im.e == lift(o.im)))

    def __abs__(self):
        return sym_sqrt(self.re * self.re + self.im * self.im)

    def item(self):
        return self


# ---------------------------------------------------------------------------------------
# special functions

_SQRT = z3.Function("Sqrt", z3.RealSort(), z3.RealSort())
_EXP = z3.Function("Exp", z3.RealSort(), z3.RealSort())

SQRT_MODE = {"opaque": False}


def sym_sqrt(x):
    """sqrt: a fresh r with r >= 0, r*r = x (obligation x >= 0 recorded first)."""
    x = _coerce(x)
    if isinstance(x, (int, float, Fraction)) and not isinstance(x, bool):
        if x < 0:
            return float("nan")
        r = math.isqrt(int(x)) if isinstance(x, int) else None
        if r is not None and r * r == x:
            return r
        fx = Fraction(x)
        rn, rd = math.isqrt(fx.numerator), math.isqrt(fx.denominator)
        if rn * rn == fx.numerator and rd * rd == fx.denominator:
            return Q(Fraction(rn, rd))
        x = Sym(lift(fx))
    if isinstance(x, SymBool):
        x = x._num()
    e = _real(x.e)
    v = z3.simplify(e)
    if z3.is_rational_value(v):
        fx = Fraction(v.as_fraction())
        if fx >= 0:
            rn, rd = math.isqrt(fx.numerator), math.isqrt(fx.denominator)
            if rn * rn == fx.numerator and rd * rd == fx.denominator:
                return Sym(z3.RealVal(Fraction(rn, rd)))
    sq = _perfect_square(v) if not SQRT_MODE["opaque"] else None
    if sq is not None:
        # sqrt(c * t^2) = sqrt(c) |t| for a rational square c: exact, no fresh variable
        c, t = sq
        return Sym(z3.RealVal(c) * z3.If(t >= 0, t, -t))
    ex = cur() if _CUR is not None else None
    if SQRT_MODE["opaque"] or ex is None:
        if ex is not None and z3.is_rational_value(v) and v.as_fraction() >= 0:
            # square root of a concrete number: opaque node, but pinned down by its defining property
            ex.assume(z3.And(_SQRT(e) >= 0, _SQRT(e) * _SQRT(e) == e))
        return Sym(_SQRT(e))
    ex.oblige("sqrt-domain", e >= 0)
    r = z3.Real(ex.fresh_name("sqrt"))
    ex.assume(z3.And(r >= 0, r * r == e))
    return Sym(r)


def _perfect_square(v):
    """v (simplified) of the form c * t * t or c * t**2 with c the square of a rational: returns (sqrt(c), t)"""
    c = Fraction(1)
    t = v
    if z3.is_app(t) and t.decl().kind() == z3.Z3_OP_MUL:
        ch = t.children()
        nums = [x for x in ch if z3.is_rational_value(x)]
        rest = [x for x in ch if not z3.is_rational_value(x)]
        for x in nums:
            c *= Fraction(x.as_fraction())
        if len(rest) == 2 and z3.eq(rest[0], rest[1]):
            t = rest[0]
        elif len(rest) == 1:
            t = rest[0]
            if not (z3.is_app(t) and t.decl().kind() == z3.Z3_OP_POWER):
                return None
        else:
            return None
    if z3.is_app(t) and t.decl().kind() == z3.Z3_OP_POWER:
        b, e = t.children()
        if z3.is_rational_value(e) and e.as_fraction() == 2:
            t = b
        else:
            return None
    elif t is v:
        return None
    if c <= 0:
        return None
    rn, rd = math.isqrt(c.numerator), math.isqrt(c.denominator)
    if rn * rn != c.numerator or rd * rd != c.denominator:
        return None
    return Fraction(rn, rd), t


def sym_exp(x):
    x = _coerce(x)
    if isinstance(x, (int, float, Fraction)) and x == 0:
        return 1
    if isinstance(x, (int, float)):
        return Sym(_EXP(lift(Fraction(x))))
    if isinstance(x, SymComplex):
        raise Unsupported("complex exponential of a symbolic argument")
    e = _real(x.e)
    if z3.is_rational_value(z3.simplify(e)) and z3.simplify(e).as_fraction() == 0:
        return Sym(z3.RealVal(1))
    return Sym(_EXP(e))


# ---------------------------------------------------------------------------------------
# builtin replacements bound into loaded namespaces


class _IntMeta(type):
    def __instancecheck__(cls, obj):
        return isinstance(obj, int) or (isinstance(obj, Sym) and obj.is_int)

    def __subclasscheck__(cls, sub):
        return issubclass(sub, int)

    def __call__(cls, x=0, *a):
        if isinstance(x, Sym):
            return Sym(z_trunc(x.e))
        if isinstance(x, SymBool):
            return x._num()
        if isinstance(x, _np.ndarray) and x.dtype == object and x.ndim == 0:
            return cls(x.item())
        return int(x, *a)


class symint(metaclass=_IntMeta):
    """Replacement for builtin `int` inside loaded acryo modules."""


class _FloatMeta(type):
    def __instancecheck__(cls, obj):
        return isinstance(obj, float) or (isinstance(obj, Sym) and not obj.is_int)

    def __subclasscheck__(cls, sub):
        return issubclass(sub, float)

    def __call__(cls, x=0.0):
        if isinstance(x, Sym):
            return Sym(_real(x.e))
        if isinstance(x, SymBool):
            return Sym(_real(x._num().e))
        if isinstance(x, _np.ndarray) and x.dtype == object and x.size == 1:
            return cls(x.reshape(-1)[0])
        if getattr(x, "_symx_passthrough", False):
            return x
        return float(x)


class symfloat(metaclass=_FloatMeta):
    """Replacement for builtin `float` inside loaded acryo modules."""


def symround(x, n=None):
    if isinstance(x, Sym):
        return x.__round__(n)
    return round(x, n) if n is not None else round(x)


def symabs(x):
    if isinstance(x, Sym):
        return abs(x)
    return abs(x)


def _sym_extreme(args, key, pick):
    if len(args) == 1:
        args = list(args[0])
    if not any(isinstance(a, Sym) for a in args):
        return None
    out = args[0]
    for a in args[1:]:
        out = Sym(pick(lift(_coerce(out)), lift(_coerce(a))))
    return out


def symmax(*args, **kw):
    r = _sym_extreme(args, None, lambda a, b: z_max(*_same_sort(a, b))) if not kw else None
    return r if r is not None else max(*args, **kw)


def symmin(*args, **kw):
    r = _sym_extreme(args, None, lambda a, b: z_min(*_same_sort(a, b))) if not kw else None
    return r if r is not None else min(*args, **kw)


def _same_sort(a, b):
    if a.sort() != b.sort():
        return _real(a), _real(b)
    return a, b


class SymMath:
    """Replacement for the `math` module inside loaded namespaces."""

    @property
    def pi(self):
        from .angles import PiMultiple

        return PiMultiple(2)

    def __getattr__(self, name):
        return getattr(math, name)

    @staticmethod
    def radians(x):
        from .angles import radians

        return radians(x)

    @staticmethod
    def cos(x):
        from .angles import SymAngle

        return x.c if isinstance(x, SymAngle) else math.cos(x)

    @staticmethod
    def sin(x):
        from .angles import SymAngle

        return x.s if isinstance(x, SymAngle) else math.sin(x)

    @staticmethod
    def ceil(x):
        if isinstance(x, Sym):
            return Sym(z_ceil(x.e))
        return math.ceil(x)

    @staticmethod
    def floor(x):
        if isinstance(x, Sym):
            return Sym(z_floor(x.e))
        return math.floor(x)

    @staticmethod
    def sqrt(x):
        if isinstance(x, Sym):
            return sym_sqrt(x)
        return math.sqrt(x)

    @staticmethod
    def exp(x):
        if isinstance(x, Sym):
            return sym_exp(x)
        return math.exp(x)


def cast_scalar(x, dtype):
    """astype() for one element."""
    dt = _np.dtype(dtype) if dtype is not object else None
    if dt is None:
        return x
    if dt.kind in "iu":
        if isinstance(x, Sym):
            t = z_trunc(x.e)
            bits = dt.itemsize * 8
            if bits <= 16:
                # narrow integer types wrap around (C cast semantics): model it
                m = 1 << bits
                t = t % m
                if dt.kind == "i":
                    t = z3.If(t >= m // 2, t - m, t)
            return Sym(t)
        if isinstance(x, SymBool):
            return x._num()
        v = int(x)
        bits = dt.itemsize * 8
        if bits <= 16:
            m = 1 << bits
            v %= m
            if dt.kind == "i" and v >= m // 2:
                v -= m
        return v
    if dt.kind == "f":
        if isinstance(x, Sym):
            return Sym(_real(x.e))
        if isinstance(x, SymBool):
            return Sym(_real(x._num().e))
        if isinstance(x, SymComplex):
            return x.re
        return float(x) if not isinstance(x, Fraction) else x
    if dt.kind == "b":
        if isinstance(x, Sym):
            return SymBool(x.e != 0)
        if isinstance(x, SymBool):
            return x
        return bool(x)
    if dt.kind == "c":
        return x if isinstance(x, SymComplex) else SymComplex.of(x)
    return x


def concretize(x: Sym, cap: int = 256) -> int:
    """Fork over the feasible integer values of x under the current path condition."""
    ex = cur()
    v = z3.simplify(x.e)
    if z3.is_int_value(v):
        return v.as_long()
    for _ in range(cap):
        s = ex._solver
        pos = len(ex.path.decisions)
        if pos in ex._hints:
            k = ex._hints[pos]  # replaying: reuse the candidate chosen the first time
        else:
            r = _timed_check(s)
            if r != "sat":
                raise PathAbort("cannot concretise: " + r)
            k = s.model().eval(x.e, model_completion=True)
            if not z3.is_int_value(k):
                raise Unsupported("cannot concretise a value the model does not determine (uninterpreted term)")
            k = k.as_long()
            ex._hints[pos] = k
        if ex.decide(x.e == k):
            return k
    raise BudgetExceeded("concretize: too many feasible values")


# ---------------------------------------------------------------------------------------
# fresh inputs


def real(name: str) -> Sym:
    return Sym(z3.Real(name))


def integer(name: str) -> Sym:
    return Sym(z3.Int(name))


def boolean(name: str) -> SymBool:
    return SymBool(z3.Bool(name))


def val(x) -> Any:
    """z3 view of a python/sym value."""
    return lift(_coerce(x))
