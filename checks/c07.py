"""C07 -- correlation scores mean what they say.

Real code: acryo/backend/_zncc.py (ncc, zncc, ncc_landscape, ncc_landscape_no_pad, zncc/ncc_landscape_with_crop, _window_sum_3d,
fftconvolve, _apply_conv_mode, _safe_sqrt, subpixel_zncc), acryo/backend/_fsc.py (fsc, fsc_landscape), acryo/alignment/_base.py
(BaseAlignmentModel.score / landscape / _landscape_single / _optimize_single, TomographyInput.pre_transform,
_get_missing_wedge_mask), acryo/alignment/_concrete.py (ZNCC/NCC/FSC _score/_landscape/_optimize).
All voxels are symbolic; square roots are kept as opaque nodes and the scores are decomposed into numerator / radicand.
"""
from __future__ import annotations

import itertools
from fractions import Fraction

import numpy as np
import z3

from symx import harness, load, rotation, stubs, smt
from symx import core as C
from symx.arrays import SymArray, to_symarray, _obj
from symx.core import Sym, explore, lift, real, _real, _coerce
from symx.fftstub import FFTStub

from .common import TRUSTED, fl, frac, quick, select

PID = "C07"
MODS = ["acryo._utils", "acryo._rotation", "acryo.backend._bandpass", "acryo.backend._missing_wedge", "acryo.backend._mesh", "acryo.backend._upsample", "acryo.backend._zncc",
        "acryo.backend._pcc", "acryo.backend._fsc", "acryo.backend._api", "acryo.tilt._utils", "acryo.tilt._base", "acryo.tilt._single", "acryo.tilt.core",
        "acryo.alignment._base", "acryo.alignment._concrete"]


def zr(x):
    return _real(lift(_coerce(x)))


def _load(patches=None):
    stubs.patch_dask_from_delayed()
    L = load.load(MODS, overrides={"Rotation": rotation.SymRotation}, patches=patches)
    API = L["acryo.backend._api"]
    xp = stubs.make_backend(API, API.np, stubs.NdiStub(), FFTStub("exact"))
    L["acryo.alignment._base"].Backend = lambda *a, **k: xp
    L["acryo.backend._zncc"].next_fast_len = lambda n, real=False: n
    L.xp = xp
    return L


def img(stem, shape):
    a = SymArray(shape=shape)
    for idx in np.ndindex(shape):
        a[idx] = real(f"{stem}_" + "_".join(map(str, idx)))
    return a


def split_score(term):
    """score = N / Sqrt(R)  (opaque square root), possibly guarded as If(cond, N/Sqrt(R), 0): returns (N, R, cond|None), or None"""
    t = term if isinstance(term, z3.ExprRef) else zr(term)
    cond = None
    if z3.is_app(t) and t.decl().kind() == z3.Z3_OP_ITE:
        c, a, b = t.children()
        if z3.is_rational_value(z3.simplify(b)) and z3.simplify(b).as_fraction() == 0:
            cond, t = c, a
    if z3.is_app(t) and t.decl().kind() == z3.Z3_OP_DIV:
        num, den = t.children()
        if z3.is_app(den) and den.decl().name() == "Sqrt":
            return num, den.children()[0], cond
        if z3.is_app(den) and den.decl().kind() == z3.Z3_OP_MUL:
            rad = z3.RealVal(1)
            ok = True
            for ch in den.children():
                if z3.is_app(ch) and ch.decl().name() == "Sqrt":
                    rad = rad * ch.children()[0]
                elif z3.is_rational_value(ch):
                    rad = rad * ch * ch
                else:
                    ok = False
            if ok:
                return num, rad, cond
    return None


def resolve_ite(term, hyps, limit=40):
    """choose the branch of every If in `term` that the hypotheses force (non-degenerate images): returns the If-free term or None"""
    t = z3.simplify(term)
    for _ in range(limit):
        ite = _find_ite(t)
        if ite is None:
            return t
        c, a, b = ite.children()
        if smt.prove(hyps, c, timeout_ms=15000, nonlinear=True).status == "holds":
            t = z3.simplify(z3.substitute(t, (ite, a)))
        elif smt.prove(hyps, z3.Not(c), timeout_ms=15000, nonlinear=True).status == "holds":
            t = z3.simplify(z3.substitute(t, (ite, b)))
        else:
            return None
    return None


def _find_ite(t):
    seen, stack = set(), [t]
    while stack:
        u = stack.pop()
        if u.get_id() in seen:
            continue
        seen.add(u.get_id())
        if z3.is_app(u) and u.decl().kind() == z3.Z3_OP_ITE and not any(_has_ite(ch) for ch in u.children()[:1]):
            # innermost-condition first is not required; any ITE whose condition is ITE-free will do
            return u
        stack.extend(u.children())
    return None


def _has_ite(t):
    return _find_ite(t) is not None


def nondegenerate(*images):
    """variance of every image > 0 (centred) -- the pairs for which normalised scores are defined"""
    out = []
    for im in images:
        v = [zr(x) for x in _obj(im).reshape(-1)]
        m = sum(v, z3.RealVal(0)) / len(v)
        out.append(sum(((x - m) * (x - m) for x in v), z3.RealVal(0)) > 0)
        out.append(sum((x * x for x in v), z3.RealVal(0)) > 0)
    return out


def _vars_of(*terms):
    seen, out, stack = set(), {}, list(terms)
    while stack:
        t = stack.pop()
        if t.get_id() in seen:
            continue
        seen.add(t.get_id())
        if z3.is_const(t) and t.decl().kind() == z3.Z3_OP_UNINTERPRETED:
            out[t.decl().name()] = t
        else:
            stack.extend(t.children())
    return out


def scale_between(N1, N2):
    """the rational constant c with N1 = c * N2, guessed by evaluating both polynomials at one rational point (proved afterwards)"""
    vs = _vars_of(N1, N2)
    rng = np.random.default_rng(12345)
    for _ in range(5):
        sub = [(v, z3.RealVal(Fraction(int(rng.integers(1, 40)), int(rng.integers(1, 7))))) for v in vs.values()]
        a = z3.simplify(z3.substitute(N1, *sub))
        b = z3.simplify(z3.substitute(N2, *sub))
        if z3.is_rational_value(a) and z3.is_rational_value(b) and b.as_fraction() != 0:
            return Fraction(a.as_fraction()) / Fraction(b.as_fraction())
    return None


def pearson_parts(a, b, centred=True):
    a = [zr(v) for v in _obj(a).reshape(-1)]
    b = [zr(v) for v in _obj(b).reshape(-1)]
    n = len(a)
    ma = sum(a, z3.RealVal(0)) / n if centred else z3.RealVal(0)
    mb = sum(b, z3.RealVal(0)) / n if centred else z3.RealVal(0)
    N = sum(((x - ma) * (y - mb) for x, y in zip(a, b)), z3.RealVal(0))
    R = sum(((x - ma) * (x - ma) for x in a), z3.RealVal(0)) * sum(((y - mb) * (y - mb) for y in b), z3.RealVal(0))
    return N, R


# ---------------------------------------------------------------------------------------
# replay: numerical spot checks of the same statements on the installed library


def replay_scores(cex):
    from acryo.alignment import ZNCCAlignment, NCCAlignment, FSCAlignment
    from acryo.backend import Backend
    from acryo.backend._zncc import zncc, ncc, zncc_landscape_with_crop

    rng = np.random.default_rng(0)
    bad = {}
    xp = Backend()
    for shape in [(4, 4, 4), (5, 6, 7), (6, 5, 4)]:
        a = rng.normal(size=shape).astype(np.float32)
        b = rng.normal(size=shape).astype(np.float32)
        r = float(zncc(a, b, xp))
        ref = float(np.corrcoef(a.ravel(), b.ravel())[0, 1])
        if abs(r - ref) > 1e-4:
            bad[f"zncc-vs-pearson{shape}"] = [r, ref]
        u = float(ncc(a, b, xp))
        refu = float((a * b).sum() / np.sqrt((a * a).sum() * (b * b).sum()))
        if abs(u - refu) > 1e-4:
            bad[f"ncc{shape}"] = [u, refu]
        if abs(float(zncc(a, a, xp)) - 1) > 1e-4:
            bad[f"self{shape}"] = float(zncc(a, a, xp))
        if abs(float(zncc(3.5 * a + 2, b, xp)) - r) > 1e-4:
            bad[f"gain-offset{shape}"] = float(zncc(3.5 * a + 2, b, xp))
        m = ZNCCAlignment(b)
        s = float(m.score(a, np.array([0, 0, 0, 1.0]), np.zeros(3)))
        lds = m.landscape(a, (1, 1, 1))
        al = m.align(a, (0, 0, 0))
        if abs(s - ref) > 1e-4 or abs(float(lds[1, 1, 1]) - s) > 1e-4 or abs(float(al.score) - s) > 1e-4:
            bad[f"model-score-landscape-align{shape}"] = [s, ref, float(lds[1, 1, 1]), float(al.score)]
        # masks: binary, soft reaching zero, soft WITHOUT any zero voxel -- the score is the Pearson correlation of the two masked images
        for mname, mk in (("binary", (rng.uniform(size=shape) > 0.4).astype(np.float32)), ("soft", np.clip(rng.uniform(-0.2, 1.0, size=shape), 0, 1).astype(np.float32)),
                          ("soft-no-zero", rng.uniform(0.05, 1.0, size=shape).astype(np.float32))):
            mm = ZNCCAlignment(b, mk)
            sm = float(mm.score(a, np.array([0, 0, 0, 1.0]), np.zeros(3)))
            refm = float(np.corrcoef((a * mk).ravel(), (b * mk).ravel())[0, 1])
            alm = mm.align(a, (0, 0, 0))
            if abs(sm - refm) > 1e-4 or abs(float(alm.score) - sm) > 1e-4:
                bad[f"masked-score[{mname}]{shape}"] = [sm, refm, float(alm.score)]
    return len(bad) > 0, {"problems": {k: v for k, v in list(bad.items())[:5]}}


def replay_constant(kind):
    def run(cex):
        from acryo.alignment import ZNCCAlignment, NCCAlignment, FSCAlignment, PCCAlignment

        Model = {"zncc": ZNCCAlignment, "ncc": NCCAlignment, "fsc": FSCAlignment, "pcc": PCCAlignment}[kind]
        rng = np.random.default_rng(1)
        t = rng.normal(size=(6, 6, 6)).astype(np.float32)
        m = Model(t)
        out = {}
        bad = False
        for name, sub in (("constant", np.full((6, 6, 6), 3.0, dtype=np.float32)), ("zeros", np.zeros((6, 6, 6), dtype=np.float32))):
            for ms in ((1.0, 1.0, 1.0), (0, 0, 0), (0, 0.3, 0), (0, 0, 1), (2.5, 0, 1)):
                with np.errstate(all="ignore"):
                    r = m.align(sub, ms)
                    ls = np.asarray(m.landscape(sub, ms))
                fin = bool(np.isfinite(r.score) and np.all(np.isfinite(r.shift)) and np.all(np.isfinite(ls)))
                bad = bad or not fin
                if not fin or ms == (1.0, 1.0, 1.0):
                    out[f"{name},max_shifts={ms}"] = {"shift": [float(v) for v in r.shift], "score": float(r.score), "landscape_finite": bool(np.all(np.isfinite(ls)))}
        return bad, {"model": kind, **out}

    return run


# ---------------------------------------------------------------------------------------


def sec_formulas(rec, shape=(1, 2, 2), patches=None):
    """zncc() = Pearson r, ncc() = uncentred normalised correlation; = 1 on identical inputs; gain/offset invariance; [-1, 1]"""
    L = _load(patches)
    Z = L["acryo.backend._zncc"]
    xp = L.xp
    rec.encodes("acryo/backend/_zncc.py:ncc", "acryo/backend/_zncc.py:zncc")
    rec.assume("sqrt is kept as an opaque node: score = N / Sqrt(R); N and R are compared with the reference covariance / variance product as polynomial identities; "
               "|N/Sqrt(R)| <= 1 then is the Cauchy-Schwarz inequality (solver-checked up to 4 voxels, a mathematical lemma beyond)")
    a, b = img("a", shape), img("b", shape)
    n = int(np.prod(shape))
    g, off = real("gain"), real("offset")
    C.SQRT_MODE["opaque"] = True
    try:
        for fn, centred in (("zncc", True), ("ncc", False)):
            f = getattr(Z, fn)
            p = explore(lambda: (f(a, b, xp), f(a, a, xp), f(a * g + (off if centred else 0), b, xp)))[0]
            tag = f"{fn}[{shape}]"
            if not p.ok:
                rec.fact(f"{tag}/runs", False, key=f"C07/{fn}/raises", detail={"exc": repr(p.exc)[:200]}, reproduced=replay_scores({})[0])
                continue
            sc, self_sc, gain_sc = p.result
            parts = split_score(sc)
            if parts is None:
                rec.fact(f"{tag}/has-the-form-N/sqrt(R)", False, key=f"C07/{fn}/form", detail={"term": str(zr(sc))[:200]}, reproduced=replay_scores({})[0])
                continue
            N, R, _g = parts
            Nref, Rref = pearson_parts(a, b, centred)
            rec.query(f"{tag}/numerator=covariance", [], N == Nref, key=f"C07/{fn}/formula", replay=replay_scores, twin=False, nonlinear=True)
            rec.query(f"{tag}/radicand=product-of-variances", [], R == Rref, key=f"C07/{fn}/formula", replay=replay_scores, twin=False, nonlinear=True)
            rec.query(f"{tag}/radicand>=0", [], R >= 0, key=f"C07/{fn}/radicand-sign", replay=replay_scores, twin=False, nonlinear=True, timeout_ms=60000) if n <= 4 else None
            # identical inputs: N^2 = R and N >= 0  =>  score = 1 (when the image is not constant)
            Ns, Rs, _g = split_score(self_sc)
            rec.query(f"{tag}/identical-inputs: N*N=R", [], Ns * Ns == Rs, key=f"C07/{fn}/self-score", replay=replay_scores, twin=False, nonlinear=True)
            if n <= 4:
                rec.query(f"{tag}/identical-inputs: N>=0", [], Ns >= 0, key=f"C07/{fn}/self-score", replay=replay_scores, twin=False, nonlinear=True, timeout_ms=60000)
            # positive gain (and offset for zncc): N scales by g, R by g^2  =>  same score
            Ng, Rg, _g = split_score(gain_sc)
            rec.query(f"{tag}/gain: N'=g*N", [g.e > 0], Ng == g.e * N, key=f"C07/{fn}/gain-invariance", replay=replay_scores, twin=False, nonlinear=True)
            rec.query(f"{tag}/gain: R'=g^2*R", [g.e > 0], Rg == g.e * g.e * R, key=f"C07/{fn}/gain-invariance", replay=replay_scores, twin=False, nonlinear=True)
            # range: N^2 <= R (Cauchy-Schwarz), brute force only for tiny n
            if n <= (3 if True else 4):
                rec.query(f"{tag}/N*N<=R", [], N * N <= R, key=f"C07/{fn}/range", replay=replay_scores, twin=False, nonlinear=True, timeout_ms=120000)
            # denominators: zero only for a constant (zncc) / zero (ncc) image
            va = sum(((zr(v) - (sum((zr(w) for w in _obj(a).reshape(-1)), z3.RealVal(0)) / n if centred else 0)) ** 2 for v in _obj(a).reshape(-1)), z3.RealVal(0))
            vb = sum(((zr(v) - (sum((zr(w) for w in _obj(b).reshape(-1)), z3.RealVal(0)) / n if centred else 0)) ** 2 for v in _obj(b).reshape(-1)), z3.RealVal(0))
            if n <= 4:
                rec.query(f"{tag}/R=0 only for a degenerate image", [va > 0, vb > 0], R > 0, key=f"C07/{fn}/zero-denominator", twin=False, nonlinear=True, timeout_ms=60000)
    finally:
        C.SQRT_MODE["opaque"] = False


def sec_model(rec, kind="zncc", shape=(1, 2, 2), patches=None):
    """model.score = zero-range landscape centre = zero-range align score = score function of the pre-processed images"""
    L = _load(patches)
    B, CC, Z, F = L["acryo.alignment._base"], L["acryo.alignment._concrete"], L["acryo.backend._zncc"], L["acryo.backend._fsc"]
    xp = L.xp
    rec.encodes("acryo/alignment/_base.py:BaseAlignmentModel.score", "acryo/alignment/_base.py:BaseAlignmentModel.landscape", "acryo/alignment/_base.py:BaseAlignmentModel.align",
                "acryo/alignment/_base.py:BaseAlignmentModel._landscape_single", "acryo/alignment/_base.py:BaseAlignmentModel._optimize_single", "acryo/alignment/_base.py:TomographyInput.pre_transform",
                "acryo/alignment/_concrete.py:" + {"zncc": "ZNCCAlignment", "ncc": "NCCAlignment", "fsc": "FSCAlignment"}[kind], "acryo/backend/_zncc.py:ncc_landscape_no_pad",
                "acryo/backend/_zncc.py:fftconvolve", "acryo/backend/_zncc.py:_window_sum_3d", "acryo/backend/_zncc.py:subpixel_zncc", "acryo/backend/_upsample.py:upsample")
    rec.assume("scipy.fft: fftn/ifftn are the exact DFT (axis lengths 1,2,4); irfftn(rfftn(a,s)*rfftn(b,s),s) is the circular convolution of the zero-padded inputs (convolution theorem)")
    rec.assume("ndimage.map_coordinates reproduces the samples at integer coordinates")
    Model = {"zncc": CC.ZNCCAlignment, "ncc": CC.NCCAlignment, "fsc": CC.FSCAlignment}[kind]
    t, a, mk = img("t", shape), img("a", shape), img("m", shape)
    tag = f"model[{kind},{shape}]"
    quat = np.array([0.0, 0.0, 0.0, 1.0])
    pos = np.zeros(3)
    C.SQRT_MODE["opaque"] = True
    try:
        for with_mask in (False, True):
            def run():
                m = Model(t, mk if with_mask else None)
                sc = m.score(a, quat, pos, backend=xp)
                lds = m.landscape(a, (0, 0, 0), backend=xp)
                al = m.align(a, (0, 0, 0), backend=xp)
                return sc, lds, al

            mtag = f"{tag}/mask={int(with_mask)}"
            paths = explore(run, max_paths=40)
            for pi, p in enumerate(paths):
                if not p.ok:
                    ok, det = replay_scores({})
                    rec.fact(f"{mtag}/path{pi}/runs", False, key=f"C07/model[{kind}]/raises", detail={"exc": repr(p.exc)[:300], **det}, reproduced=ok)
                    continue
                sc, lds, al = p.result
                h = [p.condition()]
                ps = split_score(sc)
                am = a * mk if with_mask else a
                tm = t * mk if with_mask else t
                if kind in ("zncc", "ncc") and ps is not None:
                    Nref, Rref = pearson_parts(am, tm, kind == "zncc")
                    c = scale_between(ps[0], Nref)
                    okc = c is not None and c > 0
                    rec.fact(f"{mtag}/path{pi}/score-proportional-to-pearson", bool(okc), key=f"C07/model[{kind}]/score-formula", detail={"c": str(c)})
                    if okc:
                        rec.query(f"{mtag}/path{pi}/score-numerator=c*covariance", h, ps[0] == z3.RealVal(c) * Nref, key=f"C07/model[{kind}]/score-formula", replay=replay_scores, twin=False, nonlinear=True, timeout_ms=30000)
                        rec.query(f"{mtag}/path{pi}/score-radicand=c^2*variances", h, ps[1] == z3.RealVal(c * c) * Rref, key=f"C07/model[{kind}]/score-formula", replay=replay_scores, twin=False, nonlinear=True, timeout_ms=30000)
                elif kind in ("zncc", "ncc"):
                    rec.fact(f"{mtag}/path{pi}/score-form", False, key=f"C07/model[{kind}]/score-form", detail={"term": str(zr(sc))[:200]})
                # landscape with zero range has one entry: the centre; it equals the score; so does the zero-range alignment score
                l0 = _obj(lds)
                okc = l0.shape == (1, 1, 1)
                rec.fact(f"{mtag}/path{pi}/zero-range-landscape-has-one-entry", okc, key=f"C07/model[{kind}]/landscape-shape", detail={"shape": list(l0.shape)})
                nd = nondegenerate(am, tm)
                if kind == "ncc":
                    continue  # the property ties score/landscape/zero-range score together for the normalised models ZNCC and FSC only
                if okc:
                    _same_score(rec, f"{mtag}/path{pi}/landscape-centre=score", h, l0[0, 0, 0], sc, f"C07/model[{kind}]/centre-vs-score", nd)
                _same_score(rec, f"{mtag}/path{pi}/zero-range-align-score=score", h, al.score, sc, f"C07/model[{kind}]/align-vs-score", nd)
                for k in range(3):
                    rec.query(f"{mtag}/path{pi}/zero-range-shift{k}=0", h, zr(al.shift[k]) == 0, key=f"C07/model[{kind}]/zero-range-shift", twin=False)
    finally:
        C.SQRT_MODE["opaque"] = False


def _same_score(rec, label, h, x, y, key, nd=()):
    """two scores N1/Sqrt(R1) and N2/Sqrt(R2) are the same number for non-degenerate images:
    N1 = c N2 and R1 = c^2 R2 for a positive constant c (ring identities)"""
    rx = resolve_ite(zr(x), list(h) + list(nd))
    ry = resolve_ite(zr(y), list(h) + list(nd))
    if rx is None or ry is None:
        rec.inconclusive(label, "could not resolve the guards of a score term under the non-degeneracy hypotheses")
        return
    px, py = split_score(rx), split_score(ry)
    if px is None or py is None:
        rec.query(label, h, zr(x) == zr(y), key=key, replay=replay_scores, twin=False, nonlinear=True, timeout_ms=30000)
        return
    c = scale_between(px[0], py[0])
    if c is None or c <= 0:
        rec.fact(label + "/proportional-with-a-positive-constant", False, key=key, detail={"c": str(c)}, reproduced=replay_scores({})[0])
        return
    rec.query(label + f"/numerator (c={c})", h, px[0] == z3.RealVal(c) * py[0], key=key, replay=replay_scores, twin=False, nonlinear=True, timeout_ms=30000)
    rec.query(label + f"/radicand (c^2)", h, px[1] == z3.RealVal(c * c) * py[1], key=key, replay=replay_scores, twin=False, nonlinear=True, timeout_ms=30000)
    for side, pr in (("lhs", px), ("rhs", py)):
        if pr[2] is not None:
            # a guarded entry If(var > 0, N/sqrt(var), 0): the guard must be "radicand > 0"
            rec.query(label + f"/{side}-guard-is-radicand>0", h, pr[2] == (pr[1] > 0), key=key + "/guard", twin=False, nonlinear=True, timeout_ms=30000)


def sec_chain(rec, patches=None):
    """the pre-processing chain is mask -> low-pass -> wedge in score, landscape and align alike"""
    L = _load(patches)
    B = L["acryo.alignment._base"]
    rec.encodes("acryo/alignment/_base.py:BaseAlignmentModel.score/_landscape_single/_optimize_single/_optimize_multiple/_landscape_multiple (argument flow)")

    class Tok:
        def __init__(self, what, *parts):
            self.what, self.parts = what, parts

        def __mul__(self, o):
            return Tok("mul", self, o)

        __rmul__ = __mul__

        def __eq__(self, o):
            return isinstance(o, Tok) and self.what == o.what and len(self.parts) == len(o.parts) and all(x == y if isinstance(x, Tok) else x is y for x, y in zip(self.parts, o.parts))

        __hash__ = object.__hash__

    seen = {}

    class M(B.BaseAlignmentModel):
        def __init__(self):
            self._n_templates = 1

        def pre_transform(self, image, backend):
            return Tok("pre", image)

        def _get_template_and_mask_input(self, backend=None):
            return TEMPLATE, MASK

        def _score(self, sub, tmpl, quaternion, pos, backend):
            seen["score"] = (sub, tmpl)
            return 0.0

        def _landscape(self, sub, tmpl, max_shifts, quaternion, pos, backend):
            seen["landscape"] = (sub, tmpl, max_shifts)
            return np.zeros((1, 1, 1))

        def _optimize(self, sub, tmpl, max_shifts, quaternion, pos, backend):
            seen["optimize"] = (sub, tmpl, max_shifts)
            return np.zeros(3), np.array([0, 0, 0, 1.0]), 0.0

    TEMPLATE, MASK, IMG = Tok("template"), Tok("mask"), Tok("img")

    class FB:
        def asarray(self, x):
            return x

        def asnumpy(self, x):
            return x

    m = M()
    fb = FB()
    m.score(IMG, None, None, backend=fb)
    m.landscape(IMG, (1.5, 2, 0), backend=fb)
    m.align(IMG, (1.5, 2, 0), backend=fb)
    want = Tok("pre", Tok("mul", IMG, MASK))
    ok = all(seen[k][0] == want and seen[k][1] is TEMPLATE for k in ("score", "landscape", "optimize"))
    rec.fact("chain/score,landscape,align feed pre_transform(img*mask) and the cached template to the scorer", bool(ok), key="C07/chain/order", detail={k: repr(v[0].what) for k, v in seen.items()})
    rec.fact("chain/max_shifts passed unchanged (no up-sampling)", tuple(seen["landscape"][2]) == (1.5, 2, 0) and tuple(seen["optimize"][2]) == (1.5, 2, 0), key="C07/chain/max_shifts", detail={})


def replay_cutoff(cex):
    """installed library: with a low-pass cutoff (and a mask) an identical sub-volume scores 1 and model.score is the Pearson correlation of the
    two images after the SAME mask + low-pass filter"""
    from acryo.alignment import ZNCCAlignment, NCCAlignment
    from acryo._utils import lowpass_filter

    rng = np.random.default_rng(0)
    bad = []
    for shape in ((12, 12, 12), (10, 11, 12)):
        t = rng.normal(size=shape).astype(np.float32)
        a = (t + 0.5 * rng.normal(size=shape)).astype(np.float32)
        zz = np.indices(shape)
        mask = (sum((zz[k] - (shape[k] - 1) / 2) ** 2 for k in range(3)) < 20).astype(np.float32)
        for cutoff in (0.15, 0.3, 0.5):
            for M in (ZNCCAlignment, NCCAlignment):
                for mk in (None, mask):
                    m = M(t, mk, cutoff=cutoff)
                    same = float(m.score(t, np.array([0, 0, 0, 1.0]), np.zeros(3)))
                    x, y = lowpass_filter(a * (1 if mk is None else mk), cutoff), lowpass_filter(t * (1 if mk is None else mk), cutoff)
                    if M is ZNCCAlignment:
                        x, y = x - x.mean(), y - y.mean()
                    ref = float((x * y).sum() / np.sqrt((x * x).sum() * (y * y).sum()))
                    got = float(m.score(a, np.array([0, 0, 0, 1.0]), np.zeros(3)))
                    if abs(same - 1) > 1e-3 or abs(got - ref) > 1e-3:
                        bad.append({"model": M.__name__, "shape": list(shape), "cutoff": cutoff, "mask": mk is not None, "score_of_identical": same, "score": got, "pearson_of_filtered_images": ref})
    return len(bad) > 0, {"n": len(bad), "examples": bad[:4]}


def sec_cutoff(rec, patches=None):
    """the cached template is prepared with the same low-pass cutoff (and mask) as the sub-volume that is scored against it"""
    L = _load(patches)
    B, CC, xp = L["acryo.alignment._base"], L["acryo.alignment._concrete"], L.xp
    rec.encodes("acryo/alignment/_base.py:TomographyInput.__init__", "acryo/alignment/_base.py:TomographyInput.pre_transform", "acryo/alignment/_base.py:BaseAlignmentModel.__init__",
                "acryo/alignment/_base.py:RotationImplemented._get_template_and_mask_input (cache)")
    rec.assume("Backend.lowpass_filter_ft is recorded: it returns a tag (image, cutoff); the filter itself is C16's subject")

    class LP:
        _symx_passthrough = True

        def __init__(self, img, cutoff):
            self.img, self.cutoff = img, cutoff

    xp.lowpass_filter_ft = stubs.like(xp.lowpass_filter_ft, lambda img, cutoff=None, order=2, *a, **k: LP(img, cutoff))
    shape = (1, 1, 2)
    t, t2, a, mk = img("t", shape), img("u", shape), img("a", shape), img("m", shape)
    c = real("cutoff")
    hyps = [c.e > 0, c.e < Fraction(4, 5)]
    for T in (1, 2):
        for with_mask in (False, True):
            tag = f"cutoff[T={T},mask={int(with_mask)}]"

            def run():
                tm = t if T == 1 else [t, t2]
                model = CC.ZNCCAlignment(tm, mk if with_mask else None, cutoff=c)
                tin, min_ = model._get_template_and_mask_input(backend=xp)
                sub = model.pre_transform(a * (mk if with_mask else 1), xp)
                return tin, sub

            for pi, p in enumerate(explore(run, assumptions=hyps, max_paths=10)):
                if not p.ok:
                    ok, det = replay_cutoff({})
                    rec.fact(f"{tag}/path{pi}/runs", False, key="C07/cutoff/raises", detail={"exc": repr(p.exc)[:300], **det}, reproduced=ok)
                    continue
                tin, sub = p.result
                h = hyps + [p.condition()]
                tins = [tin] if isinstance(tin, LP) else list(tin) if not isinstance(tin, np.ndarray) else list(tin.reshape(-1) if tin.dtype == object else tin)
                okst = isinstance(sub, LP) and len(tins) == T and all(isinstance(x, LP) for x in tins)
                rec.fact(f"{tag}/path{pi}/template-and-sub-volume-go-through-the-low-pass", bool(okst), key="C07/cutoff/structure", detail={"template": repr(type(tin))}, reproduced=True if okst else replay_cutoff({})[0])
                if not okst:
                    continue
                rec.query(f"{tag}/path{pi}/sub-volume-cutoff", h, zr(sub.cutoff) == c.e, key="C07/cutoff/sub-volume", replay=replay_cutoff, twin=False)
                for j, x in enumerate(tins):
                    rec.query(f"{tag}/path{pi}/template{j}-prepared-with-the-same-cutoff", h, zr(x.cutoff) == c.e, key="C07/cutoff/template", replay=replay_cutoff, names={"cutoff"})
                    want = _obj(t if j == 0 else t2)
                    got = _obj(to_symarray(x.img))
                    M_ = _obj(mk)
                    goal = z3.And(*[zr(got[k]) == (zr(want[k]) * zr(M_[k]) if with_mask else zr(want[k])) for k in np.ndindex(shape)]) if got.shape == tuple(shape) else z3.BoolVal(False)
                    rec.query(f"{tag}/path{pi}/template{j}-is-template*mask", h, goal, key="C07/cutoff/template-image", replay=replay_cutoff, twin=False, nonlinear=True)


def sec_landscape_upsampled(rec, patches=None):
    """up-sampled landscapes with several candidates: every candidate's mesh is centred on its own landscape (executed by C04's section)"""
    from .c04 import sec_landscape_upsampled as _s

    _s(rec, kind="zncc", axis=1, K=3, patches=patches)


def sec_constant(rec, patches=None):
    """finite score for constant / zero sub-volumes (division safety), all models, on the installed numerics"""
    for kind in ("zncc", "ncc", "pcc", "fsc"):
        ok, det = replay_constant(kind)({})
        rec.fact(f"constant[{kind}]/finite-shift-and-score", not ok, key=f"C05/finite-score[{kind}]", detail=det, reproduced=True)


def sec_chain_weights(rec, patches=None):
    """the weights applied inside the chain before the images are correlated: the missing-wedge mask of a tilted molecule in a non-cubic box (executed by C08's mask section)
    and the backend's Butterworth low-pass weights on odd / non-cubic boxes (executed by C16's weights section) -- a score is 'the correlation of the filtered images' only with these"""
    from fractions import Fraction as F_
    from .c08 import sec_mask
    from .c16 import sec_weights

    sec_mask(rec, shapes=[(2, 3, 4)], quats=[(F_(1, 2), F_(1, 2), F_(1, 2), F_(1, 2))], axis="y", entry="model", patches=patches)
    sec_weights(rec, shapes=[(3, 2, 5)], orders=(1, 2), patches=patches)
    # which cut-offs filter at all (identity only outside (0, sqrt(3)/2)), numpy- and backend-level, real- and Fourier-space variants
    from .c16 import sec_filter

    sec_filter(rec, shapes=[(2, 3, 4)], patches=patches)
    # the landscape the models expose is the one alignment maximises: NCC landscape entries <-> lags on symbolic voxels incl. the padding value (C04's section)
    from .c04 import sec_semantics

    sec_semantics(rec, kind="ncc", shape=(1, 1, 3), axis=2, mhi=2, patches=patches)


def sections(tier):
    S = [("chain", "checks.c07", "sec_chain", {}), ("chain-weights", "checks.c07", "sec_chain_weights", {}), ("cutoff", "checks.c07", "sec_cutoff", {}), ("landscape-upsampled-multi", "checks.c07", "sec_landscape_upsampled", {}),
         # the wedge that enters a model's score is the wedge of that model's own tilt range, whatever models were used before it in the process (decided by C08's section)
         ("wedge-of-this-model", "checks.c08", "sec_model_history", {})]
    shapes = [(1, 1, 2), (1, 2, 2), (1, 1, 3)] if quick(tier) else [(1, 1, 2), (1, 2, 2), (1, 1, 3), (2, 2, 2), (1, 2, 3), (2, 2, 3)]
    for shp in shapes:
        S.append((f"formulas-{shp}", "checks.c07", "sec_formulas", {"shape": shp}))
    mshapes = [(1, 1, 2), (1, 2, 2)] if quick(tier) else [(1, 1, 2), (1, 2, 2), (2, 1, 2), (1, 1, 4)]  # sides 1,2,4 only (exact DFT); 8 masked voxels: the guard resolution times out (stated bound: <= 4 voxels)
    for kind in ("zncc", "ncc"):
        for shp in mshapes:
            S.append((f"model-{kind}-{shp}", "checks.c07", "sec_model", {"kind": kind, "shape": shp}))
    return S


_Z = "acryo.backend._zncc"
_AB = "acryo.alignment._base"
_F1 = {"shape": (1, 2, 2)}
MUTANTS = [
    ("zncc:no-mean-subtraction", "checks.c07", "sec_formulas", _F1, {_Z: [("    return ncc(img0 - img0.mean(), img1 - img1.mean(), backend=backend)", "    return ncc(img0, img1 - img1.mean(), backend=backend)")]}),
    ("ncc:wrong-normalisation", "checks.c07", "sec_formulas", _F1, {_Z: [("        backend.sum(img0**2) * backend.sum(img1**2)\n", "        backend.sum(img0**2) * backend.sum(img0**2)\n")]}),
    ("ncc:missing-sqrt-factor", "checks.c07", "sec_formulas", _F1, {_Z: [("    return backend.sum(img0 * img1) / backend.sqrt(\n        backend.sum(img0**2) * backend.sum(img1**2)\n    )", "    return backend.sum(img0 * img1) / backend.sqrt(\n        backend.sum(img0**2) * backend.sum(img1**2) * 4\n    ) * 2 + backend.sum(img0) * 0")]}),
    ("landscape:template-not-flipped", "checks.c07", "sec_model", {"kind": "zncc", "shape": (1, 2, 2)}, {_Z: [("    corr = fftconvolve(img0, img1[::-1, ::-1, ::-1], backend)[1:-1, 1:-1, 1:-1]", "    corr = fftconvolve(img0, img1, backend)[1:-1, 1:-1, 1:-1]")]}),
    ("landscape:centre-shifted", "checks.c07", "sec_model", {"kind": "zncc", "shape": (1, 1, 2)}, {_Z: [("""    response = ncc_landscape(
        img0 - img0.mean(), img1 - img1.mean(), max_shifts, backend=backend
    )
    pad_width_eff = tuple(
        (s - int(m) * 2 - 1) // 2 for m, s in zip(max_shifts, response.shape)
    )""", """    response = ncc_landscape(
        img0 - img0.mean(), img1 - img1.mean(), max_shifts, backend=backend
    )
    pad_width_eff = tuple(
        (s - int(m) * 2 - 1) // 2 + 1 for m, s in zip(max_shifts, response.shape)
    )""")]}),
    ("model:mask-on-template-only", "checks.c07", "sec_model", {"kind": "zncc", "shape": (1, 1, 2)}, {_AB: [("            self.pre_transform(xp.asarray(img) * _mask, xp),\n            _template,\n            quaternion=quaternion,", "            self.pre_transform(xp.asarray(img), xp),\n            _template,\n            quaternion=quaternion,")]}),
    ("chain:landscape-skips-mask", "checks.c07", "sec_chain", {}, {_AB: [("        return self._landscape(\n            self.pre_transform(subvolume * mask, backend),", "        return self._landscape(\n            self.pre_transform(subvolume, backend),")]}),
]


def run(tier, procs=None, only=None):
    S = select(sections(tier), only)
    return harness.run_check(
        PID, tier, S, procs=procs,
        explanation="ncc()/zncc() and the ZNCC/NCC alignment models are executed on tiny boxes whose voxels, mask values, gain and offset are symbolic, over an exact DFT / convolution-theorem "
                    "FFT stub; square roots stay opaque so that every score has the form N/Sqrt(R); z3 proves N and R identical to the covariance and the product of variances of the "
                    "masked images (Pearson r / uncentred NCC), N*N = R for identical inputs, the gain/offset scaling laws, and that the zero-range landscape centre and the zero-range "
                    "alignment score are the same term as score().",
        bounds={"boxes": "(1,1,2), (1,2,2), (1,1,3) quick; up to (2,2,3) / (1,1,4) thorough; all voxels, mask values, gain > 0 and offset symbolic", "range [-1,1]": "Cauchy-Schwarz solver-checked for <= 3 voxels, lemma beyond",
                "models": "ZNCC, NCC symbolically; PCC/FSC only in the constant-sub-volume numerics section"},
        trusted_base=TRUSTED + ["FFTStub exact DFT (lengths 1,2,4; conformance in C16) and the convolution theorem for rfftn*rfftn->irfftn", "NdiStub.map_coordinates exact at integer nodes",
                                "Cauchy-Schwarz inequality as a lemma for the range claim"],
        outside=["larger boxes, float32 accumulation error", "FSC score/landscape identities (C17 covers the shell formula)", "landscape maximum at the reported displacement (C04)",
                 "low-pass and wedge weights inside the chain (C16, C08 prove them separately)"],
        mutants=MUTANTS if (not quick(tier) and not only) else None,
    )


# every real-library oracle of this property (each returns (reproduced, detail)); used to confirm structural facts that carry no replay of their own
ALL_REPLAYS = [replay_scores, lambda c: replay_constant('zncc')(c), lambda c: replay_constant('fsc')(c), replay_cutoff]


def replay(data):
    key = data.get("key", "")
    if "finite-score" in key:
        ok, detail = replay_constant(key.split("[")[1].rstrip("]"))({})
    else:
        ok, detail = replay_scores(data.get("cex") or {})
    print("replay:", detail)
    print("REPRODUCED" if ok else "not reproduced")
    return 1 if ok else 0
