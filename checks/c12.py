"""C12 -- table operations keep a molecule's position, orientation and features together.

Real code: Molecules.__init__, features.setter, subset, to_dataframe, from_dataframe, concat, concat_with, append,
filter, head, tail, sample, sort, with_features, drop_features, group_by, cutby, copy (acryo/molecules/core.py);
MoleculeGroup.__iter__, MoleculeCutGroup.__iter__.  The tables are executed on the *real polars*; positions and
orientations are symbolic tags (z3 constants) carried in Object columns, so a mis-paired row shows up as an
equality between two different tags that z3 refutes.
"""
from __future__ import annotations

import itertools
from fractions import Fraction

import numpy as np
import polars as pl
import z3

from symx import core as C
from symx import harness, load, rotation, stubs
from symx.arrays import SymArray, to_symarray, _obj
from symx.core import Sym, explore, integer, lift, real, _real, _coerce
from symx.plshim import PlShim

from .common import TRUSTED, fl, frac, quick, select

PID = "C12"
MODS = ["acryo.molecules._rotation", "acryo.molecules._group", "acryo.molecules._cut", "acryo.molecules.core"]


def zr(x):
    return _real(lift(_coerce(x)))


def _load(patches=None):
    return load.load(MODS, overrides={"Rotation": rotation.SymRotation, "pl": PlShim()}, patches=patches)


# ---------------------------------------------------------------------------------------
# tagged tables


class Tab:
    """a Molecules object under test together with the oracle's view: list of row ids, per-row features"""

    def __init__(self, mol, ids, feats):
        self.mol = mol
        self.ids = list(ids)
        self.feats = feats  # dict col -> list (concrete)


def make_table(MC, n, key_vals, prefix="m", with_features=True):
    pos = [[real(f"{prefix}{i}_p{a}") for a in range(3)] for i in range(n)]
    quat = [[real(f"{prefix}{i}_q{c}") for c in "xyzw"] for i in range(n)]
    feats = None
    if with_features:
        feats = {"a": list(key_vals[:n]), "g": [v % 2 for v in key_vals[:n]], "row": [f"{prefix}{i}" for i in range(n)]}
    if n == 0:
        mol = MC.Molecules.empty(list(feats or {}))
    else:
        mol = MC.Molecules(to_symarray(pos), rotation.SymRotation(quat), features=feats)
    return Tab(mol, [f"{prefix}{i}" for i in range(n)], {k: list(v) for k, v in (feats or {}).items()})


def row_ids(mol, allow_null=False):
    """identify every output row by its position tag, its orientation tag and its feature tag; returns (ids or None, reason)"""
    n = len(mol)
    out = []
    pos = _obj(mol.pos) if n else np.zeros((0, 3), dtype=object)
    quat = _obj(mol.quaternion()) if n else np.zeros((0, 4), dtype=object)
    feat = mol.features
    if len(feat) not in (0, n) and n:
        return None, f"{n} positions but {len(feat)} feature rows"
    if n and quat.shape[0] != n:
        return None, f"{n} positions but {quat.shape[0]} orientations"
    for r in range(n):
        def tag_of(v, suffix):
            s = str(z3.simplify(zr(v)))
            return s[: -len(suffix)] if s.endswith(suffix) else None

        tp = [tag_of(pos[r, a], f"_p{a}") for a in range(3)]
        tq = [tag_of(quat[r, k], f"_q{c}") for k, c in enumerate("xyzw")]
        tags = set(tp + tq)
        if "row" in feat.columns and not (allow_null and feat["row"][r] is None):
            tags.add(feat["row"][r])
        if len(tags) != 1 or None in tags:
            return None, f"row {r}: position {tp}, orientation {tq}, feature {feat['row'][r] if 'row' in feat.columns else '-'} do not belong to one molecule"
        out.append(tags.pop())
    return out, ""


# ---------------------------------------------------------------------------------------
# operations: (name, apply(MC, tab) -> list of Tab results with oracle ids)


def _sel(tab, idx):
    return [tab.ids[i] for i in idx], {k: [v[i] for i in idx] for k, v in tab.feats.items()}


def op_subset_slice(sl):
    def f(MC, t):
        idx = list(range(len(t.ids)))[sl]
        ids, fe = _sel(t, idx)
        return Tab(t.mol.subset(sl), ids, fe), "ordered"

    return f"subset({sl.start}:{sl.stop}:{sl.step})", f


def op_subset_list(lst):
    def f(MC, t):
        if any(i >= len(t.ids) for i in lst):
            return None, "skip"
        ids, fe = _sel(t, lst)
        return Tab(t.mol.subset(list(lst)), ids, fe), "ordered"

    return f"subset({list(lst)})", f


def op_subset_mask(bits):
    def f(MC, t):
        n = len(t.ids)
        mask = np.array([(bits >> i) & 1 == 1 for i in range(n)], dtype=bool)
        ids, fe = _sel(t, [i for i in range(n) if mask[i]])
        return Tab(t.mol.subset(mask), ids, fe), "ordered"

    return f"subset(mask={bits:03b})", f


def op_filter_expr(c):
    def f(MC, t):
        if "a" not in t.feats:
            return None, "skip"
        idx = [i for i, v in enumerate(t.feats["a"]) if v is not None and v > c]
        ids, fe = _sel(t, idx)
        return Tab(t.mol.filter(pl.col("a") > c), ids, fe), "ordered"

    return f"filter(a>{c})", f


def op_filter_mask(bits):
    def f(MC, t):
        n = len(t.ids)
        mask = [(bits >> i) & 1 == 1 for i in range(n)]
        ids, fe = _sel(t, [i for i in range(n) if mask[i]])
        return Tab(t.mol.filter(mask), ids, fe), "ordered"

    return f"filter(mask={bits:03b})", f


def op_sort(desc):
    def f(MC, t):
        if "a" not in t.feats or any(v is None for v in t.feats["a"]):
            return None, "skip"
        order = sorted(range(len(t.ids)), key=lambda i: t.feats["a"][i], reverse=desc)
        ids, fe = _sel(t, order)
        return Tab(t.mol.sort("a", descending=desc), ids, fe), "sorted:" + ("desc" if desc else "asc")

    return f"sort(a,desc={desc})", f


def op_head(n):
    def f(MC, t):
        idx = list(range(len(t.ids)))[:n] if n >= 0 else list(range(len(t.ids)))[:n]
        ids, fe = _sel(t, idx)
        return Tab(t.mol.head(n), ids, fe), "ordered"

    return f"head({n})", f


def op_tail(n):
    def f(MC, t):
        L = list(range(len(t.ids)))
        idx = L[-n:] if n > 0 else ([] if n == 0 else L[-n:])
        ids, fe = _sel(t, idx)
        return Tab(t.mol.tail(n), ids, fe), "ordered"

    return f"tail({n})", f


def op_sample(n):
    def f(MC, t):
        if n > len(t.ids):
            return None, "skip"
        return Tab(t.mol.sample(n, seed=3), t.ids, t.feats), f"sample:{n}"

    return f"sample({n})", f


def op_concat(kind):
    def f(MC, t):
        other = make_table(MC, 2, [5, 6], prefix="o", with_features=bool(t.feats))
        if t.feats and set(t.feats) != set(other.feats):
            # give the other table exactly the feature columns of this one (extra columns on append are rejected: see sec_reject)
            keep = [c for c in other.feats if c in t.feats]
            other = Tab(other.mol.drop_features([c for c in other.feats if c not in t.feats]) if keep else other.mol, other.ids, {c: other.feats[c] for c in keep})
            if not keep:
                return None, "skip"
        if kind == "concat":
            mol = MC.Molecules.concat([t.mol, other.mol])
        elif kind == "concat_with":
            mol = t.mol.concat_with(other.mol)
        else:
            mol = t.mol.copy().append(other.mol)
        fe = {k: t.feats.get(k, [None] * len(t.ids)) + other.feats.get(k, [None] * 2) for k in set(t.feats) | set(other.feats)}
        return Tab(mol, t.ids + other.ids, fe), "ordered"

    return kind, f


def op_with_features():
    def f(MC, t):
        if "a" not in t.feats:
            return None, "skip"
        fe = dict(t.feats)
        fe["b"] = [None if v is None else v + 10 for v in t.feats["a"]]
        return Tab(t.mol.with_features((pl.col("a") + 10).alias("b")), t.ids, fe), "ordered"

    return "with_features(b=a+10)", f


def op_drop():
    def f(MC, t):
        if "g" not in t.feats:
            return None, "skip"
        fe = {k: v for k, v in t.feats.items() if k != "g"}
        return Tab(t.mol.drop_features("g"), t.ids, fe), "ordered"

    return "drop_features(g)", f


def op_copy():
    def f(MC, t):
        return Tab(t.mol.copy(), t.ids, t.feats), "ordered"

    return "copy", f


SINGLE_OPS = [op_subset_slice(slice(1, None)), op_subset_slice(slice(None, 2)), op_subset_slice(slice(None, None, 2)), op_subset_list((2, 0)), op_subset_list((1, 1)),
              op_subset_mask(0b101), op_subset_mask(0b010), op_filter_expr(0), op_filter_expr(1), op_filter_mask(0b110), op_sort(False), op_sort(True),
              op_head(0), op_head(2), op_head(5), op_tail(1), op_tail(2), op_tail(5), op_sample(1), op_sample(2), op_concat("concat"), op_concat("concat_with"),
              op_concat("append"), op_with_features(), op_drop(), op_copy()]


def check_result(rec, label, res, mode, key_prefix, replay, allow_null=False):
    ids, why = row_ids(res.mol, allow_null)
    n = len(res.mol)
    if ids is None:
        ok, det = replay({})
        rec.fact(f"{label}/fields-stay-together", False, key=f"{key_prefix}/fields-split", detail={"why": why, **det}, reproduced=ok)
        return False
    rec.fact(f"{label}/fields-stay-together", True, key=f"{key_prefix}/fields-split", detail={})
    good = True
    if mode == "ordered":
        good = ids == res.ids
    elif mode.startswith("sorted"):
        keys = [res.feats["a"][res.ids.index(i)] for i in ids] if set(ids) == set(res.ids) and len(ids) == len(res.ids) else None
        good = keys is not None and keys == sorted(keys, reverse=mode.endswith("desc"))
    elif mode.startswith("sample"):
        k = int(mode.split(":")[1])
        from collections import Counter

        good = len(ids) == k and not (Counter(ids) - Counter(res.ids))
    okr, det = (True, {}) if good else replay({})
    rec.fact(f"{label}/rows-are-the-selected-rows", good, key=f"{key_prefix}/wrong-rows", detail={"got": ids, "want": res.ids, "mode": mode, **det}, reproduced=okr)
    # feature values travel with their row
    feat = res.mol.features
    if good and mode == "ordered":
        okf = True
        for col, vals in res.feats.items():
            if col not in feat.columns:
                okf = False
                break
            got = feat[col].to_list()
            if [None if v is None else v for v in got] != vals:
                okf = False
        rec.fact(f"{label}/feature-values", okf and set(feat.columns) == set(res.feats), key=f"{key_prefix}/feature-values", detail={"columns": feat.columns})
    cnt = n == len(ids) and (len(feat) in (n,) or (n == 0) or not res.feats)
    rec.fact(f"{label}/counts-agree", bool(cnt), key=f"{key_prefix}/count-mismatch", detail={})
    return good


# ---------------------------------------------------------------------------------------
# replay with concrete numbers on the installed library


def replay_table(cex):
    with load.real_modules():
        return _replay_table(cex)


def _replay_table(cex):
    """the same operations with concrete tags on the installed acryo: row r of the result must be one input row"""
    from acryo import Molecules
    from scipy.spatial.transform import Rotation

    rng = np.random.default_rng(0)
    bad = []

    def mk(n, keys, off=0):
        pos = np.arange(n)[:, None] * np.ones(3) + off
        rot = Rotation.from_rotvec(np.stack([np.arange(n) * 0.1 + 0.05 + off * 0.01, np.zeros(n), np.zeros(n)], axis=1))
        return Molecules(pos, rot, features={"a": keys[:n], "g": [k % 2 for k in keys[:n]], "row": [float(i + off) for i in range(n)]})

    def rows(m):
        rv = m.rotvec()[:, 0]
        return [(round(float(p), 4), round(float((r - 0.05) / 0.1), 4) if p < 50 else round(float((r - 0.05 - 1.0) / 0.1) + 100, 4), float(f)) for p, r, f in zip(m.pos[:, 0], rv, m.features["row"])]

    for keys in ([2, 0, 1], [1, 1, 0]):
        m = mk(3, keys)
        outs = {"filter": m.filter(pl.col("a") > 0), "sort": m.sort("a"), "head": m.head(2), "tail": m.tail(2), "sample": m.sample(2, seed=1), "subset": m.subset([2, 0]),
                "mask": m.subset(np.array([True, False, True])), "concat": Molecules.concat([m, mk(2, [5, 6], off=100)]), "concat_with": m.concat_with(mk(2, [5, 6], off=100))}
        for name, o in outs.items():
            for (p, r, f) in rows(o):
                if not (abs(p - r) < 1e-3 and abs(p - f) < 1e-3):
                    bad.append((name, p, r, f))
        for k, g in m.group_by("g"):
            for (p, r, f) in rows(g):
                if not (abs(p - r) < 1e-3 and abs(p - f) < 1e-3):
                    bad.append(("group_by", p, r, f))
        tot = sorted(v for _, g in m.group_by("g") for v in g.features["row"].to_list())
        if tot != [0.0, 1.0, 2.0]:
            bad.append(("group_by-partition", tot))
    return len(bad) > 0, {"mismatched_rows": [list(map(str, b)) for b in bad[:5]], "n": len(bad)}


# ---------------------------------------------------------------------------------------


def replay_edges(cex):
    """installed library: head/tail with 0, negative and over-long n; feature names colliding with coordinate columns are rejected by table operations;
    appending does not change tables that share feature frames with the receiver"""
    with load.real_modules():
        from acryo import Molecules

        bad = []
        m = Molecules(np.arange(18.0).reshape(6, 3), features={"t": list(range(6))})
        for name, got, want in (("tail(0)", m.tail(0), []), ("head(0)", m.head(0), []), ("tail(2)", m.tail(2), [4, 5]), ("head(2)", m.head(2), [0, 1]), ("tail(9)", m.tail(9), list(range(6))),
                                ("head(-2)", m.head(-2), [0, 1, 2, 3]), ("tail(-2)", m.tail(-2), [2, 3, 4, 5])):
            tl = got.features["t"].to_list() if len(got) else []
            if tl != want or len(got) != len(want) or (len(got) and not np.allclose(got.pos[:, 0], np.array(want) * 3.0)):
                bad.append({"op": name, "rows": tl, "want": want})
        for col in ("z", "yvec"):
            mm = Molecules(np.zeros((3, 3)), features={col: [1, 2, 3]})
            for opn, op in (("to_dataframe", lambda x: x.to_dataframe()), ("head", lambda x: x.head(1)), ("filter", lambda x: x.filter(pl.col(col) > 1)), ("sort", lambda x: x.sort(col))):
                try:
                    op(mm)
                    bad.append({"feature named like a coordinate column": col, "accepted by": opn})
                except ValueError:
                    pass
        a = Molecules(np.zeros((3, 3)), features={"v": [1, 2, 3]})
        b = Molecules(np.ones((2, 3)), features={"v": [4, 5]})
        snap = a.copy()
        a.append(b)
        if len(snap) != 3 or len(snap.features) != 3 or len(a) != 5 or len(a.features) != 5:
            bad.append({"snap = a.copy(); a.append(b)": {"snap": [len(snap), len(snap.features)], "a": [len(a), len(a.features)]}})
        p_, q_ = Molecules(np.zeros((2, 3)), features={"v": [1, 2]}), Molecules(np.ones((3, 3)), features={"v": [3, 4, 5]})
        acc = Molecules.empty()
        acc.append(p_)
        acc.append(q_)
        if len(p_) != 2 or len(p_.features) != 2 or len(acc) != 5 or len(acc.features) != 5:
            bad.append({"acc = empty; acc.append(p); acc.append(q)": {"p": [len(p_), len(p_.features)], "acc": [len(acc), len(acc.features)]}})
        return len(bad) > 0, {"n": len(bad), "examples": bad[:5]}


def replay_mixed(cex):
    with load.real_modules():
        return _replay_mixed(cex)


def _replay_mixed(cex):
    """installed library: joining a table with features and a table without: either rejected (receiver unchanged) or a consistent table with nulls for the missing values"""
    from acryo import Molecules

    bad = []
    for kind in ("concat", "concat_with", "append"):
        for featured_first in (True, False):
            for n_other in (2, 1, 0):
                a = Molecules(np.arange(9.0).reshape(3, 3), features={"v": [10, 11, 12]} if featured_first else None)
                b = Molecules(np.arange(3.0 * n_other).reshape(n_other, 3) + 100, features=None if featured_first else {"v": list(range(20, 20 + n_other))})
                try:
                    if kind == "concat":
                        out = Molecules.concat([a, b])
                    elif kind == "concat_with":
                        out = a.concat_with(b)
                    else:
                        out = a.append(b)
                except Exception as e:
                    if len(a) != 3 or len(a.features) not in (0, 3) or a.rotator.as_quat().shape[0] != 3:
                        bad.append({"op": kind, "featured_first": featured_first, "rejected-but-receiver-changed": [len(a), len(a.features)]})
                    if not (kind == "append" and not featured_first):
                        bad.append({"op": kind, "featured_first": featured_first, "other_rows": n_other, "valid-input-rejected": repr(e)[:120]})
                    continue
                n = out.pos.shape[0]
                nf = len(out.features)
                want = ([10, 11, 12] + [None] * n_other) if featured_first else ([None] * 3 + list(range(20, 20 + n_other)))
                if n != 3 + n_other or out.rotator.as_quat().shape[0] != n or (nf != n and (nf != 0 or "v" in out.features.columns)):
                    bad.append({"op": kind, "featured_first": featured_first, "other_rows": n_other, "positions": n, "orientations": int(out.rotator.as_quat().shape[0]), "feature_rows": nf})
                elif nf == n and "v" in out.features.columns and out.features["v"].to_list() != want:
                    bad.append({"op": kind, "featured_first": featured_first, "other_rows": n_other, "v": out.features["v"].to_list(), "want": want})
                elif n_other and not featured_first and kind == "append":
                    bad.append({"op": kind, "extra-columns-accepted": out.features.columns})
    return len(bad) > 0, {"n": len(bad), "examples": bad[:4]}


def sec_mixed(rec, patches=None):
    """a table with features joined with a table without features (and vice versa): rejected, or consistent (nulls for the missing values)"""
    L = _load(patches)
    MC = L["acryo.molecules.core"]
    rec.encodes("acryo/molecules/core.py:Molecules.concat", "acryo/molecules/core.py:Molecules.concat_with", "acryo/molecules/core.py:Molecules.append (one side without features)")
    with L.installed():
        for kind in ("concat", "concat_with", "append"):
            for featured_first in (True, False):
                for n_other in (2, 1, 0):
                    tag = f"mixed/{kind}[{'featured' if featured_first else 'plain'} (3) + {'plain' if featured_first else 'featured'} ({n_other})]"

                    def run():
                        t = make_table(MC, 3, [2, 0, 1], with_features=featured_first)
                        o = make_table(MC, n_other, [5, 6], prefix="o", with_features=not featured_first)
                        if n_other == 0:
                            o = Tab(MC.Molecules.empty() if featured_first else MC.Molecules.empty(["a", "g", "row"]), [], {} if featured_first else {"a": [], "g": [], "row": []})
                        try:
                            if kind == "concat":
                                mol = MC.Molecules.concat([t.mol, o.mol])
                            elif kind == "concat_with":
                                mol = t.mol.concat_with(o.mol)
                            else:
                                mol = t.mol.append(o.mol)
                        except (ValueError, TypeError, pl.exceptions.PolarsError) as e:
                            return t, o, None, e
                        return t, o, mol, None

                    for pth in explore(run, max_paths=20):
                        if not pth.ok:
                            rec.fact(f"{tag}/runs", False, key="C12/op-raises", detail={"exc": repr(pth.exc)[:300]}, reproduced=replay_mixed({})[0])
                            continue
                        t, o, mol, exc = pth.result
                        if exc is not None:
                            ids0, why = row_ids(t.mol)
                            ok = ids0 == t.ids
                            rec.fact(f"{tag}/rejected => receiver-unchanged", ok, key="C12/mixed/rejected-but-modified", detail={"exc": repr(exc)[:160], "why": why},
                                     reproduced=True if ok else replay_mixed({})[0])
                            # a table without features is not an inconsistent input: only `append` onto a plain receiver (extra columns) may reject it
                            legit = kind == "append" and not featured_first
                            rec.fact(f"{tag}/not-rejected (missing features are filled with null)", legit, key="C12/mixed/valid-input-rejected", detail={"exc": repr(exc)[:160]},
                                     reproduced=True if legit else replay_mixed({})[0])
                            continue
                        if kind == "append" and not featured_first and n_other:
                            okx, det = replay_mixed({})
                            rec.fact(f"{tag}/extra-columns-are-rejected", False, key="C12/reject/append-extra-columns", detail={"columns": mol.features.columns, **det}, reproduced=okx)
                            continue
                        cols = set(t.feats) | set(o.feats)
                        fe = {k: t.feats.get(k, [None] * 3) + o.feats.get(k, [None] * n_other) for k in cols}
                        if len(mol.features.columns) == 0:
                            fe = {}
                        check_result(rec, tag, Tab(mol, t.ids + o.ids, fe), "ordered", "C12/mixed", replay_mixed, allow_null=True)


def sec_single(rec, n=3, keys=(2, 0, 1), ops=None, patches=None):
    L = _load(patches)
    MC = L["acryo.molecules.core"]
    rec.encodes("acryo/molecules/core.py:Molecules.__init__", "acryo/molecules/core.py:Molecules.features.setter", "acryo/molecules/core.py:Molecules.subset",
                "acryo/molecules/core.py:Molecules.to_dataframe", "acryo/molecules/core.py:Molecules.from_dataframe", "acryo/molecules/core.py:Molecules.concat",
                "acryo/molecules/core.py:Molecules.concat_with", "acryo/molecules/core.py:Molecules.append", "acryo/molecules/core.py:Molecules.filter", "acryo/molecules/core.py:Molecules.head",
                "acryo/molecules/core.py:Molecules.tail", "acryo/molecules/core.py:Molecules.sample", "acryo/molecules/core.py:Molecules.sort", "acryo/molecules/core.py:Molecules.with_features",
                "acryo/molecules/core.py:Molecules.drop_features", "acryo/molecules/core.py:Molecules.copy")
    rec.assume("the real polars library executes the table operations; symbolic values travel in Object columns (probed: select/filter/head/tail/sample/sort-by-other-column/group_by/concat/slicing keep them attached to their row)")
    ops = ops if ops is not None else list(range(len(SINGLE_OPS)))
    with L.installed():
        for oi in ops:
            name, f = SINGLE_OPS[oi]
            tag = f"single[n={n},keys={list(keys)[:n]}]/{name}"

            def run():
                t = make_table(MC, n, list(keys))
                res, mode = f(MC, t)
                return t, res, mode

            for pth in explore(run, max_paths=50):
                if not pth.ok:
                    rec.fact(f"{tag}/runs", False, key="C12/op-raises", detail={"exc": repr(pth.exc)[:300]}, reproduced=replay_table({})[0])
                    continue
                t, res, mode = pth.result
                if mode == "skip":
                    continue
                check_result(rec, tag, res, mode, "C12/single", replay_table)
                # the input table is not modified by the operation
                ids0, _ = row_ids(t.mol)
                rec.fact(f"{tag}/input-untouched", ids0 == t.ids, key="C12/single/input-modified", detail={"got": ids0, "want": t.ids})


def sec_pairs(rec, n=3, keys=(2, 0, 1), first=None, patches=None):
    """every sequence of two operations"""
    L = _load(patches)
    MC = L["acryo.molecules.core"]
    firsts = first if first is not None else list(range(len(SINGLE_OPS)))
    with L.installed():
        for i in firsts:
            n1, f1 = SINGLE_OPS[i]
            for j, (n2, f2) in enumerate(SINGLE_OPS):
                tag = f"pair[n={n}]/{n1} -> {n2}"

                def run():
                    t = make_table(MC, n, list(keys))
                    r1, m1 = f1(MC, t)
                    if m1 != "ordered":
                        return None
                    r2, m2 = f2(MC, r1)
                    return r2, m2

                for pth in explore(run, max_paths=50):
                    if not pth.ok:
                        rec.fact(f"{tag}/runs", False, key="C12/op-raises", detail={"exc": repr(pth.exc)[:300]}, reproduced=replay_table({})[0])
                        continue
                    if pth.result is None or pth.result[1] == "skip":
                        continue
                    res, mode = pth.result
                    check_result(rec, tag, res, mode, "C12/pair", replay_table)


def replay_history(cex):
    with load.real_modules():
        return _replay_history(cex)


def _replay_history(cex):
    """installed library: table operation, then an in-place append on the same object, then every table operation again"""
    import polars as pl
    from acryo import Molecules
    from scipy.spatial.transform import Rotation

    def mk(n, keys, off=0):
        pos = np.array([[i + off, 0, 0] for i in range(n)], dtype=np.float32)
        rot = Rotation.from_rotvec([[0.1 * (i + off) + 0.05, 0, 0] for i in range(n)])
        return Molecules(pos, rot, features={"a": keys[:n], "row": [float(i + off) for i in range(n)]})

    bad = []
    readers = {"filter": lambda m: m.filter(pl.col("a") >= 0), "sort": lambda m: m.sort("a"), "head": lambda m: m.head(10), "tail": lambda m: m.tail(10), "to_dataframe": lambda m: Molecules.from_dataframe(m.to_dataframe()),
               "group_by": lambda m: Molecules.concat([g for _, g in m.group_by("a")]), "subset": lambda m: m.subset(slice(None)), "sample": lambda m: m.sample(len(m), seed=0)}
    for n1, f1 in readers.items():
        for n2, f2 in readers.items():
            m = mk(3, [2, 0, 1])
            f1(m)
            m.append(mk(2, [5, 6], off=3))
            try:
                out = f2(m)
            except Exception as e:
                bad.append({"first": n1, "then_append_then": n2, "raised": repr(e)[:120]})
                continue
            rows = sorted(out.features["row"].to_list())
            posx = sorted(float(v) for v in out.pos[:, 0])
            if rows != [0.0, 1.0, 2.0, 3.0, 4.0] or posx != rows:
                bad.append({"first": n1, "then_append_then": n2, "rows": rows, "positions": posx})
    return len(bad) > 0, {"n": len(bad), "examples": bad[:4]}


def sec_history(rec, n=3, keys=(2, 0, 1), firsts=None, patches=None):
    """an operation (result discarded), then an in-place append on the same object, then every operation: the second one must see the appended rows"""
    L = _load(patches)
    MC = L["acryo.molecules.core"]
    rec.encodes("acryo/molecules/core.py:Molecules.append (in place)", "acryo/molecules/core.py:Molecules.to_dataframe")
    firsts = firsts if firsts is not None else list(range(len(SINGLE_OPS)))
    with L.installed():
        for i in firsts:
            n1, f1 = SINGLE_OPS[i]
            for j, (n2, f2) in enumerate(SINGLE_OPS):
                tag = f"history[n={n}]/{n1} ; append ; {n2}"

                def run():
                    t = make_table(MC, n, list(keys))
                    f1(MC, t)
                    other = make_table(MC, 2, [5, 6], prefix="o")
                    t.mol.append(other.mol)
                    t2 = Tab(t.mol, t.ids + other.ids, {k: t.feats[k] + other.feats[k] for k in t.feats})
                    return f2(MC, t2)

                try:
                    paths = explore(run, max_paths=50)
                except C.Unsupported as e:
                    # the engine met a state it has no encoding for (e.g. a table rebuilt from stale cached columns): a violation only if the
                    # same history goes wrong on the installed library
                    ok, det = replay_history({})
                    rec.fact(f"{tag}/runs", False, key="C12/history/wrong-rows", detail={"engine": repr(e)[:200], **det}, reproduced=ok)
                    continue
                for pth in paths:
                    if not pth.ok:
                        rec.fact(f"{tag}/runs", False, key="C12/op-raises", detail={"exc": repr(pth.exc)[:300]}, reproduced=replay_history({})[0])
                        continue
                    res, mode = pth.result
                    if mode == "skip":
                        continue
                    try:
                        check_result(rec, tag, res, mode, "C12/history", replay_history)
                    except C.Unsupported as e:
                        ok, det = replay_history({})
                        rec.fact(f"{tag}/result-readable", False, key="C12/history/wrong-rows", detail={"engine": repr(e)[:200], **det}, reproduced=ok)


def sec_symbolic_index(rec, patches=None):
    """subset(i) / head(n) / tail(n) with a symbolic integer argument: forks over every value class"""
    L = _load(patches)
    MC = L["acryo.molecules.core"]
    i = integer("i")
    hyps = [i.e >= -4, i.e <= 6]
    with L.installed():
        for opname in ("subset", "head", "tail"):
            def run():
                t = make_table(MC, 3, [2, 0, 1])
                if opname == "subset":
                    return t, t.mol.subset(i)
                import operator

                k = operator.index(i)
                return t, (t.mol.head(k) if opname == "head" else t.mol.tail(k)), k

            for pi, pth in enumerate(explore(run, assumptions=hyps, max_paths=60)):
                h = hyps + [pth.condition()]
                if opname == "subset":
                    if not pth.ok:
                        rec.query(f"symbolic/subset(i)/path{pi}/raises=>out-of-range", h, z3.Or(i.e < 0, i.e >= 3), key="C12/subset/int-index", names={"i"},
                                  info={"exc": type(pth.exc).__name__})
                        rec.fact(f"symbolic/subset(i)/path{pi}/IndexError", isinstance(pth.exc, IndexError), key="C12/subset/int-index-exception", detail={"exc": repr(pth.exc)[:100]})
                        continue
                    t, res = pth.result
                    ids, why = row_ids(res)
                    ok = ids is not None and len(ids) == 1
                    rec.fact(f"symbolic/subset(i)/path{pi}/one-row", bool(ok), key="C12/subset/int-index", detail={"why": why})
                    if ok:
                        k = t.ids.index(ids[0])
                        rec.query(f"symbolic/subset(i)/path{pi}/row-i", h, i.e == k, key="C12/subset/int-index", names={"i"})
                else:
                    if not pth.ok:
                        rec.fact(f"symbolic/{opname}(n)/path{pi}/runs", False, key="C12/op-raises", detail={"exc": repr(pth.exc)[:200]})
                        continue
                    t, res, k = pth.result
                    ids, why = row_ids(res)
                    L3 = t.ids
                    want = (L3[:k] if opname == "head" else (L3[-k:] if k > 0 else ([] if k == 0 else L3[-k:])))
                    rec.fact(f"symbolic/{opname}({k})", ids == want, key=f"C12/{opname}/rows", detail={"got": ids, "want": want, "why": why})


def sec_groups(rec, patches=None):
    """group_by and cutby partition the table; each group's rows keep their fields together"""
    L = _load(patches)
    MC = L["acryo.molecules.core"]
    rec.encodes("acryo/molecules/core.py:Molecules.group_by", "acryo/molecules/core.py:Molecules.cutby", "acryo/molecules/_group.py:MoleculeGroup.__iter__",
                "acryo/molecules/_cut.py:MoleculeCutGroup.__iter__")
    with L.installed():
        for keys in ([2, 0, 1], [1, 1, 0], [0, 0, 0], [3, 1, 2]):
            def run():
                t = make_table(MC, 3, keys)
                g1 = list(t.mol.group_by("g"))
                g2 = list(t.mol.group_by(["g", "a"]))
                g3 = list(t.mol.cutby("a", [-1, 0.5, 1.5, 5]))
                return t, g1, g2, g3

            for pth in explore(run, max_paths=10):
                tag = f"groups[keys={keys}]"
                if not pth.ok:
                    rec.fact(f"{tag}/runs", False, key="C12/groups/raises", detail={"exc": repr(pth.exc)[:300]}, reproduced=replay_table({})[0])
                    continue
                t, g1, g2, g3 = pth.result
                for nm, groups, keyf in (("group_by(g)", g1, lambda i: t.feats["g"][i]), ("group_by(g,a)", g2, lambda i: (t.feats["g"][i], t.feats["a"][i])),
                                         ("cutby(a)", g3, None)):
                    allids = []
                    ok_fields = True
                    ok_keys = True
                    for k, mol in groups:
                        ids, why = row_ids(mol)
                        if ids is None:
                            ok_fields = False
                            continue
                        allids += ids
                        if keyf is not None:
                            kk = k if not isinstance(k, tuple) or len(k) > 1 else k[0]
                            for r in ids:
                                if keyf(t.ids.index(r)) != kk:
                                    ok_keys = False
                        else:
                            for r in ids:
                                a = t.feats["a"][t.ids.index(r)]
                                if not (k.gt < a <= k.le):
                                    ok_keys = False
                    okr, det = (True, {}) if ok_fields else replay_table({})
                    rec.fact(f"{tag}/{nm}/fields-stay-together", ok_fields, key="C12/groups/fields-split", detail=det, reproduced=okr)
                    rec.fact(f"{tag}/{nm}/partition", sorted(allids) == sorted(t.ids), key="C12/groups/not-a-partition", detail={"got": allids, "want": t.ids})
                    rec.fact(f"{tag}/{nm}/keys-match-rows", ok_keys, key="C12/groups/key-mismatch", detail={})


def replay_collide(cex):
    with load.real_modules():
        from acryo import Molecules

        pos = np.array([[-7.0, 2.0, 93.0], [1.0, 5.0, 3.0], [4.0, 4.0, 8.0]])
        m = Molecules(pos.copy(), features={"score": [0.9, 0.1, 0.5]})
        bad = {}
        for name in ("z", "y", "x", "zvec", "yvec", "xvec"):
            try:
                m2 = m.with_features(pl.col("score").alias(name))
            except ValueError:
                continue
            if not np.allclose(m2.pos, pos) or not np.allclose(m2.rotvec(), m.rotvec()):
                bad[name] = {"pos": np.asarray(m2.pos).round(3).tolist()}
        return len(bad) > 0, {"coordinates_overwritten_by_a_feature_named": bad}


def sec_reject(rec, patches=None):
    """inconsistent inputs are rejected rather than silently misaligned"""
    L = _load(patches)
    MC = L["acryo.molecules.core"]
    with L.installed():
        def expect(label, fn, exc):
            pths = explore(fn, max_paths=10)
            ok = all((not p.ok) and isinstance(p.exc, exc) for p in pths) and len(pths) > 0
            rec.fact(f"reject/{label}", ok, key=f"C12/reject/{label}", detail={"outcomes": [repr(p.exc)[:80] if not p.ok else "accepted" for p in pths]})

        t3 = lambda: make_table(MC, 3, [2, 0, 1])  # noqa: E731
        expect("features-length-mismatch", lambda: MC.Molecules(t3().mol.pos, t3().mol.rotator, features={"a": [1, 2]}), ValueError)
        expect("rotation-count-mismatch", lambda: MC.Molecules(t3().mol.pos, rotation.SymRotation([[0, 0, 0, 1]] * 2)), ValueError)
        expect("position-shape", lambda: MC.Molecules(to_symarray([[real("a"), real("b")]])), ValueError)
        expect("feature-named-like-coordinate", lambda: MC.Molecules(t3().mol.pos, t3().mol.rotator, features={"z": [1, 2, 3]}).to_dataframe(), ValueError)
        expect("feature-named-like-coordinate-filter", lambda: MC.Molecules(t3().mol.pos, t3().mol.rotator, features={"yvec": [1, 2, 3]}).head(1), ValueError)

        def app():
            a = make_table(MC, 2, [1, 2]).mol
            b = MC.Molecules(make_table(MC, 1, [5], prefix="o").mol.pos, make_table(MC, 1, [5], prefix="o").mol.rotator, features={"a": [1], "extra": [2]})
            return a.append(b)

        # a feature named like a coordinate column never replaces the coordinates: with_features either rejects it or stores it as a (later rejected) feature
        def collide():
            t = make_table(MC, 3, [2, 0, 1])
            try:
                m2 = t.mol.with_features((pl.col("a") + 10).alias("z"), (pl.col("a") * 0).alias("yvec"))
            except ValueError:
                return "rejected", t, None
            return "stored", t, m2

        for pth in explore(collide, max_paths=10):
            if not pth.ok:
                rec.fact("reject/with_features(name of a coordinate column)/runs", False, key="C12/reject/coordinate-overwritten", detail={"exc": repr(pth.exc)[:200]}, reproduced=replay_collide({})[0])
                continue
            how, t, m2 = pth.result
            ok = True
            why = ""
            if m2 is not None:
                ids, why = row_ids(m2)
                ok = ids == t.ids
            ids0, _ = row_ids(t.mol)
            ok = ok and ids0 == t.ids
            rec.fact("reject/with_features(name of a coordinate column) leaves positions and orientations alone", ok, key="C12/reject/coordinate-overwritten", detail={"outcome": how, "why": why},
                     reproduced=True if ok else replay_collide({})[0])
        expect("append-extra-columns", app, ValueError)
        expect("append-non-molecules", lambda: make_table(MC, 2, [1, 2]).mol.append("x"), TypeError)
        expect("setter-length-mismatch", lambda: setattr(t3().mol, "features", {"a": [1]}), ValueError)
        expect("rot-type", lambda: MC.Molecules(t3().mol.pos, "not a rotation"), TypeError)


def sections(tier):
    S = [("symbolic-index", "checks.c12", "sec_symbolic_index", {}), ("groups", "checks.c12", "sec_groups", {}), ("reject", "checks.c12", "sec_reject", {}), ("mixed-features", "checks.c12", "sec_mixed", {})]
    nops = len(SINGLE_OPS)
    for keys in ([2, 0, 1], [1, 1, 0]) if quick(tier) else ([2, 0, 1], [1, 1, 0], [0, 0, 0], [0, 2, 2]):
        for lo in range(0, nops, 9):
            S.append((f"single-{keys}-{lo}", "checks.c12", "sec_single", {"n": 3, "keys": tuple(keys), "ops": list(range(lo, min(lo + 9, nops)))}))
    S.append(("single-n1", "checks.c12", "sec_single", {"n": 1, "keys": (4,)}))
    S.append(("single-n0", "checks.c12", "sec_single", {"n": 0, "keys": ()}))
    for lo in range(0, nops, 2):
        S.append((f"pairs-{lo}", "checks.c12", "sec_pairs", {"n": 3, "keys": (2, 0, 1), "first": list(range(lo, min(lo + 2, nops)))}))
    for lo in range(0, nops, 3):
        S.append((f"history-{lo}", "checks.c12", "sec_history", {"n": 3, "keys": (2, 0, 1), "firsts": list(range(lo, min(lo + 3, nops)))}))
    return S


_MC = "acryo.molecules.core"
_S3 = {"n": 3, "keys": (2, 0, 1)}
MUTANTS = [
    ("subset:features-not-sliced", "checks.c12", "sec_single", {**_S3, "ops": [0, 3]}, {_MC: [("        return self.__class__(pos, Rotation(quat), self._features[_spec])", "        return self.__class__(pos, Rotation(quat), self._features[: len(pos)])")]}),
    ("subset:quat-reversed", "checks.c12", "sec_single", {**_S3, "ops": [3]}, {_MC: [("        quat = self.quaternion(canonical=False)[_spec]\n", "        quat = self.quaternion(canonical=False)[_spec][::-1]\n")]}),
    ("subset:mask-as-index", "checks.c12", "sec_single", {**_S3, "ops": [5, 6]}, {_MC: [("            return self.__class__(pos, Rotation(quat), self._features.filter(_spec))", "            return self.__class__(pos, Rotation(quat), self._features.head(len(pos)))")]}),
    ("from_dataframe:rot-from-pos-cols", "checks.c12", "sec_single", {**_S3, "ops": [7]}, {_MC: [("            rot = Rotation.from_rotvec(rotvec.to_numpy())\n        return cls(pos.to_numpy(), rot, features=features)", "            rot = Rotation.from_rotvec(rotvec.to_numpy()[::-1])\n        return cls(pos.to_numpy(), rot, features=features)")]}),
    ("to_dataframe:yvec-xvec-swapped", "checks.c12", "sec_single", {**_S3, "ops": [10]}, {_MC: [('                "yvec": rotvec[:, 1],\n                "xvec": rotvec[:, 2],', '                "yvec": rotvec[:, 2],\n                "xvec": rotvec[:, 1],')]}),
    ("concat:order", "checks.c12", "sec_single", {**_S3, "ops": [20]}, {_MC: [("        all_quat = np.concatenate(quat, axis=0)\n", "        all_quat = np.concatenate(quat[::-1], axis=0)\n")]}),
    ("concat_with:features-of-other-first", "checks.c12", "sec_single", {**_S3, "ops": [21]}, {_MC: [("            feat = pl.concat([feat_self, feat_other], how=how)", "            feat = pl.concat([feat_other, feat_self], how=how)")]}),
    ("append:pos-not-extended", "checks.c12", "sec_single", {**_S3, "ops": [22]}, {_MC: [("        self._pos = pos\n        self._rotator = Rotation.from_quat(rot)\n        self._features = feat", "        self._rotator = Rotation.from_quat(rot)\n        self._features = feat")]}),
    ("with_features:drops-rotator-copy", "checks.c12", "sec_pairs", {"n": 3, "keys": (2, 0, 1), "first": [23]}, {_MC: [("            self.pos,\n            self.rotator,\n            features=self.features.with_columns(exprs, *more_exprs, **named_exprs),", "            self.pos[::-1],\n            self.rotator,\n            features=self.features.with_columns(exprs, *more_exprs, **named_exprs),")]}),
    ("group_by:not-maintain-order-drop", "checks.c12", "sec_groups", {}, {"acryo.molecules._group": [("            mole = Molecules.from_dataframe(df)\n", "            mole = Molecules.from_dataframe(df.head(1))\n")]}),
    ("cutby:label-kept", "checks.c12", "sec_groups", {}, {"acryo.molecules._cut": [("            mole = Molecules.from_dataframe(df.drop(self._label))", "            mole = Molecules.from_dataframe(df.drop(self._label).tail(1))")]}),
    ("reject:length-check-removed", "checks.c12", "sec_reject", {}, {_MC: [("            if len(df) != self.pos.shape[0]:\n", "            if False:\n")]}),
    ("reject:append-extra-columns-allowed", "checks.c12", "sec_reject", {}, {_MC: [("            if len(feat.columns) != len(self.features.columns):\n", "            if False:\n")]}),
    ("subset:negative-index-allowed", "checks.c12", "sec_symbolic_index", {}, {_MC: [("            if spec < 0:\n                raise IndexError(\"Negative indexing is not supported.\")\n", "")]}),
    ("concat:revert-null-fill-for-feature-less-tables (1453a8b)", "checks.c12", "sec_mixed", {}, {_MC: [("        if len(df.columns) == 0 and n > 0:\n", "        if False:\n")]}),
    ("append:revert-featureless-fix (014596f)", "checks.c12", "sec_mixed", {}, {_MC: [("            if len(other_feat.columns) == 0 and other.count() > 0:\n", "            if False:\n")]}),
    ("append:featureless-receiver-adopts-features (seeded change C12_6)", "checks.c12", "sec_mixed", {}, {_MC: [("        if self.count() == 0:\n            feat = other.features\n        else:\n            other_feat", "        if len(self.features) == 0:\n            feat = other.features\n        else:\n            other_feat")]}),
    ("concat:revert-empty-fix", "checks.c12", "sec_single", {"n": 0, "keys": (), "ops": [20]}, {_MC: [("            all_features = pl.concat(non_empty or features[:1], how=how)", "            all_features = pl.concat(features, how=how)")]}),
]


def run(tier, procs=None, only=None):
    S = select(sections(tier), only)
    return harness.run_check(
        PID, tier, S, procs=procs,
        explanation="Molecule tables whose positions and orientations are distinct symbolic tags (z3 constants in polars Object columns) are pushed through the real table "
                    "operations on the real polars; every output row must carry one tag in its position, its orientation and its feature row, the selected rows must be those "
                    "an independent list oracle selects, inputs must stay untouched, groups must partition, listed inconsistent inputs must raise. Integer arguments of "
                    "subset/head/tail are symbolic and forked over by the explorer.",
        bounds={"rows": "0, 1 and 3 molecules (5 after concatenation)", "operations": f"{len(SINGLE_OPS)} parameterised operations; all single operations and all ordered pairs",
                "key columns": "concrete (2 quick / 4 thorough orderings incl. ties); tags symbolic", "symbolic integers": "i in [-4, 6]"},
        trusted_base=TRUSTED + ["the real polars library (row semantics of Object columns)", "SymRotation rotvec<->quaternion inverse pair (float32 cast = identity)"],
        outside=["dtype zoo beyond numeric/string/null", "polars internals", "sequences of three or more operations (thorough tier only adds key orderings)"],
        mutants=MUTANTS if (not quick(tier) and not only) else None,
    )


# every real-library oracle of this property (each returns (reproduced, detail)); used to confirm structural facts that carry no replay of their own
ALL_REPLAYS = [replay_table, replay_edges, replay_mixed, replay_history, replay_collide]


def replay(data):
    if "/mixed" in data.get("key", "") or "mixed/" in data.get("label", ""):
        ok, detail = replay_mixed(data.get("cex") or {})
        print("replay:", detail)
        print("REPRODUCED" if ok else "not reproduced")
        return 1 if ok else 0
    ok, detail = replay_table(data.get("cex") or {})
    print("replay:", detail)
    print("REPRODUCED" if ok else "not reproduced")
    return 1 if ok else 0
