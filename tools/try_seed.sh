#!/bin/sh
# tools/try_seed.sh <patch.diff> <ID> [extra check args]  -- apply a seeded change to /repo, run the check, undo.
P="$1"; ID="$2"; shift 2
cd /repo || exit 9
if ! git diff --quiet; then echo "REPO DIRTY - refusing"; exit 9; fi
git apply "$P" || { echo "PATCH DOES NOT APPLY"; exit 8; }
cd /verif && timeout 900 ./check "$ID" "$@" > /tmp/try_seed.out 2>&1; rc=$?
git -C /repo checkout -- .
grep -E "^(VIOLATION|KNOWN|HARNESS|INCONCLUSIVE|\[C)" /tmp/try_seed.out | cut -c1-300 | head -8
echo "exit=$rc"
