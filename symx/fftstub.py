"""symx.fftstub -- contract-level stand-in for scipy.fft (used through acryo's Backend or the
names imported from acryo._typed_scipy).

Two modes:
* exact  : an exact DFT (entries in Q[i]) for axis lengths in {1, 2, 4}; other lengths raise
           Unsupported (their twiddle factors are irrational).
* opaque : the spectrum of an array is a fresh symbolic complex value per bin (uninterpreted
           linear functional); only the *shape rules* of scipy.fft are modelled:
             rfftn(x, s)  : last axis (s[-1] // 2 + 1)
             irfftn(y, s) : s given -> s ; s None -> last axis 2 * (m - 1), or 1 when m == 1   <- scipy's rule
             fftn/ifftn   : s or x.shape
           every call is recorded in .calls so the harness can inspect what was transformed.
"""
from __future__ import annotations

import itertools

import numpy as np
import z3

from . import arrays as A
from .core import Sym, SymComplex, Unsupported, cur, exact, Q


import z3 as _z3

SQRT3 = Sym(_z3.Real("sqrt3"))
SQRT3_FACTS = [_z3.Real("sqrt3") > 0, _z3.Real("sqrt3") * _z3.Real("sqrt3") == 3]


def _i_pow(k):  # i**k
    return [(1, 0), (0, 1), (-1, 0), (0, -1)][k % 4]


def _twiddle(n, jk, sign):
    """exp(sign * 2 pi i * jk / n) for n in {1,2,4} as an exact complex pair"""
    if n == 1:
        return (1, 0)
    if n == 2:
        return (1, 0) if jk % 2 == 0 else (-1, 0)
    if n == 4:
        return _i_pow(sign * jk)
    if n in (3, 6):
        # multiples of 60 degrees: cos in {1, 1/2, -1/2, -1}, sin in {0, +-sqrt3/2}; sqrt3 is the symbolic constant SQRT3 (SQRT3_FACTS must be assumed)
        from fractions import Fraction

        m = (sign * jk * (6 // n)) % 6
        c = [Fraction(1), Fraction(1, 2), Fraction(-1, 2), Fraction(-1), Fraction(-1, 2), Fraction(1, 2)][m]
        sg = [0, 1, 1, 0, -1, -1][m]
        return (c, SQRT3 * Fraction(sg, 2)) if sg else (c, 0)
    raise Unsupported(f"exact DFT of length {n}")


def _cmul_const(v, c):
    re, im = c
    if not isinstance(v, SymComplex):
        v = SymComplex(v, 0)
    if (re, im) == (1, 0):
        return v
    if (re, im) == (-1, 0):
        return -v
    if (re, im) == (0, 1):
        return SymComplex(-v.im, v.re)
    if (re, im) == (0, -1):
        return SymComplex(v.im, -v.re)
    return v * SymComplex(re, im)


def _dft_axis(x, axis, n_out, sign, n_in_logical=None):
    """DFT along one axis of an object array (zero-padded/truncated to length n)."""
    n = x.shape[axis]
    N = n_in_logical or n
    x = np.moveaxis(x, axis, -1)
    out = np.empty(x.shape[:-1] + (n_out,), dtype=object)
    for idx in np.ndindex(x.shape[:-1]):
        row = x[idx]
        for k in range(n_out):
            acc = SymComplex(0, 0)
            for j in range(min(n, N)):
                acc = acc + _cmul_const(row[j], _twiddle(N, j * k, sign))
            out[idx + (k,)] = acc
    return np.moveaxis(out, -1, axis)


class LazySpec:
    """rfftn(x, s) kept in real space: the half spectrum of x zero-padded/truncated to shape s.  Only the product of two
    such spectra followed by irfftn(., s) is given a meaning (convolution theorem):
        irfftn(rfftn(a, s) * rfftn(b, s), s) = circular convolution of the zero-padded a and b on the grid s."""

    _symx_passthrough = True

    def __init__(self, x, s):
        self.x = x
        self.s = tuple(int(v) for v in s)
        self.shape = self.s[:-1] + (self.s[-1] // 2 + 1,)

    def __mul__(self, o):
        if isinstance(o, LazySpec):
            if o.s != self.s:
                raise Unsupported("product of spectra on different grids")
            return LazyProd(self, o)
        raise Unsupported("product of a lazy half-spectrum with something that is not a half-spectrum (use mode='exact-eager')")

    __rmul__ = __mul__


class LazyProd:
    _symx_passthrough = True

    def __init__(self, a, b):
        self.a, self.b = a, b
        self.s = a.s
        self.shape = a.shape


def circular_convolve(a, b, s):
    """direct circular convolution of object arrays a, b (zero padded to s); b is expected to be the small operand"""
    a = np.asarray(a, dtype=object)
    b = np.asarray(b, dtype=object)
    out = np.empty(s, dtype=object)
    out.fill(0)
    nz_b = [(idx, b[idx]) for idx in np.ndindex(b.shape) if not (isinstance(b[idx], (int, float)) and b[idx] == 0)]
    nz_a = [(idx, a[idx]) for idx in np.ndindex(a.shape) if not ((isinstance(a[idx], (int, float)) or hasattr(a[idx], "numerator")) and a[idx] == 0)]
    for ia, va in nz_a:
        for ib, vb in nz_b:
            k = tuple((i + j) % n for i, j, n in zip(ia, ib, s))
            out[k] = out[k] + va * vb
    return out.view(A.SymArray)


def _default_axes(x, axes):
    """axes=None, or all axes in order (what scipy does by default): accepted; anything else is not modelled"""
    if axes is None:
        return True
    try:
        nd = len(getattr(x, "shape", ()))
        return [a % nd for a in axes] == list(range(nd))
    except Exception:
        return False


class FFTStub:
    def __init__(self, mode="opaque"):
        self.mode = mode
        self.calls = []
        self._n = 0

    # -- helpers ---------------------------------------------------------------------------
    def _fresh_spec(self, shape, tag):
        ex = cur()
        self._n += 1
        out = np.empty(shape, dtype=object)
        for idx in np.ndindex(tuple(shape)):
            nm = f"{tag}{self._n}_" + "_".join(map(str, idx))
            out[idx] = SymComplex(Sym(z3.Real(nm + "_re")), Sym(z3.Real(nm + "_im")))
        return out.view(A.SymArray)

    def _fresh_real(self, shape, tag):
        self._n += 1
        out = np.empty(shape, dtype=object)
        for idx in np.ndindex(tuple(shape)):
            out[idx] = Sym(z3.Real(f"{tag}{self._n}_" + "_".join(map(str, idx))))
        return out.view(A.SymArray)

    @staticmethod
    def _as_obj(x):
        return A._obj(A.to_symarray(x))

    def _pad_to(self, x, s):
        """zero-pad / truncate x to shape s (scipy semantics of the `s` argument)"""
        x = self._as_obj(x)
        if s is None or tuple(s) == tuple(x.shape):
            return x
        s = tuple(int(v) for v in s)
        out = np.empty(s, dtype=object)
        out.fill(0)
        sl = tuple(slice(0, min(a, b)) for a, b in zip(x.shape, s))
        out[sl] = x[sl]
        return out

    # -- transforms --------------------------------------------------------------------------
    def fftn(self, x, s=None, axes=None, **kw):
        if not _default_axes(x, axes):
            raise Unsupported("fftn with axes")
        xin = self._pad_to(x, s)
        if self.mode == "opaque":
            out = self._fresh_spec(xin.shape, "F")
        else:
            out = xin
            for ax in range(xin.ndim):
                out = _dft_axis(out, ax, xin.shape[ax], -1)
            out = out.view(A.SymArray)
        self.calls.append(("fftn", x, s, out))
        return out

    def ifftn(self, x, s=None, axes=None, **kw):
        if not _default_axes(x, axes):
            raise Unsupported("ifftn with axes")
        xin = self._pad_to(x, s)
        if self.mode == "opaque":
            out = self._fresh_spec(xin.shape, "I")
        else:
            out = xin
            for ax in range(xin.ndim):
                out = _dft_axis(out, ax, xin.shape[ax], +1)
            n = int(np.prod(xin.shape))
            out = A.elementwise(lambda v: v / n, out)
        self.calls.append(("ifftn", x, s, out))
        return out

    def rfftn(self, x, s=None, axes=None, **kw):
        if not _default_axes(x, axes):
            raise Unsupported("rfftn with axes")
        if self.mode == "exact" and s is not None:
            # the only use of rfftn(x, s) in acryo is FFT convolution: keep it lazy (convolution theorem)
            xin0 = self._as_obj(x)
            out = LazySpec(xin0, s)
            self.calls.append(("rfftn", x, s, out))
            return out
        xin = self._pad_to(x, s)
        half = xin.shape[:-1] + (xin.shape[-1] // 2 + 1,)
        if self.mode == "opaque":
            out = self._fresh_spec(half, "F")
        else:
            out = xin
            for ax in range(xin.ndim):
                out = _dft_axis(out, ax, half[ax], -1)
            out = out.view(A.SymArray)
        self.calls.append(("rfftn", x, s, out))
        return out

    def irfftn(self, y, s=None, axes=None, **kw):
        if not _default_axes(y, axes):
            raise Unsupported("irfftn with axes")
        if isinstance(y, LazyProd):
            if s is None or tuple(int(v) for v in s) != y.s:
                raise Unsupported("irfftn of a spectral product on a different grid")
            out = circular_convolve(y.a.x, y.b.x, y.s)
            self.calls.append(("irfftn", y, s, out))
            return out
        yin = self._as_obj(y)
        if s is None:
            m = yin.shape[-1]
            shape = yin.shape[:-1] + (2 * (m - 1) if m > 1 else 1,)  # scipy's default (length 1 for m == 1, observed)
        else:
            shape = tuple(int(v) for v in s)
        if self.mode == "opaque":
            out = self._fresh_real(shape, "R")
        else:
            # rebuild the full Hermitian spectrum of logical shape `shape`, then inverse DFT
            full = np.empty(shape, dtype=object)
            m = shape[-1] // 2 + 1
            if yin.shape[:-1] != shape[:-1] or yin.shape[-1] < m:
                ypad = np.empty(shape[:-1] + (m,), dtype=object)
                ypad.fill(0)
                sl = tuple(slice(0, min(a, b)) for a, b in zip(yin.shape, ypad.shape))
                ypad[sl] = yin[sl]
                yin = ypad
            for idx in np.ndindex(shape):
                k = idx[-1]
                if k < m:
                    full[idx] = yin[idx[:-1] + (k,)]
                else:
                    neg = tuple((-i) % n for i, n in zip(idx, shape))
                    v = yin[neg[:-1] + (neg[-1],)]
                    full[idx] = v.conjugate() if hasattr(v, "conjugate") else v
            out = full
            for ax in range(len(shape)):
                out = _dft_axis(out, ax, shape[ax], +1)
            n = int(np.prod(shape))
            out = A.elementwise(lambda v: (v.re if isinstance(v, SymComplex) else v) / n, out)
        self.calls.append(("irfftn", y, s, out))
        return out

    @staticmethod
    def next_fast_len(n, real=False):
        return n
