"""symx.rotation -- SymRotation: contract-level stand-in for scipy.spatial.transform.Rotation.

Quaternion mode: rows of (x, y, z, w) with |q| = 1 (assumed for symbolic rows -- the harness
adds the unit-norm hypothesis; concrete rows are normalised exactly and must have a rational
norm).  Matrix mode: an arbitrary 3x3 matrix (used where the property is linear in R, so R
can be left as nine free reals).  as_rotvec() returns fresh reals registered as "the rotation
vector of q"; from_rotvec(M v) for such a v returns (M q_vec, q_w) and records the
obligations `linear in v` and `M^T M = I` (true for every norm preserving M, including -I).
"""
from __future__ import annotations

import math
from fractions import Fraction

import numpy as np
import z3

from . import arrays as A
from .core import Sym, Unsupported, _coerce, cur, is_symbolic, lift, _real, sym_sqrt

_ROTVEC_REG: dict[str, tuple] = {}  # fresh var name -> (quat row tuple, component index)
_EULER_REG: dict = {}


def _q(x):
    x = _coerce(x)
    if isinstance(x, float):
        return Fraction(x)
    return x


def _exact_unit(row):
    """normalise a concrete quaternion exactly (rational norm required)"""
    fr = [Fraction(_q(v)) for v in row]
    n2 = sum(v * v for v in fr)
    if n2 == 1:
        return fr
    if n2 == 0:
        raise ValueError("Found zero norm quaternions in `quat`.")
    num, den = math.isqrt(n2.numerator), math.isqrt(n2.denominator)
    if num * num != n2.numerator or den * den != n2.denominator:
        # float32-rounded unit quaternion etc.: accept if within rounding of 1
        if abs(float(n2) - 1.0) < 1e-5:
            return fr
        raise Unsupported(f"concrete quaternion with irrational norm {float(n2) ** 0.5}")
    n = Fraction(num, den)
    return [v / n for v in fr]


class SymRotation:
    __array_priority__ = 2000
    __array_ufunc__ = None

    def __init__(self, quat=None, normalize=True, copy=True, *, mat=None, single=None):
        if mat is not None:
            m = A.to_symarray(mat)
            self._single = m.ndim == 2 if single is None else single
            self._mat = m.reshape(-1, 3, 3)
            self._quat = None
            return
        self._mat = None
        if isinstance(quat, SymRotation):
            quat = quat.as_quat()
        q = A.to_symarray(quat)
        if q.ndim not in (1, 2) or q.shape[-1] != 4:
            raise ValueError(f"Expected `quat` to have shape (4,) or (N, 4), got {q.shape}.")
        self._single = q.ndim == 1 if single is None else single
        q = q.reshape(-1, 4).view(np.ndarray).copy()
        for i in range(q.shape[0]):
            if not any(is_symbolic(v) for v in q[i]):
                if normalize:
                    q[i] = _exact_unit(q[i])
                else:
                    q[i] = [_q(v) for v in q[i]]
        self._quat = q.view(A.SymArray)

    # -- constructors -----------------------------------------------------------------------
    @classmethod
    def from_quat(cls, quat, **kw):
        return cls(quat)

    @classmethod
    def identity(cls, num=None):
        if num is None:
            return cls([0, 0, 0, 1])
        return cls([[0, 0, 0, 1]] * num)

    @classmethod
    def from_matrix(cls, matrix):
        m = A.to_symarray(matrix)
        return cls(mat=m)

    @classmethod
    def from_rotvec(cls, rotvec, degrees=False):
        v = A.to_symarray(rotvec)
        single = v.ndim == 1
        v = v.reshape(-1, 3)
        rows = []
        for i in range(v.shape[0]):
            rows.append(_quat_from_rotvec(v[i].view(np.ndarray)))
        return cls(rows, normalize=False, single=single) if not single else cls(rows[0], normalize=False)

    @classmethod
    def from_euler(cls, seq, angles, degrees=False):
        from .angles import rotation_from_euler

        return rotation_from_euler(cls, seq, angles, degrees)

    @classmethod
    def random(cls, num=None, random_state=None):
        raise Unsupported("Rotation.random in symbolic code")

    # -- basics -----------------------------------------------------------------------------
    @property
    def single(self):
        return self._single

    def __len__(self):
        if self._single:
            raise TypeError("Single rotation has no len().")
        return (self._quat if self._quat is not None else self._mat).shape[0]

    def __getitem__(self, idx):
        if self._single:
            raise TypeError("Single rotation is not subscriptable.")
        if self._quat is not None:
            q = self._quat.view(np.ndarray)[idx]
            return SymRotation(q, normalize=False)
        return SymRotation(mat=self._mat.view(np.ndarray)[idx])

    def __iter__(self):
        for i in range(len(self)):
            yield self[i]

    def _rows(self):
        return self._quat.view(np.ndarray)

    def as_quat(self, canonical=False, **kw):
        if self._quat is None:
            raise Unsupported("as_quat() of a matrix-mode rotation")
        q = self._quat.copy()
        return q[0] if self._single else q

    def as_matrix(self):
        if self._mat is not None:
            m = self._mat.copy()
            return m[0] if self._single else m
        rows = self._rows()
        out = np.empty((rows.shape[0], 3, 3), dtype=object)
        for i, (x, y, z, w) in enumerate(rows):
            out[i] = quat_to_matrix(x, y, z, w)
        out = out.view(A.SymArray)
        return out[0] if self._single else out

    def magnitude(self):
        """rotation angle: an opaque non-negative real per rotation that is 0 exactly for the identity (no numeric model of the angle)"""
        ex = cur()
        out = []
        if self._mat is not None:
            mats = self._mat.view(np.ndarray)
            for m in mats:
                ident = z3.And(*[_real(lift(_coerce(m[i][j]))) == (1 if i == j else 0) for i in range(3) for j in range(3)])
                out.append(ident)
        else:
            for row in self._rows():
                q = [_real(lift(_coerce(c))) for c in row]
                out.append(z3.And(q[0] == 0, q[1] == 0, q[2] == 0))
        res = []
        for ident in out:
            iv = z3.simplify(ident)
            if z3.is_true(iv):
                res.append(0.0)
                continue
            mag = z3.Real(ex.fresh_name("magnitude"))
            ex.assume(z3.And(mag >= 0, (mag == 0) == ident))
            res.append(Sym(mag))
        if self._single or len(res) == 1 and getattr(self, "_single", False):
            return res[0]
        return A.to_symarray(res) if any(isinstance(v, Sym) for v in res) else np.array(res)

    def inv(self):
        if self._mat is not None:
            return SymRotation(mat=np.swapaxes(self._mat.view(np.ndarray), 1, 2), single=self._single)
        rows = self._rows().copy()
        rows[:, :3] = -rows[:, :3]
        return SymRotation(rows, normalize=False, single=self._single)

    def __mul__(self, other):
        if not isinstance(other, SymRotation):
            return NotImplemented
        if self._mat is not None or other._mat is not None:
            a = self.as_matrix().reshape(-1, 3, 3)
            b = other.as_matrix().reshape(-1, 3, 3)
            n = max(a.shape[0], b.shape[0])
            out = [A._matmul(a[i % a.shape[0]], b[i % b.shape[0]]) for i in range(n)]
            return SymRotation(mat=np.array(out, dtype=object), single=self._single and other._single)
        p, q = self._rows(), other._rows()
        if not (p.shape[0] == q.shape[0] or p.shape[0] == 1 or q.shape[0] == 1):
            raise ValueError(
                f"Expected equal number of rotations in both or a single rotation in either object, got {p.shape[0]} rotations in first and {q.shape[0]} rotations in second object."
            )
        n = max(p.shape[0], q.shape[0])
        rows = [quat_mul(p[i % p.shape[0]], q[i % q.shape[0]]) for i in range(n)]
        return SymRotation(rows, normalize=False, single=self._single and other._single)

    def apply(self, vectors, inverse=False):
        v = A.to_symarray(vectors)
        single_v = v.ndim == 1
        if v.ndim not in (1, 2) or v.shape[-1] != 3:
            raise ValueError(f"Expected input of shape (3,) or (P, 3), got {v.shape}.")
        v = v.reshape(-1, 3).view(np.ndarray)
        m = self.as_matrix().reshape(-1, 3, 3).view(np.ndarray)
        if not (m.shape[0] == v.shape[0] or m.shape[0] == 1 or v.shape[0] == 1):
            raise ValueError(f"Expected equal numbers of rotations and vectors, or a single rotation, or a single vector, got {m.shape[0]} rotations and {v.shape[0]} vectors.")
        n = max(m.shape[0], v.shape[0])
        out = np.empty((n, 3), dtype=object)
        for i in range(n):
            mi = m[i % m.shape[0]]
            if inverse:
                mi = mi.T
            out[i] = A._matmul(mi, v[i % v.shape[0]])
        out = out.view(A.SymArray)
        if self._single and single_v:
            return out[0]
        return out

    def as_rotvec(self, degrees=False):
        if self._quat is None:
            raise Unsupported("as_rotvec() of a matrix-mode rotation")
        rows = self._rows()
        out = np.empty((rows.shape[0], 3), dtype=object)
        ex = cur()
        for i, row in enumerate(rows):
            if not any(is_symbolic(c) for c in row) and all(Fraction(c) == 0 for c in row[:3]):
                out[i] = [0, 0, 0]
                continue
            base = None
            for k in range(3):
                name = ex.fresh_name("rotvec")
                if base is None:
                    base = int(name.split("!")[1])
                _ROTVEC_REG[name] = (base, k, tuple(row))
                out[i, k] = Sym(z3.Real(name))
        out = out.view(A.SymArray)
        return out[0] if self._single else out

    def as_euler(self, seq, degrees=False):
        from .angles import euler_of_rotation

        return euler_of_rotation(self, seq, degrees)

    def __repr__(self):
        return f"SymRotation(n={'single' if self._single else len(self)}, mode={'mat' if self._mat is not None else 'quat'})"


def quat_to_matrix(x, y, z, w):
    x2, y2, z2, w2 = x * x, y * y, z * z, w * w
    xy, zw, xz, yw, yz, xw = x * y, z * w, x * z, y * w, y * z, x * w
    m = np.empty((3, 3), dtype=object)
    m[0, 0] = x2 - y2 - z2 + w2
    m[1, 0] = 2 * (xy + zw)
    m[2, 0] = 2 * (xz - yw)
    m[0, 1] = 2 * (xy - zw)
    m[1, 1] = -x2 + y2 - z2 + w2
    m[2, 1] = 2 * (yz + xw)
    m[0, 2] = 2 * (xz + yw)
    m[1, 2] = 2 * (yz - xw)
    m[2, 2] = -x2 - y2 + z2 + w2
    return m


def quat_mul(p, q):
    px, py, pz, pw = p
    qx, qy, qz, qw = q
    return [
        pw * qx + qw * px + (py * qz - pz * qy),
        pw * qy + qw * py + (pz * qx - px * qz),
        pw * qz + qw * pz + (px * qy - py * qx),
        pw * qw - (px * qx + py * qy + pz * qz),
    ]


def _linear_decompose(vec, names):
    """vec: 3 z3 terms; names: the three rotvec variables.  Returns M (3x3 z3 terms) with
    vec = M @ v as a polynomial identity obligation."""
    vs = [z3.Real(n) for n in names]
    zero = [(v, z3.RealVal(0)) for v in vs]
    M = [[None] * 3 for _ in range(3)]
    for r in range(3):
        e = vec[r]
        base = z3.substitute(e, *zero)
        for c in range(3):
            sub = [(vs[k], z3.RealVal(1 if k == c else 0)) for k in range(3)]
            M[r][c] = z3.simplify(z3.substitute(e, *sub) - base)
    return M, vs


def _quat_from_rotvec(v):
    """v: object array of 3 scalars"""
    if not any(is_symbolic(c) for c in v):
        if all(Fraction(_q(c)) == 0 for c in v):
            return [0, 0, 0, 1]
        raise Unsupported("from_rotvec of a concrete non-zero vector (no exact quaternion)")
    es = [_real(lift(_coerce(c))) for c in v]
    # find registered rotvec variables
    names = set()
    for e in es:
        for var in _free_vars(e):
            if var in _ROTVEC_REG:
                names.add(var)
    if not names:
        from .angles import quat_from_axis_angle_vector

        r = quat_from_axis_angle_vector(v)
        if r is not None:
            return r
        raise Unsupported("from_rotvec of a symbolic vector that is not derived from as_rotvec()")
    bases = {_ROTVEC_REG[n][0] for n in names}
    if len(bases) != 1:
        raise Unsupported("from_rotvec mixing rotation vectors of different rotations")
    first = next(iter(bases))
    ordered = [f"rotvec!{first + k}" for k in range(3)]
    row = _ROTVEC_REG[ordered[0]][2]
    M, vs = _linear_decompose(es, ordered)
    ex = cur()
    # obligation 1: linear in v
    for r in range(3):
        lin = sum((M[r][c] * vs[c] for c in range(3)), z3.RealVal(0))
        ex.oblige("rotvec-linear", es[r] == lin)
    # obligation 2: M^T M = I
    for a in range(3):
        for b in range(a, 3):
            dot = sum((M[k][a] * M[k][b] for k in range(3)), z3.RealVal(0))
            ex.oblige("rotvec-orthogonal", dot == (1 if a == b else 0))
    qx, qy, qz, qw = row
    qv = [qx, qy, qz]
    out = []
    for r in range(3):
        acc = None
        for c in range(3):
            coef = z3.simplify(M[r][c])
            if z3.is_rational_value(coef) and coef.as_fraction() == 0:
                continue
            t = Sym(coef) * qv[c]
            acc = t if acc is None else acc + t
        out.append(0 if acc is None else acc)
    out.append(qw)
    return out


def _free_vars(e):
    seen = set()
    out = set()
    stack = [e]
    while stack:
        t = stack.pop()
        if t.get_id() in seen:
            continue
        seen.add(t.get_id())
        if z3.is_const(t) and t.decl().kind() == z3.Z3_OP_UNINTERPRETED:
            out.add(t.decl().name())
        else:
            stack.extend(t.children())
    return out


# ---------------------------------------------------------------------------------------
# R30: thirty exact-rational unit quaternions (x, y, z, w)

def _norm(*v):
    n2 = sum(Fraction(c) ** 2 for c in v)
    r = Fraction(math.isqrt(n2.numerator), math.isqrt(n2.denominator))
    assert r * r == n2, v
    return tuple(Fraction(c) / r for c in v)


R30 = [
    _norm(0, 0, 0, 1),
    # 180 degrees about x, y, z
    _norm(1, 0, 0, 0), _norm(0, 1, 0, 0), _norm(0, 0, 1, 0),
    # 120 degrees about the cube diagonals
    _norm(1, 1, 1, 1), _norm(-1, 1, 1, 1), _norm(1, -1, 1, 1), _norm(1, 1, -1, 1),
    _norm(-1, -1, -1, 1),
    # generic rational rotations
    _norm(1, 2, 2, 4), _norm(2, 3, 6, 0), _norm(1, 4, 8, 0), _norm(2, 4, 5, 6), _norm(-1, 2, 2, 4),
    _norm(2, -1, 4, 2), _norm(4, 2, 2, -1), _norm(1, 2, 4, 10), _norm(2, 2, 1, 0), _norm(3, 4, 0, 0),
    _norm(0, 3, 4, 0), _norm(3, 0, 4, 0), _norm(3, 0, 0, 4), _norm(0, 3, 0, 4), _norm(0, 0, 3, 4),
    _norm(0, 0, -3, 4), _norm(5, 0, 0, 12), _norm(2, 6, 3, 0), _norm(1, 1, 3, 5), _norm(-2, 4, 5, 6),
    _norm(6, 2, 3, 0),
]
assert len(R30) == 30

R6 = [R30[0], R30[1], R30[4], R30[9], R30[10], R30[12]]
