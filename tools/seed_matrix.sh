#!/bin/sh
# tools/seed_matrix.sh NAME:PROP [NAME:PROP ...]  -- apply each seeded change from /tmp/seeded_out/NAME (or /verif/seeded/NAME), run ./check PROP, undo; one line per pair
for s in "$@"; do
  n=${s%%:*}; p=${s##*:}
  f=/tmp/seeded_out/$n/patch.diff; [ -f "$f" ] || f=/verif/seeded/$n/patch.diff
  r=$(sh /verif/tools/try_seed.sh "$f" "$p" 2>&1 | tail -1)
  echo "$n vs $p: $r"
done
