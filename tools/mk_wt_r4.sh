#!/bin/sh
# round 4: (re)create scratch worktree /tmp/wt/<ID>r4 at /repo HEAD and render the round-4 prompt (outputs <ID>_7, <ID>_8)
ID="$1"
mkdir -p /tmp/seeded_out
cd /repo && git worktree remove --force /tmp/wt/${ID}r4 2>/dev/null; git worktree prune
git worktree add -q --detach /tmp/wt/${ID}r4 HEAD || exit 1
/venv/bin/python - "$ID" <<'PY'
import sys, json
p = sys.argv[1]
t = open('/verif/tools/seed_prompt_template_r4.txt').read()
prop = None
for l in open('/verif/properties.jsonl'):
    d = json.loads(l)
    if d['id'] == p:
        prop = f"{p}: {d['title']}\n\nStatement: {d['statement']}\n\nQuantifier: {d['quantifier']['text']}\n"
out = t.replace('{WT}', f'/tmp/wt/{p}r4').replace('{PROPERTY}', prop).replace('{N}', '2').replace('{OUT}', '/tmp/seeded_out').replace('{PID}', p).replace('{{k}}', '{k}')
open(f'/tmp/seeded_out/{p}_prompt_r4.txt', 'w').write(out)
PY
echo "worktree /tmp/wt/${ID}r4 at $(git -C /tmp/wt/${ID}r4 rev-parse --short HEAD)"
