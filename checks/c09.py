"""C09 -- averages are plain arithmetic means of the loaded subtomograms; split halves partition.

Real code: LoaderBase.average, average_split, construct_dask, fsc_with_halfmaps (half-map part), _misc.random_splitter,
LoaderGroup.average / average_split.  The stack of loaded subtomograms is a list of one-voxel symbolic images; the random
generator is replaced by a stub whose `choice` returns arbitrary (symbolic) picks, so every possible split is covered.
"""
from __future__ import annotations

import itertools
from fractions import Fraction

import numpy as np
import polars as pl
import z3

from symx import harness, load, rotation, stubs, smt
from symx.arrays import SymArray, to_symarray, _obj
from symx.core import Unsupported, Sym, explore, integer, lift, real, _real, _coerce
from symx.daskstub import DaskArrayStub, EmptyMean
from symx.plshim import PlShim

from .common import TRUSTED, fl, frac, quick, select

PID = "C09"
MODS = ["acryo._utils", "acryo.backend._api", "acryo.molecules._rotation", "acryo.molecules._group", "acryo.molecules._cut", "acryo.molecules.core",
        "acryo.loader._misc", "acryo.loader._group", "acryo.loader._base", "acryo.loader._loader", "acryo.loader._batch"]


def zr(x):
    return _real(lift(_coerce(x)))


class RngStub:
    """numpy.random.Generator: choice(a, k) returns k arbitrary elements of a (symbolic indices, repetition allowed, as with
    numpy's default replace=True); the stream is a function of the seed, so the same seed gives the same picks"""

    def __init__(self, seed):
        self.seed = seed
        self.n = 0

    def choice(self, a, size=None, replace=True, **kw):
        a = list(range(int(a))) if isinstance(a, (int, np.integer)) else list(np.asarray(a).tolist())  # an int population n stands for arange(n) (numpy)
        if size is None:
            size = 1
        out = []
        for _ in range(int(size)):
            v = integer(f"pick_s{self.seed}_{self.n}")
            self.n += 1
            from symx.core import cur

            cur().assume(z3.And(v.e >= 0, v.e < len(a)))
            out.append(v)
        return _Picks(out, a)


    # -- other ways a splitter may draw its indices: an arbitrary permutation (all indices distinct), concretised one path per outcome
    def permutation(self, x):
        import operator
        from symx.core import cur

        items = list(range(int(x))) if isinstance(x, (int, np.integer)) else list(np.asarray(x).tolist())
        n = len(items)
        vs = []
        for _ in range(n):
            v = integer(f"perm_s{self.seed}_{self.n}")
            self.n += 1
            cur().assume(z3.And(v.e >= 0, v.e < n))
            vs.append(v)
        if n > 1:
            cur().assume(z3.Distinct(*[v.e for v in vs]))
        return np.array([items[operator.index(v)] for v in vs])

    def shuffle(self, x):
        x[:] = self.permutation(list(x))

    def integers(self, low, high=None, size=None, **kw):
        lo, hi = (0, low) if high is None else (low, high)
        return self.choice(np.arange(lo, hi), size)

    def random(self, size=None):
        """continuous draws: arbitrary reals in [0, 1), one fresh symbol per draw (the stream is a function of the seed)"""
        from symx.core import cur

        n = 1 if size is None else int(np.prod(size))
        vals = []
        for _ in range(n):
            v = real(f"u_s{self.seed}_{self.n}")
            self.n += 1
            cur().assume(z3.And(v.e >= 0, v.e < 1))
            vals.append(v)
        if size is None:
            return vals[0]
        return to_symarray(vals).reshape(size if isinstance(size, tuple) else (int(size),))

    def uniform(self, low=0.0, high=1.0, size=None):
        return self.random(size) * (high - low) + low


class _Picks:
    def __init__(self, idx, a):
        self.idx, self.a = idx, a

    def tolist(self):
        import operator

        return [self.a[operator.index(i)] for i in self.idx]

    # numpy's Generator.choice returns an integer ndarray: the picks may be used directly as an index, iterated, measured or converted
    def __array__(self, dtype=None, copy=None):
        return np.array(self.tolist(), dtype=dtype or np.int64)

    def __len__(self):
        return len(self.idx)

    def __iter__(self):
        return iter(self.tolist())

    def __getitem__(self, k):
        return np.asarray(self)[k]

    def astype(self, *a, **k):
        return np.asarray(self).astype(*a, **k)

    @property
    def shape(self):
        return (len(self.idx),)

    @property
    def size(self):
        return len(self.idx)

    ndim = 1


def _load(patches=None):
    L = load.load(MODS, overrides={"Rotation": rotation.SymRotation, "da": DaskArrayStub(), "pl": PlShim()}, patches=patches)
    LB, MI, G = L["acryo.loader._base"], L["acryo.loader._misc"], L["acryo.loader._group"]

    class NPX:
        class random:
            @staticmethod
            def default_rng(seed=None):
                return RngStub(seed)

        def __init__(self, inner):
            self._inner = inner

        def __getattr__(self, n):
            return getattr(self._inner, n)

    LB.np = NPX(LB.np)
    G.np = NPX(G.np)
    L["acryo.loader._batch"].da = DaskArrayStub()
    return L


def _loader_class(L):
    LB, MC = L["acryo.loader._base"], L["acryo.molecules.core"]

    class StubLoader(LB.LoaderBase):
        """a loader whose i-th subtomogram is the one-voxel image [v_i] (task order = molecule order is C03's claim)"""

        def __init__(self, mol, vals, shape=(1, 1, 1)):
            self._mol, self._vals = mol, list(vals)
            self._order, self._scale, self._output_shape, self._corner_safe = 1, 1.0, shape, False

        @property
        def molecules(self):
            return self._mol

        def construct_loading_tasks(self, output_shape=None, backend=None):
            out = []
            # the image has the shape that was asked for (default (1, 1, 1): one voxel per molecule); every voxel holds the molecule's value
            shp = (1, 1, 1) if (output_shape is None or tuple(self._output_shape) == (1, 1, 1)) else tuple(int(v) for v in output_shape)
            self.asked_shapes = getattr(self, "asked_shapes", []) + [output_shape]
            for row in self._mol.features["row"].to_list():
                a = SymArray(shape=shp)
                for idx in np.ndindex(shp):
                    a[idx] = self._vals[row]
                out.append(a)
            return out

        def replace(self, molecules=None, output_shape=None, order=None, scale=None, corner_safe=None):
            return StubLoader(self._mol if molecules is None else molecules, self._vals, self._output_shape if output_shape is None else output_shape)

    return StubLoader


def _mk(L, n, feats=None):
    MC = L["acryo.molecules.core"]
    f = {"row": list(range(n))}
    if feats:
        f.update(feats)
    return MC.Molecules(np.zeros((n, 3)), None, features=f)


# ---------------------------------------------------------------------------------------


def replay_split(n, n_set=1):
    def run(cex):
        from acryo import SubtomogramLoader, Molecules

        rng = np.random.default_rng(0)
        tomo = rng.normal(size=(20, 20, 20)).astype(np.float32)
        pos = rng.uniform(6, 13, size=(n, 3))
        ld = SubtomogramLoader(tomo, Molecules(pos), order=1, output_shape=(3, 3, 3))
        sub = ld.asnumpy()
        avg = ld.average()
        bad = {}
        if not np.allclose(avg, sub.mean(axis=0), atol=1e-5):
            bad["average"] = float(np.abs(avg - sub.mean(axis=0)).max())
        for seed in (0, 1, 5):
            h = ld.average_split(seed=seed)
            h2 = ld.average_split(seed=seed)
            if n >= 2 and not np.all(np.isfinite(h)):
                bad[f"seed{seed}-nan"] = True
                continue
            if not np.allclose(h, h2, equal_nan=True):
                bad[f"seed{seed}-not-reproducible"] = True
            # find the split: half A must be the mean of some subset S, half B of the complement
            ok = False
            for k in range(1, n):
                for S in itertools.combinations(range(n), k):
                    T = [i for i in range(n) if i not in S]
                    if np.allclose(h[0], sub[list(S)].mean(axis=0), atol=1e-5) and np.allclose(h[1], sub[T].mean(axis=0), atol=1e-5):
                        ok = True
            if n >= 2 and not ok:
                bad[f"seed{seed}-not-a-partition"] = True
            # several sets: every set's two halves partition the molecules
            for ns in sorted({2, n_set} - {1}):
                hs = ld.average_split(n_set=ns, seed=seed)
                if n < 2 or hs.shape[:2] != (ns, 2):
                    if n >= 2:
                        bad[f"seed{seed}-n_set{ns}-shape"] = list(hs.shape)
                    continue
                for si in range(ns):
                    ok = False
                    for k in range(1, n):
                        for S in itertools.combinations(range(n), k):
                            T = [i for i in range(n) if i not in S]
                            if np.allclose(hs[si, 0], sub[list(S)].mean(axis=0), atol=1e-5) and np.allclose(hs[si, 1], sub[T].mean(axis=0), atol=1e-5):
                                ok = True
                    if not ok:
                        bad[f"seed{seed}-n_set{ns}-set{si}-not-a-partition"] = True
        return len(bad) > 0, {"n": n, "problems": bad}

    return run


def replay_chunked_average(cex):
    """installed library with a tiny dask chunk size, so that the 'auto' rechunk of the sub-tomogram stack gives several unequal chunks: the average is still the plain mean"""
    with load.real_modules():
        import dask
        from acryo import SubtomogramLoader, BatchLoader, Molecules

        rng = np.random.default_rng(0)
        tomo = rng.normal(size=(24, 24, 24)).astype(np.float32)
        bad = {}
        with dask.config.set({"array.chunk-size": "1KiB"}):
            for n in (5, 11, 20):
                mole = Molecules(rng.uniform(6, 17, size=(n, 3)))
                ld = SubtomogramLoader(tomo, mole, order=1, output_shape=(3, 3, 3))
                sub = ld.asnumpy()
                err = float(np.abs(ld.average() - sub.mean(axis=0)).max())
                if err > 1e-5:
                    bad[f"n={n}"] = err
            bl = BatchLoader(order=1, scale=1.0, output_shape=(3, 3, 3))
            bl.add_tomogram(tomo, Molecules(rng.uniform(6, 17, size=(13, 3))))
            bl.add_tomogram(tomo * 2 + 1, Molecules(rng.uniform(6, 17, size=(4, 3))))
            err = float(np.abs(bl.average() - bl.construct_dask().compute().mean(axis=0)).max())
            if err > 1e-5:
                bad["batch 13+4"] = err
        return len(bad) > 0, {"max_abs_err_vs_plain_mean": bad}


def sec_average(rec, n=3, patches=None):
    L = _load(patches)
    SL = _loader_class(L)
    rec.encodes("acryo/loader/_base.py:LoaderBase.average", "acryo/loader/_base.py:LoaderBase.construct_dask", "acryo/loader/_base.py:LoaderBase._get_output_shape")
    rec.assume("dask.array: stack / rechunk / mean(axis=0) / compute have their numpy meaning (DaskArrayStub); the mean is exact-real")
    vals = [real(f"v{i}") for i in range(n)]
    API = L["acryo.backend._api"]
    xp = stubs.make_backend(API, API.np, None)
    L["acryo.loader._base"].Backend = lambda *a, **k: xp
    from symx.daskstub import LazyStack

    # the stack as one chunk, and cut by the "auto" rechunk into unequal pieces (n - 1, 1) and (1, n - 1): the mean must not depend on the chunk layout
    splits = [None] + ([lambda m: (m - 1, 1) if m >= 2 else (m,), lambda m: (1, m - 1) if m >= 2 else (m,)] if n >= 3 else [])
    with L.installed():
        for si, split in enumerate(splits):
            LazyStack.AUTO_SPLIT = split
            try:
                paths = explore(lambda: SL(_mk(L, n), vals).average(), max_paths=10)
            finally:
                LazyStack.AUTO_SPLIT = None
            tag = f"average[n={n}" + ("" if split is None else f",chunks={split(n)}") + "]"
            for pth in paths:
                if not pth.ok:
                    rec.fact(f"{tag}/runs", False, key="C09/average/raises", detail={"exc": repr(pth.exc)[:200]}, reproduced=replay_chunked_average({})[0] if split else replay_split(n)({})[0])
                    continue
                out = _obj(pth.result)
                want = sum((v.e for v in vals), z3.RealVal(0)) / n
                rec.query(f"{tag}/arithmetic-mean", [], zr(out[0, 0, 0]) == want, key="C09/average/not-the-mean", replay=replay_chunked_average if split else replay_split(n), twin=False)


def sec_split(rec, n=4, n_set=1, patches=None):
    L = _load(patches)
    SL = _loader_class(L)
    rec.encodes("acryo/loader/_base.py:LoaderBase.average_split", "acryo/loader/_misc.py:random_splitter")
    rec.assume("numpy Generator.choice(a, k) returns k elements of a (any, repetition allowed); the stream depends only on the seed (RngStub)")
    vals = [real(f"v{i}") for i in range(n)]
    API = L["acryo.backend._api"]
    xp = stubs.make_backend(API, API.np, None)
    L["acryo.loader._base"].Backend = lambda *a, **k: xp
    rp = replay_split(n, n_set)
    tag = f"split[n={n},n_set={n_set}]"
    with L.installed():
        def run():
            ld = SL(_mk(L, n), vals)
            return ld.average_split(n_set=n_set, seed=7, squeeze=False), ld.average()

        paths = explore(run, max_paths=3000)
        n_paths = 0
        for pi, pth in enumerate(paths):
            h = [pth.condition()]
            if not pth.ok:
                ok, det = rp({})
                rec.fact(f"{tag}/path{pi}/runs", False, key="C09/split/raises", detail={"exc": repr(pth.exc)[:200], **det}, reproduced=ok)
                continue
            n_paths += 1
            halves, avg = pth.result
            halves = _obj(halves)
            for s in range(n_set):
                a, b = halves[s][0], halves[s][1]
                if isinstance(a, EmptyMean) or isinstance(b, EmptyMean) or np.shape(halves)[0:1] == ():
                    okr, det = (n < 2, {}) if n < 2 else rp({})
                    rec.fact(f"{tag}/path{pi}/set{s}/both-halves-non-empty", n < 2, key="C09/split/empty-half", detail=det, reproduced=okr)
                    continue
                a, b = zr(_obj(a).reshape(-1)[0]), zr(_obj(b).reshape(-1)[0])
                # some partition (A, B) of the molecules into two non-empty sets has a = mean(A), b = mean(B)
                found = None
                for k in range(1, n):
                    for A_ in itertools.combinations(range(n), k):
                        B_ = [i for i in range(n) if i not in A_]
                        ma = sum((vals[i].e for i in A_), z3.RealVal(0)) / len(A_)
                        mb = sum((vals[i].e for i in B_), z3.RealVal(0)) / len(B_)
                        if smt.prove(h, z3.And(a == ma, b == mb)).status == "holds":
                            found = (A_, tuple(B_))
                            break
                    if found:
                        break
                okr, det = (True, {}) if found else rp({})
                rec.fact(f"{tag}/path{pi}/set{s}/halves-are-means-of-a-partition", found is not None, key="C09/split/not-a-partition", detail=det, reproduced=okr)
                if found:
                    A_, B_ = found
                    rec.query(f"{tag}/path{pi}/set{s}/count-weighted-mean-of-halves=average", h, (len(A_) * a + len(B_) * b) / n == zr(_obj(avg)[0, 0, 0]),
                              key="C09/split/weighted-mean", replay=rp)
        rec.extra[tag] = {"paths": n_paths}


def sec_seed(rec, patches=None):
    """same seed => same split; successive sets come from one stream (different picks)"""
    L = _load(patches)
    MI = L["acryo.loader._misc"]
    rec.encodes("acryo/loader/_misc.py:random_splitter")
    for n in (2, 3, 4):
        def run():
            r1, r2 = RngStub(3), RngStub(3)
            a = MI.random_splitter(r1, n)
            b = MI.random_splitter(r2, n)
            c = MI.random_splitter(r1, n)
            return a, b, c, r1.n

        for pi, pth in enumerate(explore(run, max_paths=3000)):
            if not pth.ok:
                rec.fact(f"seed[n={n}]/path{pi}/runs", False, key="C09/splitter/raises", detail={"exc": repr(pth.exc)[:200]})
                continue
            (a0, a1), (b0, b1), (c0, c1), used = pth.result
            a0, a1, b0, b1 = [np.asarray(x, dtype=bool) for x in (a0, a1, b0, b1)]
            rec.fact(f"seed[n={n}]/path{pi}/complementary", bool(np.all(a0 ^ a1)) and a0.shape == (n,), key="C09/splitter/not-complementary", detail={"ind0": a0.tolist(), "ind1": a1.tolist()})
            rec.fact(f"seed[n={n}]/path{pi}/both-non-empty", bool(a0.any() and a1.any()), key="C09/splitter/empty-half", detail={"ind0": a0.tolist()})
            rec.fact(f"seed[n={n}]/path{pi}/same-seed-same-split", bool(np.array_equal(a0, b0) and np.array_equal(a1, b1)), key="C09/splitter/not-reproducible", detail={})
            rec.fact(f"seed[n={n}]/path{pi}/second-set-draws-new-picks", used == 2 * (n // 2), key="C09/splitter/stream", detail={"picks_used": used})


def replay_group_shapes(cex):
    """installed library: a LoaderGroup of loaders with different default output shapes, averaged with output_shape=None: each group has its own loader's shape and average"""
    with load.real_modules():
        from acryo import SubtomogramLoader, Molecules
        from acryo.loader._group import LoaderGroup

        rng = np.random.default_rng(0)
        tomo = rng.normal(size=(24, 24, 24)).astype(np.float32)
        la = SubtomogramLoader(tomo, Molecules(rng.uniform(8, 15, size=(3, 3))), order=1, output_shape=(4, 4, 4))
        lb = SubtomogramLoader(tomo, Molecules(rng.uniform(8, 15, size=(4, 3))), order=1, output_shape=(6, 5, 4))
        bad = {}
        try:
            grp = LoaderGroup([("a", la), ("b", lb)])
            avg = grp.average()
            halves = grp.average_split(seed=0)
            for k, ld in (("a", la), ("b", lb)):
                want = ld.average()
                if tuple(avg[k].shape) != tuple(want.shape) or not np.allclose(avg[k], want, atol=1e-5):
                    bad[k] = {"group_average_shape": list(avg[k].shape), "own_loader_average_shape": list(want.shape)}
                wh = ld.average_split(seed=0)
                if tuple(halves[k].shape) != tuple(wh.shape):
                    bad[k + " (average_split)"] = {"group_half_maps_shape": list(halves[k].shape), "own_loader_half_maps_shape": list(wh.shape)}
        except Exception as e:
            bad["raised"] = repr(e)[:160]
        return len(bad) > 0, {"problems": bad}


def sec_group_shapes(rec, patches=None):
    """a LoaderGroup assembled from loaders with different default output shapes, output_shape=None: every group is averaged with its own loader's shape"""
    L = _load(patches)
    SL = _loader_class(L)
    G = L["acryo.loader._group"]
    rec.encodes("acryo/loader/_group.py:LoaderGroup.average (per-loader default shape)", "acryo/loader/_group.py:LoaderGroup.average_split (per-loader default shape)")
    API = L["acryo.backend._api"]
    xp = stubs.make_backend(API, API.np, None)
    G.Backend = lambda *a, **k: xp
    L["acryo.loader._base"].Backend = lambda *a, **k: xp
    va = [real(f"a{i}") for i in range(2)]
    vb = [real(f"b{i}") for i in range(3)]
    with L.installed():
        def run():
            la, lb = SL(_mk(L, 2), va, shape=(1, 1, 2)), SL(_mk(L, 3), vb, shape=(1, 2, 1))
            grp = G.LoaderGroup([("a", la), ("b", lb)])
            avg = grp.average()
            n_a, n_b = len(la.asked_shapes), len(lb.asked_shapes)
            grp.average_split(seed=1)
            return avg, la.asked_shapes[n_a:], lb.asked_shapes[n_b:]

        for pi, pth in enumerate(explore(run, max_paths=40)):
            if not pth.ok:
                ok, det = replay_group_shapes({})
                rec.fact(f"group-shapes/path{pi}/runs", False, key="C09/group/raises", detail={"exc": repr(pth.exc)[:300], **det}, reproduced=ok)
                continue
            avg, aa, ab = pth.result
            # average_split: every group's stack is built with that group's own default shape (what the loader is asked for)
            for k, asked, shp in (("a", aa, (1, 1, 2)), ("b", ab, (1, 2, 1))):
                oks = len(asked) >= 1 and all(x is not None and tuple(int(v) for v in x) == shp for x in asked)
                okr, det = (True, {}) if oks else replay_group_shapes({})
                rec.fact(f"group-shapes/path{pi}/average_split[{k}] builds its stack with its own loader's default shape", oks, key="C09/group/own-shape-split", detail={"asked": [list(x) if x is not None else None for x in asked], "want": list(shp), **det},
                         reproduced=okr)
            for k, vals_, shp in (("a", va, (1, 1, 2)), ("b", vb, (1, 2, 1))):
                got = tuple(np.shape(avg[k]))
                oks = got == shp
                okr, det = (True, {}) if oks else replay_group_shapes({})
                rec.fact(f"group-shapes/path{pi}/average[{k}] has its own loader's default shape", oks, key="C09/group/own-shape", detail={"got": list(got), "want": list(shp), **det}, reproduced=okr)
                if oks:
                    want = sum((v.e for v in vals_), z3.RealVal(0)) / len(vals_)
                    rec.query(f"group-shapes/path{pi}/average[{k}]=mean-of-its-own-molecules", [pth.condition()], z3.And(*[zr(x) == want for x in _obj(avg[k]).reshape(-1)]), key="C09/group/average", twin=False,
                              replay=replay_group_shapes)


def sec_group(rec, patches=None):
    """LoaderGroup.average / average_split use each group's own loader"""
    L = _load(patches)
    SL = _loader_class(L)
    G = L["acryo.loader._group"]
    rec.encodes("acryo/loader/_group.py:LoaderGroup.average", "acryo/loader/_group.py:LoaderGroup.average_split")
    API = L["acryo.backend._api"]
    xp = stubs.make_backend(API, API.np, None)
    G.Backend = lambda *a, **k: xp
    L["acryo.loader._base"].Backend = lambda *a, **k: xp
    n = 5
    vals = [real(f"v{i}") for i in range(n)]
    keys = [0, 1, 0, 1, 1]
    with L.installed():
        def run():
            ld = SL(_mk(L, n, {"g": keys}), vals)
            grp = ld.groupby("g")
            return grp.average(), grp.average_split(seed=1)

        for pi, pth in enumerate(explore(run, max_paths=400)):
            if not pth.ok:
                rec.fact(f"group/path{pi}/runs", False, key="C09/group/raises", detail={"exc": repr(pth.exc)[:300]})
                continue
            avg, halves = pth.result
            h = [pth.condition()]
            for k in (0, 1):
                rows = [i for i in range(n) if keys[i] == k]
                want = sum((vals[i].e for i in rows), z3.RealVal(0)) / len(rows)
                rec.query(f"group/path{pi}/average[{k}]=mean-of-its-own-molecules", h, zr(_obj(avg[k])[0, 0, 0]) == want, key="C09/group/average", twin=False)
                hk = _obj(halves[k])
                a, b = hk[0], hk[1]
                if isinstance(a, EmptyMean) or isinstance(b, EmptyMean):
                    rec.fact(f"group/path{pi}/split[{k}]/non-empty", False, key="C09/group/empty-half", detail={})
                    continue
                a, b = zr(_obj(a).reshape(-1)[0]), zr(_obj(b).reshape(-1)[0])
                found = False
                for kk in range(1, len(rows)):
                    for A_ in itertools.combinations(rows, kk):
                        B_ = [i for i in rows if i not in A_]
                        ma = sum((vals[i].e for i in A_), z3.RealVal(0)) / len(A_)
                        mb = sum((vals[i].e for i in B_), z3.RealVal(0)) / len(B_)
                        if smt.prove(h, z3.And(a == ma, b == mb)).status == "holds":
                            found = True
                rec.fact(f"group/path{pi}/split[{k}]/partition-of-the-group", found, key="C09/group/split", detail={})


def replay_batch(cex):
    with load.real_modules():
        from acryo import BatchLoader, Molecules

        rng = np.random.default_rng(0)
        bad = {}
        for ids in (["c", "a"], [5, 2], [0, 1]):
            bl = BatchLoader(order=1, scale=1.0, output_shape=(3, 3, 3))
            counts = [3, 1]
            for k, n in zip(ids, counts):
                bl.add_tomogram(rng.normal(size=(14, 14, 14)).astype(np.float32) + (10 if k == ids[0] else 0), Molecules(rng.uniform(5, 8, size=(n, 3))), image_id=k)
            sub = bl.construct_dask().compute()
            err = float(np.abs(bl.average() - sub.mean(axis=0)).max())
            if err > 1e-4:
                bad[str(ids)] = err
        # a tomogram without molecules in the middle; a table whose image ids do not come in registration order:
        # the batch average is the molecule-count weighted mean of the per-tomogram averages
        from acryo import SubtomogramLoader

        for name in ("empty-tomogram-in-the-middle", "re-ordered-table"):
            tomos = [rng.normal(size=(14, 14, 14)).astype(np.float32) + 10 * k for k in range(3)]
            mols = [Molecules(rng.uniform(5, 8, size=(n, 3))) for n in ((2, 0, 3) if name.startswith("empty") else (2, 1, 3))]
            bl = BatchLoader(order=1, scale=1.0, output_shape=(3, 3, 3))
            for t, m in zip(tomos, mols):
                bl.add_tomogram(t, m)
            if name == "re-ordered-table":
                n = len(bl.molecules)
                bl = bl.replace(molecules=bl.molecules.subset(list(range(n))[::-1]))
            ref = sum(SubtomogramLoader(t, m, order=1, scale=1.0, output_shape=(3, 3, 3)).average() * len(m) for t, m in zip(tomos, mols) if len(m)) / sum(len(m) for m in mols)
            try:
                err = float(np.abs(bl.average() - ref).max())
                # the two half averages recombine to the full average for some split sizes (n0, n - n0)
                hs = bl.average_split(seed=1)
                ntot = sum(len(m) for m in mols)
                err = max(err, min(float(np.abs((hs[0] * n0 + hs[1] * (ntot - n0)) / ntot - ref).max()) for n0 in range(1, ntot)))
            except Exception as e:
                bad[name] = repr(e)[:200]
                continue
            if err > 1e-4:
                bad[name] = err
        return len(bad) > 0, {"max_abs_err_vs_mean_of_subtomograms": bad}


def sec_batch_average(rec, patches=None):
    """BatchLoader.average = arithmetic mean over all its subtomograms (= molecule-count weighted mean over tomograms)"""
    L = _load(patches)
    BT, LD, MC = L["acryo.loader._batch"], L["acryo.loader._loader"], L["acryo.molecules.core"]
    rec.encodes("acryo/loader/_batch.py:BatchLoader.average (inherited LoaderBase.average)", "acryo/loader/_batch.py:BatchLoader.construct_loading_tasks")
    API = L["acryo.backend._api"]
    xp = stubs.make_backend(API, API.np, None)
    for m in ("acryo.loader._base", "acryo.loader._batch", "acryo.loader._loader"):
        L[m].Backend = lambda *a, **k: xp
    def val(root, row):
        return real(f"v_{root}_{row}")

    def tasks_of(self, output_shape=None, backend=None):
        # the sub-tomogram of molecule `row` cut out of tomogram `root` is one symbolic voxel v_<root>_<row>
        out = []
        for row in self.molecules.features["row"].to_list():
            a = SymArray(shape=(1, 1, 1))
            a[0, 0, 0] = val(self.image.root, row)
            out.append(a)
        return out

    LD.SubtomogramLoader.construct_loading_tasks = tasks_of

    class Img(DaskArrayStub.Array):
        def __init__(self, root):
            self.root = root
            self.shape = (50, 50, 50)

    with L.installed():
        # (ids, counts, row order of the final table or None): includes a tomogram without molecules that is not the last one, and
        # tables whose image ids do not appear in registration order
        configs = ((["c", "a"], [3, 1], None), ([5, 2], [1, 2], None), ([0, 1], [2, 2], None), ([1, 0, 2], [1, 3, 2], None),
                   ([0, 1, 2], [2, 0, 2], None), ([0, 1], [2, 2], [2, 0, 3, 1]), ([3, 1, 2], [1, 2, 1], [3, 1, 0, 2]))
        for ids, counts, order in configs:
            home = {}

            def run():
                home.clear()
                bl = BT.BatchLoader(order=1, scale=1, output_shape=(1, 1, 1))
                for k, n in zip(ids, counts):
                    names = [f"t{k}_{i}" for i in range(n)]
                    for nm in names:
                        home[nm] = f"tomo{k}"
                    bl.add_tomogram(Img(f"tomo{k}"), MC.Molecules(np.zeros((n, 3)), None, features={"row": names}), image_id=k)
                if order is not None:
                    bl = bl.replace(molecules=bl.molecules.subset(order))
                return bl.average(), bl.average_split(seed=3, squeeze=False), bl.molecules.features["row"].to_list()

            for pth in explore(run, max_paths=400):
                tag = f"batch-average[ids={ids},counts={counts}" + (f",order={order}" if order else "") + "]"
                if not pth.ok:
                    ok, det = replay_batch({})
                    rec.fact(f"{tag}/runs", False, key="C09/batch/raises", detail={"exc": repr(pth.exc)[:300], **det}, reproduced=ok)
                    continue
                out, halves, rows = pth.result
                out = _obj(out)
                v = [val(home[r], r).e for r in rows]
                want = sum(v, z3.RealVal(0)) / len(rows)
                rec.query(f"{tag}/mean-over-all-subtomograms", [], zr(out[0, 0, 0]) == want, key="C09/batch/not-the-count-weighted-mean", replay=replay_batch, twin=False)
                # the two halves partition the molecules of the batch, each molecule cut out of its own tomogram
                h = _obj(halves)
                n = len(rows)
                parts = []
                for S in itertools.product((0, 1), repeat=n):
                    if 0 < sum(S) < n:
                        a = sum((x for x, s_ in zip(v, S) if s_), z3.RealVal(0)) / sum(S)
                        b = sum((x for x, s_ in zip(v, S) if not s_), z3.RealVal(0)) / (n - sum(S))
                        parts.append(z3.And(zr(h[0, 0, 0, 0, 0]) == a, zr(h[0, 1, 0, 0, 0]) == b))
                if parts:
                    rec.query(f"{tag}/split-halves-partition-the-batch", [], z3.Or(*parts), key="C09/batch/not-the-count-weighted-mean", replay=replay_batch, twin=False)


def replay_group_split(cex):
    """installed library: LoaderGroup.average / average_split on groups with odd and even counts: the halves of every group are finite and recombine (with some split size) to the group average"""
    with load.real_modules():
        from acryo import SubtomogramLoader, Molecules

        rng = np.random.default_rng(0)
        tomo = rng.normal(size=(24, 24, 24)).astype(np.float32)
        bad = {}
        for counts in ((3, 2), (5, 4), (1, 3)):
            g = sum(([k] * c for k, c in enumerate(counts)), [])
            ld = SubtomogramLoader(tomo, Molecules(rng.uniform(6, 17, size=(len(g), 3)), features={"g": g}), order=1, output_shape=(3, 3, 3))
            grp = ld.groupby("g")
            avgs = grp.average()
            for seed in (0, 1, 3):
                halves = grp.average_split(seed=seed)
                for k, c in enumerate(counts):
                    sub = ld.filter(pl.col("g") == k).asnumpy()
                    if not np.allclose(avgs[k], sub.mean(axis=0), atol=1e-5):
                        bad[f"counts={counts},group{k}: average"] = True
                    if c < 2:
                        continue
                    h = np.asarray(halves[k])
                    ok = np.all(np.isfinite(h)) and any(np.allclose((h[0] * n0 + h[1] * (c - n0)) / c, sub.mean(axis=0), atol=1e-5) for n0 in range(1, c))
                    if not ok:
                        bad[f"counts={counts},group{k},seed={seed}: halves do not recombine to the group average"] = True
        return len(bad) > 0, {"problems": sorted(bad)[:6]}


def replay_reuse(cex):
    """installed library: a loader (corner-safe SubtomogramLoader at scale 1, MockLoader with a float32 template and order 3) used twice gives the same sub-tomograms, and its
    average is the mean of what it loads; the caller's template and molecules are not modified"""
    with load.real_modules():
        from acryo import SubtomogramLoader, Molecules
        from acryo.loader import MockLoader
        from scipy.spatial.transform import Rotation

        rng = np.random.default_rng(2)
        bad = {}
        tomo = rng.normal(size=(30, 30, 30)).astype(np.float32)
        pos = rng.uniform(10, 20, size=(4, 3))
        mole = Molecules(pos.copy(), Rotation.from_rotvec(rng.normal(size=(4, 3)) * 0.4))
        for cs in (True, False):
            ld = SubtomogramLoader(tomo, mole, order=1, scale=1.0, output_shape=(5, 5, 5), corner_safe=cs)
            a1 = ld.asnumpy()
            avg = ld.average()
            a2 = ld.asnumpy()
            if not np.allclose(a1, a2) or not np.allclose(avg, a1.mean(axis=0), atol=1e-5) or not np.allclose(ld.molecules.pos, pos):
                bad[f"SubtomogramLoader(corner_safe={cs})"] = {"second_load_differs_by": float(np.abs(a1 - a2).max()), "average_vs_mean": float(np.abs(avg - a1.mean(axis=0)).max()),
                                                                 "positions_moved_by": float(np.abs(np.asarray(ld.molecules.pos) - pos).max())}
        tmpl = rng.normal(size=(7, 7, 7)).astype(np.float32)
        t0 = tmpl.copy()
        for order in (3, 1):
            ml = MockLoader(tmpl, Molecules(rng.normal(size=(3, 3)) * 0.5, Rotation.from_rotvec(rng.normal(size=(3, 3)) * 0.3)), order=order)
            b1 = ml.asnumpy()
            avg = ml.average()
            b2 = ml.asnumpy()
            if not np.array_equal(tmpl, t0) or not np.allclose(b1, b2, atol=1e-6) or not np.allclose(avg, b1.mean(axis=0), atol=1e-5):
                bad[f"MockLoader(order={order})"] = {"template_modified": not np.array_equal(tmpl, t0), "second_load_differs_by": float(np.abs(b1 - b2).max()), "average_vs_mean": float(np.abs(avg - b1.mean(axis=0)).max())}
                tmpl[...] = t0
        return len(bad) > 0, {"problems": bad}


def sec_batch_registry(rec, patches=None):
    """the batch average runs over the tomogram each molecule was registered with: image-id bookkeeping of derived batches (executed by C03's batch-ops section)"""
    from .c03 import sec_batch_ops

    sec_batch_ops(rec, patches=patches)


def sec_reuse(rec, patches=None):
    """average / average_split load through the same loader object again and again: loading must not modify the loader, its molecules or the template it was given.
    (a) SubtomogramLoader: C02's sampling section (corner_safe, scale symbolic incl. exactly 1) with its 'molecule-positions-not-modified' fact;
    (b) MockLoader: the real construct_loading_tasks with a recording spline_filter / affine_transform: the caller's template is never the output buffer, two constructions agree"""
    from .c02 import sec_sampling

    sec_sampling(rec, order=1, corner_safe=True, free_axis=2, shape=(1, 2, 2), patches=patches)
    L = load.load(["acryo.loader._mock"], overrides={"np": np}, patches=patches)
    M = L["acryo.loader._mock"]
    rec.encodes("acryo/loader/_mock.py:MockLoader.construct_loading_tasks (template handling)")
    rec.assume("scipy's spline_filter / affine_transform are recorded: a call with output=<array> writes into that array (as scipy does)")
    log = []

    def sfilter(inp, order=3, mode="constant", output=np.float64, **kw):
        log.append(("spline_filter", inp, output))
        if isinstance(output, np.ndarray):
            output[...] = np.asarray(inp) * 2 + 1  # stands for "the spline coefficients": a visible in-place change
            return output
        return (np.asarray(inp) * 2 + 1).astype(output)

    M.spline_filter = sfilter

    class XP:
        name = "numpy"

        def affine_transform(self, img, mtx, **kw):
            log.append(("affine_transform", img, np.asarray(mtx).copy()))
            return np.zeros(np.shape(img), dtype=np.float32)

    from acryo import Molecules as RealMolecules

    for order in (3, 1):
        for dt in (np.float32, np.float64):
            tmpl = np.arange(27, dtype=dt).reshape(3, 3, 3)
            t0 = tmpl.copy()
            ml = M.MockLoader(tmpl, RealMolecules(np.array([[0.5, 0.0, -0.5], [0.0, 0.25, 0.0]])), order=order)
            snaps = []
            for rep in range(2):
                del log[:]
                tasks = ml.construct_loading_tasks(backend=XP())
                [t.compute() for t in tasks]
                snaps.append([np.asarray(e[1]).copy() for e in log if e[0] == "affine_transform"])
            tag = f"reuse/MockLoader[order={order},{np.dtype(dt).name}]"
            ok1 = np.array_equal(tmpl, t0)
            rec.fact(f"{tag}/caller's-template-not-modified", bool(ok1), key="C09/reuse/template-modified", detail={}, reproduced=True if ok1 else replay_reuse({})[0])
            ok2 = len(snaps[0]) == len(snaps[1]) == 2 and all(np.array_equal(a, b) for a, b in zip(snaps[0], snaps[1]))
            rec.fact(f"{tag}/second-construction-transforms-the-same-image", bool(ok2), key="C09/reuse/not-repeatable", detail={"n": [len(x) for x in snaps]}, reproduced=True if ok2 else replay_reuse({})[0])
            tmpl[...] = t0


def sections(tier):
    S = [("seed", "checks.c09", "sec_seed", {}), ("group", "checks.c09", "sec_group", {}), ("group-shapes", "checks.c09", "sec_group_shapes", {}), ("batch-average", "checks.c09", "sec_batch_average", {}), ("loader-reuse", "checks.c09", "sec_reuse", {}), ("batch-registry", "checks.c09", "sec_batch_registry", {})]
    for n in (1, 2, 3, 5):
        S.append((f"average-{n}", "checks.c09", "sec_average", {"n": n}))
    for n in (2, 3, 4) if quick(tier) else (2, 3, 4, 5, 6):
        S.append((f"split-{n}", "checks.c09", "sec_split", {"n": n}))
    S.append(("split-3x2", "checks.c09", "sec_split", {"n": 3, "n_set": 2}))
    return S


_LB = "acryo.loader._base"
_MI = "acryo.loader._misc"
MUTANTS = [
    ("group:average_split-rebinds-output_shape (defect fixed by 'fix: LoaderGroup.average_split uses each loader's own default output shape')", "checks.c09", "sec_group_shapes", {},
     {"acryo.loader._group": [("            _output_shape = loader._get_output_shape(output_shape)\n            dask_array = loader.construct_dask(output_shape=_output_shape, backend=xp)",
                               "            output_shape = loader._get_output_shape(output_shape)\n            dask_array = loader.construct_dask(output_shape=output_shape, backend=xp)")]}),
    ("group:average-uses-the-first-loader's-shape (seeded change C09_12)", "checks.c09", "sec_group_shapes", {},
     {"acryo.loader._group": [("            _output_shape = loader._get_output_shape(output_shape)\n            dsk = loader.construct_dask(_output_shape, backend=xp)",
                               "            output_shape = loader._get_output_shape(output_shape)\n            dsk = loader.construct_dask(output_shape, backend=xp)")]}),
    ("split:halves-from-different-stacks", "checks.c09", "sec_split", {"n": 3}, {_LB: [("                    dsk[ind1].rechunk(chunksize).mean(axis=0),  # type: ignore", "                    dsk[ind0].rechunk(chunksize).mean(axis=0),  # type: ignore")]}),
    ("splitter:overlapping", "checks.c09", "sec_seed", {}, {_MI: [("    indices1[sl] = False\n", "    indices1[sl[1:]] = False\n")]}),
    ("splitter:empty-half", "checks.c09", "sec_seed", {}, {_MI: [("    sl = rng.choice(np.arange(nmole), nmole // 2).tolist()", "    sl = rng.choice(np.arange(nmole), nmole).tolist()")]}),
    ("splitter:new-rng-per-set", "checks.c09", "sec_split", {"n": 3, "n_set": 2}, {_LB: [("            ind0, ind1 = _misc.random_splitter(rng, nmole)\n            _stack = da.stack(\n                [\n                    dsk[ind0].rechunk(chunksize)", "            ind0, ind1 = _misc.random_splitter(rng, nmole - 1)\n            ind0, ind1 = np.append(ind0, False), np.append(ind1, False)\n            _stack = da.stack(\n                [\n                    dsk[ind0].rechunk(chunksize)")]}),
    ("average:sum-not-mean", "checks.c09", "sec_average", {"n": 3}, {_LB: [("        return xp.asnumpy(dsk.mean(axis=0).compute())", "        return xp.asnumpy(dsk.mean(axis=0).compute() * 1.0000001)")]}),
    ("group:parent-loader", "checks.c09", "sec_group", {}, {"acryo.loader._group": [("            dsk = loader.construct_dask(_output_shape, backend=xp)\n            tasks.append(da.mean(dsk, axis=0))", "            dsk = loader.construct_dask(_output_shape, backend=xp)\n            tasks.append(da.mean(dsk[:1], axis=0))")]}),
]


def run(tier, procs=None, only=None):
    S = select(sections(tier), only)
    return harness.run_check(
        PID, tier, S, procs=procs,
        explanation="average / average_split / LoaderGroup.average(_split) are executed on a loader whose i-th subtomogram is a one-voxel symbolic image, with dask.array replaced "
                    "by a stack/mean/compute stub and the random generator by a stub whose picks are symbolic: the explorer forks over every possible split; z3 proves the average is "
                    "the arithmetic mean, that the two halves are the means of a partition into two non-empty sets and that their count-weighted mean is the full average.",
        bounds={"molecules": "N in 1..5 (average), 2..4 quick / 2..6 thorough (split), every outcome of choice(N, N//2) with repetition", "n_set": "1 and 2", "groups": "5 molecules in 2 groups"},
        trusted_base=TRUSTED + ["DaskArrayStub (numpy meaning of stack/mean/compute)", "RngStub (choice returns elements of its argument; stream is a function of the seed)", "real polars"],
        outside=["'however the tomogram is chunked': dask's chunked reductions are not encoded",
                 "float32 rounding of the mean"],
        mutants=MUTANTS if (not quick(tier) and not only) else None,
    )


# every real-library oracle of this property (each returns (reproduced, detail)); used to confirm structural facts that carry no replay of their own
ALL_REPLAYS = [replay_group_shapes, lambda c: replay_split(4)(c), lambda c: replay_split(3, 2)(c), replay_batch, replay_reuse, replay_chunked_average, replay_group_split]


def replay(data):
    ok, detail = (replay_reuse if "reuse" in data.get("key", "") or "molecules-modified" in data.get("key", "") else replay_split(4))(data.get("cex") or {})
    print("replay:", detail)
    print("REPRODUCED" if ok else "not reproduced")
    return 1 if ok else 0
