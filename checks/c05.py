"""C05 -- alignment stays inside the search range and never fails on a valid range.

"Every sub-volume, including noise" is quantified as *every possible arg-max outcome*: the real
code runs with a numpy shim whose argmax over data returns an arbitrary in-range index, and
interpolation results are opaque.  Real code: acryo/backend/_upsample.py (upsample,
_create_mesh), _zncc.py (subpixel_zncc/ncc, ncc_landscape, _get_padding_width, fftconvolve,
_window_sum_3d), _pcc.py (subpixel_pcc, crop_by_max_shifts), _fsc.py (subpixel_fsc,
fsc_landscape), loader/_base.py (_normalize_max_shifts).
"""
from __future__ import annotations

import itertools
from fractions import Fraction

import numpy as np
import z3

from symx import harness, load, stubs
from symx.arrays import SymArray, to_symarray, _obj
from symx.core import Sym, explore, integer, lift, real, _real, _coerce
from symx.npshim import BlindNP
from symx.shapes import ShapeOnly

from .common import TRUSTED, fl, frac, quick, select, ratz

PID = "C05"
MODS = ["acryo.backend._api", "acryo.backend._upsample", "acryo.backend._zncc", "acryo.backend._pcc", "acryo.backend._fsc"]


def zr(x):
    return _real(lift(_coerce(x)))


def zi(x):
    return lift(_coerce(x))


def _load(patches=None):
    return load.load(MODS, overrides={"np": BlindNP()}, patches=patches)


def _backend(L):
    import scipy.fft as sfft

    API = L["acryo.backend._api"]
    return stubs.make_backend(API, API.np, stubs.HybridNdi(), sfft)


# ---------------------------------------------------------------------------------------
# replay: drive the real model to the boundary of the range


def replay_model(kind, box=(8, 8, 8)):
    def run(cex):
        from acryo.backend import Backend
        from acryo.backend._zncc import subpixel_zncc, subpixel_ncc
        from acryo.backend._pcc import subpixel_pcc
        from acryo.backend._fsc import subpixel_fsc
        import scipy.fft as sf
        from scipy import ndimage as ndi

        m = [max(fl(cex.get(f"m{a}", 0.0)) or 0.0, 0.0) for a in range(3)]
        xp = Backend()
        rng = np.random.default_rng(0)
        shape = tuple(box)
        zz = np.indices(shape).astype(np.float64)
        ctr = [(s - 1) / 2 for s in shape]
        tmpl = sum(np.exp(-sum((zz[a] - ctr[a] - c[a]) ** 2 for a in range(3)) / 2.0) for c in rng.uniform(-1.5, 1.5, size=(3, 3))).astype(np.float32)
        worst, bad = 0.0, []
        trials = []
        for sgn in itertools.product((-1, 0, 1), repeat=3):
            d = [s * (mi + 0.6) for s, mi in zip(sgn, m)]
            trials.append(ndi.shift(tmpl, d, order=3, mode="constant").astype(np.float32))
        for _ in range(12):
            trials.append(rng.normal(size=shape).astype(np.float32))
        trials.append(np.ones(shape, dtype=np.float32))
        want_exc = cex.get("__exc__")
        for sub in trials:
            try:
                if kind == "zncc":
                    sh, sc = subpixel_zncc(sub, tmpl, tuple(m), xp)
                elif kind == "ncc":
                    sh, sc = subpixel_ncc(sub, tmpl, tuple(m), xp)
                elif kind == "pcc":
                    sh, sc = subpixel_pcc(sf.fftn(sub), sf.fftn(tmpl), 20, tuple(m), xp)
                else:
                    sh, sc = subpixel_fsc(sf.fftn(sub), sf.fftn(tmpl), tuple(m), xp)
            except Exception as e:
                if want_exc is None or type(e).__name__ == want_exc:
                    bad.append({"raised": repr(e)[:120]})
                continue
            sh = np.asarray(sh, dtype=np.float64)
            exc = float(np.max(np.abs(sh) - np.array(m)))
            worst = max(worst, exc)
            tol = 1e-5 * (1 + max(m))
            if exc > tol:
                bad.append({"shift": sh.tolist(), "exceeds_by": exc})
        return len(bad) > 0, {"model": kind, "max_shifts": m, "box": list(shape), "violations": bad[:4], "n_violations": len(bad),
                              "worst_excess": worst}

    return run


# ---------------------------------------------------------------------------------------
# section A: the refinement stage for every real max_shifts (unbounded), every coarse and refined peak


def sec_upsample(rec, coarse="int", patches=None):
    """coarse = 'int': landscape of 2*int(m)+1 entries (ZNCC/NCC);  'ceil': 2*ceil(m)+1 entries (FSC)"""
    L = _load(patches)
    UP = L["acryo.backend._upsample"]
    xp = _backend(L)
    rec.encodes("acryo/backend/_upsample.py:upsample", "acryo/backend/_upsample.py:_create_mesh")
    rec.assume("map_coordinates(res_ori, mesh) returns an array with the mesh's shape and data dependent values; argmax over it can be any in-range index")
    m = [real(f"m{a}") for a in range(3)]
    w = [integer(f"w{a}") for a in range(3)]  # pad_width_eff of the uncropped landscape (any non-negative integer)
    hyps = [x.e >= 0 for x in m] + [x.e >= 0 for x in w]
    names = {f"m{a}" for a in range(3)}
    tag = f"upsample[{coarse}]"
    rp = replay_model("zncc" if coarse == "int" else "fsc")

    def run():
        if coarse == "int":
            half = [Sym(z3.ToInt(x.e)) for x in m]
        else:
            half = [Sym(-z3.ToInt(-x.e)) for x in m]
        res = ShapeOnly(tuple(2 * h + 1 for h in half))
        res_ori = ShapeOnly(tuple(2 * h + 1 + 2 * ww for h, ww in zip(half, w)))
        return UP.upsample(res, res_ori, tuple(m), tuple(w), backend=xp)

    paths = explore(run, assumptions=hyps, max_paths=400)
    for pi, p in enumerate(paths):
        h = hyps + [p.condition()]
        if not p.ok:
            ok, det = rp({})
            rec.fact(f"{tag}/path{pi}/completes", False, key=f"C05/upsample[{coarse}]/raises", detail={"exc": repr(p.exc)[:200], **det}, reproduced=ok)
            continue
        shifts, corr = p.result
        for a in range(3):
            s = zr(shifts[a])
            rec.query(f"{tag}/path{pi}/|shift{a}|<=m", h, z3.And(s <= m[a].e, s >= -m[a].e), key=f"C05/shift-exceeds-range[mesh-{coarse}]",
                      names=names | {f"w{b}" for b in range(3)}, replay=rp, prefer=[[x.e <= 6 for x in m] + [x.e <= 3 for x in w]])
        for (lab, cond, npc, ndef) in p.obligations:
            if lab == "div0":
                rec.query(f"{tag}/path{pi}/{lab}", hyps + [p.cond_at(npc, ndef)], cond, key="C05/upsample/div0", names=names)


# ---------------------------------------------------------------------------------------
# section B-D: whole sub-pixel routines with data-blind arg-max, max_shifts symbolic on one axis


def _others(vals, axis, msym):
    out = list(vals)
    out.insert(axis, msym)
    return tuple(out)


def sec_model(rec, kind="zncc", box=(6, 6, 6), axis=0, others=(0.0, 1.3), patches=None):
    L = _load(patches)
    xp = _backend(L)
    Z, P, F = L["acryo.backend._zncc"], L["acryo.backend._pcc"], L["acryo.backend._fsc"]
    rec.encodes(*{
        "zncc": ["acryo/backend/_zncc.py:subpixel_zncc", "acryo/backend/_zncc.py:ncc_landscape", "acryo/backend/_zncc.py:ncc_landscape_no_pad",
                 "acryo/backend/_zncc.py:_get_padding_width", "acryo/backend/_zncc.py:fftconvolve", "acryo/backend/_zncc.py:_window_sum_3d", "acryo/backend/_upsample.py:upsample"],
        "ncc": ["acryo/backend/_zncc.py:subpixel_ncc", "acryo/backend/_zncc.py:ncc_landscape", "acryo/backend/_upsample.py:upsample"],
        "pcc": ["acryo/backend/_pcc.py:subpixel_pcc", "acryo/backend/_pcc.py:crop_by_max_shifts"],
        "fsc": ["acryo/backend/_fsc.py:subpixel_fsc", "acryo/backend/_fsc.py:fsc_landscape", "acryo/backend/_fsc.py:_get_phases", "acryo/backend/_upsample.py:upsample"],
    }[kind])
    if kind == "pcc":
        rec.assume("acryo's _upsampled_dft returns an array of shape (upsampled_region_size,)*3 with data dependent values (shape checked concretely each run)")
        P._upsampled_dft = stubs.like(P._upsampled_dft, lambda data, size, factor, offs, backend: ShapeOnly((size,) * data.ndim))
    msym = real(f"m{axis}")
    hi = 2 * box[axis]
    hyps = [msym.e >= 0, msym.e < hi]
    ms = _others(others, axis, msym)
    names = {f"m{axis}"}
    tag = f"{kind}[box={box},axis={axis},others={others}]"
    rp0 = replay_model(kind, box)

    def rp(cex, exc=None):
        c = {f"m{a}": (cex.get(f"m{a}") if a == axis else ms[a]) for a in range(3)}
        if exc:
            c["__exc__"] = exc
        return rp0(c)

    rng = np.random.default_rng(1)
    img0 = rng.normal(size=box).astype(np.float32)
    img1 = rng.normal(size=box).astype(np.float32)
    import scipy.fft as sf

    f0, f1 = sf.fftn(img0), sf.fftn(img1)

    def run():
        if kind == "zncc":
            return Z.subpixel_zncc(img0, img1, ms, xp)
        if kind == "ncc":
            return Z.subpixel_ncc(img0, img1, ms, xp)
        if kind == "pcc":
            return P.subpixel_pcc(f0, f1, 20, ms, xp)
        return F.subpixel_fsc(f0, f1, ms, xp)

    paths = explore(run, assumptions=hyps, max_paths=3000)
    n_ok = 0
    for pi, p in enumerate(paths):
        h = hyps + [p.condition()]
        if not p.ok:
            # which max_shifts lead here?  (satisfiable by construction of the path)
            en = type(p.exc).__name__
            v = rec.query(f"{tag}/path{pi}/completes-without-raising", h, z3.BoolVal(False), key=f"C05/raises[{kind}:{en}]", names=names,
                          replay=lambda cex, en=en: rp(cex, en), twin=False, info={"exc": repr(p.exc)[:200]})
            continue
        n_ok += 1
        shifts, score = p.result
        for a in range(3):
            # exact-real claim: float32/float64 constants (k/20 mesh offsets, literal max_shifts such as 0.7) are read as the fractions they stand for
            s = ratz(zr(shifts[a]))
            ma = ratz(zr(ms[a]))
            rec.query(f"{tag}/path{pi}/|shift{a}|<=m", h, z3.And(s <= ma, s >= -ma), key=f"C05/shift-exceeds-range[{kind}]", names=names, replay=rp)
    rec.extra[tag] = {"paths": len(paths), "completed": n_ok}


# ---------------------------------------------------------------------------------------
# section E: max_shifts normalisation


def sec_normalize(rec, patches=None):
    L = load.load(["acryo.loader._base"], patches=patches)
    LB = L["acryo.loader._base"]
    rec.encodes("acryo/loader/_base.py:_normalize_max_shifts")
    x = real("x")
    y = [real(f"y{a}") for a in range(3)]
    cases = {"scalar-real": x, "scalar-int": 2, "tuple": tuple(y), "list": list(y), "array": to_symarray(y)}
    for name, arg in cases.items():
        paths = explore(lambda: LB._normalize_max_shifts(arg))
        for pi, p in enumerate(paths):
            ok = p.ok and isinstance(p.result, tuple) and len(p.result) == 3
            rec.fact(f"normalize[{name}]/3-tuple", bool(ok), key="C05/normalize/shape", detail={"result": repr(p.result)[:100], "exc": repr(p.exc)})
            if not ok:
                continue
            want = [x] * 3 if name == "scalar-real" else [2, 2, 2] if name == "scalar-int" else y
            for a in range(3):
                rec.query(f"normalize[{name}]/component{a}", [], zr(p.result[a]) == zr(want[a]), key="C05/normalize/value", twin=False)
    for bad in ((1.0, 2.0), (1.0, 2.0, 3.0, 4.0)):
        paths = explore(lambda: LB._normalize_max_shifts(bad))
        rec.fact(f"normalize[len={len(bad)}]/rejected", all(isinstance(p.exc, ValueError) for p in paths), key="C05/normalize/rejects-wrong-length", detail={})


def sec_constant(rec, patches=None):
    """finite shift and score for constant / all-zero sub-volumes, all four models (run on the installed numerics: the
    question is whether 0/0 can occur, which the real floating-point code answers directly)"""
    from .c07 import sec_constant as _sc

    _sc(rec)


def sec_constant_symbolic(rec, kind="zncc", shape=(1, 2, 2), patches=None):
    """division safety, symbolically: the model is executed on a sub-volume whose voxels all equal a symbolic constant c (zeros included), with a symbolic
    template and mask; every division and square root met on the way must be well defined (divisor != 0, radicand >= 0) -- then shift and score are finite"""
    from . import c07

    L = c07._load(patches)
    CC = L["acryo.alignment._concrete"]
    xp = L.xp
    rec.encodes("acryo/alignment/_base.py:BaseAlignmentModel.align / landscape (constant sub-volume)", "acryo/alignment/_concrete.py:" + {"zncc": "ZNCCAlignment", "ncc": "NCCAlignment", "fsc": "FSCAlignment"}[kind],
                "acryo/backend/_zncc.py:ncc_landscape_no_pad (variance guard)", "acryo/backend/_fsc.py:fsc_landscape (zero-power guard)")
    rec.assume("exact reals: a float division x/0 or sqrt of a negative number is what makes a result non-finite; FFT stub exact (sides 1, 2)")
    Model = {"zncc": CC.ZNCCAlignment, "ncc": CC.NCCAlignment, "fsc": CC.FSCAlignment}[kind]
    t, mk = c07.img("t", shape), c07.img("m", shape)
    c = real("c")
    rp = c07.replay_constant(kind)
    for with_mask in (False, True):
        for what, ms in (("align", (0, 0, 0)), ("landscape", (0, 0, 0)), ("landscape", (0, 0, 1)), ("landscape", (0, 1, 1))):
            tag = f"constant-symbolic[{kind},{shape},mask={int(with_mask)}]/{what}{ms}"

            def run():
                a = c07.img("a", shape) * 0 + c
                m = Model(t, mk if with_mask else None)
                return getattr(m, what)(a, ms, backend=xp)

            paths = explore(run, max_paths=60)
            nob = 0
            for pi, p in enumerate(paths):
                if not p.ok:
                    rec.fact(f"{tag}/path{pi}/runs", False, key=f"C05/finite-score[{kind}]", detail={"exc": repr(p.exc)[:200]}, reproduced=rp({})[0])
                    continue
                for oi, (lab, cond, npc, ndef) in enumerate(p.obligations):
                    if lab in ("div0", "sqrt-domain"):
                        nob += 1
                        rec.query(f"{tag}/path{pi}/{lab}#{oi}", [p.cond_at(npc, ndef)], cond, key=f"C05/finite-score[{kind}]", replay=rp, twin=False, nonlinear=True, timeout_ms=20000)
                if what == "align":
                    for k in range(3):
                        rec.query(f"{tag}/path{pi}/shift{k}=0", [p.condition()], zr(p.result.shift[k]) == 0, key=f"C05/finite-score[{kind}]", replay=rp, twin=False)
            rec.extra[tag] = {"paths": len(paths), "divisions-and-roots": nob}


def sec_units(rec, patches=None):
    """every loader / loader-group entry point converts max_shifts (nm) with the scale of the loader the molecules belong to: executed by C01's units section"""
    from .c01 import sec_units as _su

    _su(rec, patches=patches)


def sec_conformance(rec):
    """_upsampled_dft output shape; BlindNP leaves everything but argmax untouched"""
    from acryo.backend._pcc import _upsampled_dft
    from acryo.backend import Backend
    import scipy.fft as sf

    x = sf.fftn(np.random.default_rng(0).normal(size=(5, 6, 7)))
    out = _upsampled_dft(x, 30, 20, np.array([1.0, 2.0, 3.0], dtype=np.float32), Backend())
    ok = out.shape == (30, 30, 30)
    rec.fact("conformance/_upsampled_dft shape", ok, key="C05/conformance/upsampled_dft", detail={"shape": list(out.shape)}, reproduced=None)
    if not ok:
        rec.error("conformance/_upsampled_dft", "shape contract changed")
    # translator validation: with the *real* argmax (SymNP instead of BlindNP) the loaded code equals the installed code
    from symx.npshim import SymNP
    import acryo.backend._zncc as RZ

    L = load.load(MODS, overrides={"np": SymNP(symbolic_float_arrays=False)})
    import scipy.fft as sfft
    from scipy import ndimage

    API = L["acryo.backend._api"]
    xpl = stubs.make_backend(API, API.np, ndimage, sfft)
    rng = np.random.default_rng(3)
    mism = 0
    for _ in range(5):
        a = rng.normal(size=(7, 6, 8)).astype(np.float32)
        b = rng.normal(size=(7, 6, 8)).astype(np.float32)
        ms = tuple(float(v) for v in rng.uniform(0, 3, size=3))
        r1 = RZ.subpixel_zncc(a, b, ms, Backend())
        p = explore(lambda: L["acryo.backend._zncc"].subpixel_zncc(a, b, ms, xpl))[0]
        if not p.ok or not np.allclose(np.asarray(r1[0], dtype=float), np.asarray(p.result[0], dtype=float), atol=1e-5):
            mism += 1
    rec.fact("translator/subpixel_zncc loaded-vs-installed (concrete)", mism == 0, key="C05/translator", detail={"mismatches": mism}, reproduced=None)
    if mism:
        rec.error("translator/subpixel_zncc", f"{mism} mismatches")


def sections(tier):
    S = [("conformance", "checks.c05", "sec_conformance", {}), ("normalize", "checks.c05", "sec_normalize", {}), ("constant-subvolume", "checks.c05", "sec_constant", {}),
         ("constant-symbolic-zncc", "checks.c05", "sec_constant_symbolic", {"kind": "zncc", "shape": (1, 2, 2)}),
         ("constant-symbolic-ncc", "checks.c05", "sec_constant_symbolic", {"kind": "ncc", "shape": (1, 1, 2)}),
         ("constant-symbolic-fsc", "checks.c05", "sec_constant_symbolic", {"kind": "fsc", "shape": (1, 2, 2)}), ("loader-units", "checks.c05", "sec_units", {}),
         ("upsample-int", "checks.c05", "sec_upsample", {"coarse": "int"}), ("upsample-ceil", "checks.c05", "sec_upsample", {"coarse": "ceil"})]
    boxes = [(4, 4, 4), (5, 6, 7)] if quick(tier) else [(4, 4, 4), (5, 6, 7), (8, 8, 8), (7, 4, 9)]
    oth = [(0.0, 1.3)] if quick(tier) else [(0.0, 1.3), (0.5, 0.0), (2.0, 0.7)]
    for kind in ("zncc", "ncc", "pcc", "fsc"):
        for box in boxes:
            for axis in range(3):
                for o in oth:
                    if kind == "fsc" and (box[0] * box[1] * box[2] > 250):
                        continue
                    S.append((f"{kind}-{box}-ax{axis}-{o}", "checks.c05", "sec_model", {"kind": kind, "box": box, "axis": axis, "others": o}))
    return S


_UP = "acryo.backend._upsample"
_Z = "acryo.backend._zncc"
_P = "acryo.backend._pcc"
MUTANTS = [
    ("mesh:revert-fix-round-lower", "checks.c05", "sec_upsample", {"coarse": "int"},
     {_UP: [("int(math.ceil(max(float(shiftl), -1.0) * UPSAMPLE))", "int(round(max(float(shiftl), -1.0) * UPSAMPLE))")]}),
    ("mesh:revert-fix-round-upper", "checks.c05", "sec_model", {"kind": "fsc", "box": (4, 4, 4), "axis": 2},
     {_UP: [("int(math.floor(min(float(shiftr), 1.0) * UPSAMPLE))", "int(round(min(float(shiftr), 1.0) * UPSAMPLE))")]}),
    ("pcc:refinement-window-not-clipped-left", "checks.c05", "sec_model", {"kind": "pcc", "box": (4, 4, 4), "axis": 0},
     {_P: [("        starts = [max(_dft_center - int(_l), 0) for _l in _lshift]", "        starts = [0 for _l in _lshift]")]}),
    ("pcc:refinement-offset-dropped", "checks.c05", "sec_model", {"kind": "pcc", "box": (4, 4, 4), "axis": 1},
     {_P: [("            + np.array(starts, dtype=np.float32)\n", "")]}),
    ("mesh:clip-against-wrong-bound", "checks.c05", "sec_upsample", {"coarse": "int"}, {_UP: [("    right = -shifts + _max_shifts", "    right = shifts + _max_shifts")]}),
    ("mesh:no-clipping", "checks.c05", "sec_upsample", {"coarse": "ceil"}, {_UP: [("    left = -shifts - _max_shifts", "    left = -shifts - _max_shifts - 1")]}),
    ("zncc:padding-too-small", "checks.c05", "sec_model", {"kind": "zncc", "box": (4, 4, 4), "axis": 1}, {_Z: [("        w_int = int(np.ceil(w + 3))", "        w_int = int(np.ceil(w))")]}),
    ("pcc:coarse-crop-too-wide", "checks.c05", "sec_model", {"kind": "pcc", "box": (5, 6, 7), "axis": 0},
     {_P: [("        slice(max(c - int(shiftl), 0), min(c + int(shiftr) + 1, s), None)  # type: ignore", "        slice(max(c - int(shiftl) - 1, 0), min(c + int(shiftr) + 1, s), None)  # type: ignore")]}),
]


def run(tier, procs=None, only=None):
    S = select(sections(tier), only)
    return harness.run_check(
        PID, tier, S, procs=procs,
        explanation="The real sub-pixel routines run with a numpy shim whose arg-max over data is an arbitrary in-range index (so every sub-volume, "
                    "including noise, is covered by quantifying over peak positions) and with opaque interpolation results. The refinement stage "
                    "(upsample/_create_mesh) is executed with max_shifts as unbounded non-negative reals and symbolic landscape sizes; the complete "
                    "routines are executed on concrete box sizes with max_shifts symbolic on one axis in [0, 2*box). z3 decides |shift_i| <= max_shifts_i "
                    "on every path; a path that ends in an exception is a violation of 'never fails'.",
        bounds={"refinement stage": "max_shifts any real >= 0 per axis, any coarse peak, any refined peak, any landscape padding",
                "whole routines": "boxes " + ("(4,4,4),(5,6,7)" if quick(tier) else "(4,4,4),(5,6,7),(8,8,8),(7,4,9)") + "; max_shifts symbolic in [0, 2*box) on one axis, the other two from a small concrete set",
                "models": ["ZNCC", "NCC", "PCC", "FSC"], "arithmetic": "exact reals (float32 rounding of the mesh not modelled; replay tolerance 1e-5*(1+m))"},
        trusted_base=TRUSTED + ["BlindNP: numpy with argmax over data replaced by an arbitrary in-range index", "NdiStub.map_coordinates: output has the shape of the coordinate mesh",
                                "real numpy/scipy.fft for the concrete landscape computation"],
        outside=["NaN/Inf produced inside compiled FFT/spline code for finite input", "finite-score claim (division safety is part of C07)", "float32 rounding of the mesh coordinates"],
        mutants=MUTANTS if (not quick(tier) and not only) else None,
    )


# every real-library oracle of this property (each returns (reproduced, detail)); used to confirm structural facts that carry no replay of their own
ALL_REPLAYS = [lambda c: replay_model('zncc')(c), lambda c: replay_model('ncc')(c), lambda c: replay_model('pcc')(c), lambda c: replay_model('fsc')(c)]


def replay(data):
    key = data.get("key", "")
    kind = "fsc" if "fsc" in key or "ceil" in key else "pcc" if "pcc" in key else "ncc" if "[ncc" in key else "zncc"
    ok, detail = replay_model(kind)(data.get("cex") or {})
    print("replay:", detail)
    print("REPRODUCED" if ok else "not reproduced")
    return 1 if ok else 0
