"""symx.angles -- angles carried algebraically as (cos, sin) pairs on the unit circle.

Transcendental functions never get a numeric model: an angle is a `SymAngle(c, s)` with the hypothesis
c*c + s*s = 1 supplied by whoever creates it; pi - a, -a, a + pi/2 ... are exact maps of the pair;
half angles use the double-angle identities.  `SymDeg` is an angle given in degrees: it additionally
carries a real `deg` so that range checks written on the degree value (min < max, |deg| <= 90) execute.
"""
from __future__ import annotations

import math
from fractions import Fraction

import numpy as np
import z3

from . import arrays as A
from .core import Sym, SymBool, Unsupported, cur, is_symbolic, lift, _coerce, _real, exact


class SymAngle:
    __array_ufunc__ = None
    _symx_passthrough = True

    def __init__(self, c, s):
        self.c = c if isinstance(c, Sym) else Sym(lift(exact(c)))
        self.s = s if isinstance(s, Sym) else Sym(lift(exact(s)))

    def __neg__(self):
        return SymAngle(self.c, -self.s)

    def __rsub__(self, o):
        if isinstance(o, PiMultiple):
            return o._minus(self)
        if isinstance(o, (int, float)) and o == 0:
            return -self
        raise Unsupported("number - angle")

    def __sub__(self, o):
        if isinstance(o, SymAngle):
            return SymAngle(self.c * o.c + self.s * o.s, self.s * o.c - self.c * o.s)
        if isinstance(o, PiMultiple):
            return (-(o._minus(self)))
        raise Unsupported("angle - number")

    def __add__(self, o):
        if isinstance(o, SymAngle):
            return SymAngle(self.c * o.c - self.s * o.s, self.s * o.c + self.c * o.s)
        if isinstance(o, PiMultiple):
            return o._plus(self)
        raise Unsupported("angle + number")

    __radd__ = __add__

    def __repr__(self):
        return f"SymAngle(cos={self.c}, sin={self.s})"


class PiMultiple(float):
    """the float pi (or k*pi/2) that also knows how to combine with a SymAngle"""

    def __new__(cls, quarter_turns=2):
        obj = float.__new__(cls, quarter_turns * math.pi / 2)
        obj.q = quarter_turns % 4
        return obj

    def _rot(self):
        return {0: (1, 0), 1: (0, 1), 2: (-1, 0), 3: (0, -1)}[self.q]

    def _minus(self, a: SymAngle):
        c0, s0 = self._rot()
        # cos(P - a) = cP ca + sP sa ; sin(P - a) = sP ca - cP sa
        return SymAngle(c0 * a.c + s0 * a.s, s0 * a.c - c0 * a.s)

    def _plus(self, a: SymAngle):
        c0, s0 = self._rot()
        return SymAngle(c0 * a.c - s0 * a.s, s0 * a.c + c0 * a.s)

    def __sub__(self, o):
        if isinstance(o, (SymAngle, SymDeg)):
            return self._minus(o.angle if isinstance(o, SymDeg) else o)
        return float(self) - o

    def __add__(self, o):
        if isinstance(o, SymAngle):
            return self._plus(o)
        return float(self) + o

    __radd__ = __add__


class SymDeg:
    """an angle in degrees: real degree value + its (cos, sin)"""

    __array_ufunc__ = None
    _symx_passthrough = True

    def __init__(self, deg: Sym, angle: SymAngle):
        self.deg = deg
        self.angle = angle

    def _cmp(self, o, f):
        od = o.deg if isinstance(o, SymDeg) else o
        return f(self.deg, od)

    def __lt__(self, o):
        return self._cmp(o, lambda a, b: a < b)

    def __le__(self, o):
        return self._cmp(o, lambda a, b: a <= b)

    def __gt__(self, o):
        return self._cmp(o, lambda a, b: a > b)

    def __ge__(self, o):
        return self._cmp(o, lambda a, b: a >= b)

    def __format__(self, spec):
        return f"<{self.deg}>"

    def __repr__(self):
        return f"SymDeg({self.deg})"

    __hash__ = object.__hash__


def make_tilt(stem):
    """a symbolic tilt angle in [-90, 90] degrees: returns (SymDeg, hypotheses)"""
    d = Sym(z3.Real(f"{stem}_deg"))
    c = Sym(z3.Real(f"{stem}_cos"))
    s = Sym(z3.Real(f"{stem}_sin"))
    hyp = [c.e * c.e + s.e * s.e == 1, c.e >= 0, d.e >= -90, d.e <= 90,
           # sign link between the degree value and its sine; end points
           z3.Implies(d.e > 0, s.e > 0), z3.Implies(d.e < 0, s.e < 0), z3.Implies(d.e == 0, s.e == 0),
           z3.Implies(d.e == 90, s.e == 1), z3.Implies(d.e == -90, s.e == -1), z3.Implies(s.e == 1, d.e == 90), z3.Implies(s.e == -1, d.e == -90)]
    return SymDeg(d, SymAngle(c, s)), hyp


def ordered(a: SymDeg, b: SymDeg):
    """hypotheses for a < b within [-90, 90]: sine is strictly increasing there"""
    return [z3.Implies(a.deg.e < b.deg.e, a.angle.s.e < b.angle.s.e), z3.Implies(a.deg.e >= b.deg.e, a.angle.s.e >= b.angle.s.e)]


def deg2rad(x):
    if isinstance(x, SymDeg):
        return x.angle
    if isinstance(x, (list, tuple)) and any(isinstance(v, SymDeg) for v in x):
        out = np.empty(len(x), dtype=object)
        for i, v in enumerate(x):
            out[i] = v.angle if isinstance(v, SymDeg) else deg2rad(v)
        return out
    return np.deg2rad(x)


def radians(x):
    if isinstance(x, SymDeg):
        return x.angle
    return math.radians(x)


def cos(x):
    if isinstance(x, SymAngle):
        return x.c
    if isinstance(x, np.ndarray) and x.dtype == object:
        return A.elementwise(cos, x)
    if is_symbolic(x):
        raise Unsupported("cos of a symbolic number (angles must be SymAngle)")
    return np.cos(x)


def sin(x):
    if isinstance(x, SymAngle):
        return x.s
    if isinstance(x, np.ndarray) and x.dtype == object:
        return A.elementwise(sin, x)
    if is_symbolic(x):
        raise Unsupported("sin of a symbolic number (angles must be SymAngle)")
    return np.sin(x)


TRIG_MODE = {"opaque": False}
_ATAN2 = z3.Function("Atan2", z3.RealSort(), z3.RealSort(), z3.RealSort())


def arctan2(y, x):
    """opaque mode: the uninterpreted term Atan2(y, x) (element-wise); otherwise unsupported"""
    if not TRIG_MODE["opaque"]:
        raise Unsupported("arctan2 of symbolic values")

    def one(a, b):
        if not (is_symbolic(a) or is_symbolic(b)):
            return math.atan2(float(a), float(b))
        return Sym(_ATAN2(_real(lift(_coerce(a))), _real(lift(_coerce(b)))))

    if isinstance(y, np.ndarray) or isinstance(x, np.ndarray):
        return A.elementwise(one, y, x)
    return one(y, x)


def quat_from_axis_angle_vector(v):
    return None


def rotation_from_euler(cls, seq, angles, degrees=False):
    """uninterpreted: a rotation with fresh unit quaternions, remembering (seq, angles, degrees);
    as_euler with the same seq/degrees returns exactly these angles (scipy's own inverse pair)."""
    ex = cur()
    ang = A.to_symarray(angles)
    single = ang.ndim == 1
    n = 1 if single else ang.shape[0]
    rows = []
    for i in range(n):
        q = [Sym(z3.Real(ex.fresh_name(f"eulerq{c}"))) for c in "xyzw"]
        ex.assume(sum((c.e * c.e for c in q), z3.RealVal(0)) == 1)
        rows.append(q)
    rot = cls(rows[0] if single else rows, normalize=False)
    rot._euler = (str(seq), ang.copy(), bool(degrees))
    return rot


def euler_of_rotation(rot, seq, degrees=False):
    tag = getattr(rot, "_euler", None)
    if tag is None or tag[0] != str(seq) or tag[2] != bool(degrees):
        raise Unsupported("as_euler of a rotation that was not built by from_euler with the same sequence (scipy numerics are not modelled)")
    return tag[1].copy()
