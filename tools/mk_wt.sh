#!/bin/sh
# (re)create scratch worktree /tmp/wt/<ID> at /repo HEAD and render the sub-agent prompt
ID="$1"; N="${2:-2}"
cd /repo && git worktree remove --force /tmp/wt/$ID 2>/dev/null; git worktree prune
git worktree add -q --detach /tmp/wt/$ID HEAD || exit 1
/venv/bin/python - "$ID" "$N" <<'PY'
import sys
p, n = sys.argv[1], sys.argv[2]
t=open('/tmp/seeded_out/prompt_template.txt').read()
prop=open(f'/tmp/seeded_out/{p}_property.txt').read()
out=t.replace('{WT}',f'/tmp/wt/{p}').replace('{PROPERTY}',prop).replace('{N}',n).replace('{OUT}','/tmp/seeded_out').replace('{PID}',p).replace('{{k}}','{k}')
open(f'/tmp/seeded_out/{p}_prompt.txt','w').write(out)
PY
echo "worktree /tmp/wt/$ID at $(git -C /tmp/wt/$ID rev-parse --short HEAD)"
