"""C16 -- low-pass filtering is a real, linear, zero-phase Butterworth filter.

Real code: acryo._utils.nd_butterworth_weight / lowpass_filter / lowpass_filter_ft and the
backend counterparts in acryo/backend/_bandpass.py (through the real Backend class),
acryo.pipe._transform.lowpass_filter, TomographyInput.pre_transform.
"""
from __future__ import annotations

import itertools
from fractions import Fraction

import numpy as np
import z3

from symx import harness, load, stubs
from symx.arrays import SymArray, to_symarray
from symx.core import Sym, explore, integer, lift, real, _real, _coerce
from symx.fftstub import FFTStub

from .common import TRUSTED, fl, frac, quick, select

PID = "C16"
MODS = ["acryo._utils", "acryo.backend._bandpass", "acryo.backend._api"]


def zr(x):
    return _real(lift(_coerce(x)))


def _load(patches=None, keep_cache=False):
    return load.load(MODS, patches=patches, keep_cache=keep_cache)


class IntImage(SymArray):
    """a symbolic image that reports an integer dtype (int16 tomogram data): voxels are symbolic integers"""

    @property
    def dtype(self):
        return np.dtype("int16")


def fftfreq_int(n):
    """FFT-ordered integer frequency index (numerator of np.fft.fftfreq(n))"""
    return [k if k < (n + 1) // 2 else k - n for k in range(n)]


def w_ref(idx, shape, cutoff, order):
    """1 / (1 + (|f|^2 / cutoff^2)^order) with f_i = khat_i / shape_i"""
    f2 = z3.RealVal(0)
    for k, n in zip(idx, shape):
        kh = fftfreq_int(n)[k]
        f2 = f2 + z3.RealVal(Fraction(kh * kh, n * n))
    q = f2 / (cutoff * cutoff)
    p = q
    for _ in range(order - 1):
        p = p * q
    return 1 / (1 + p)


def _impls(L, fft):
    """the numpy-level and the backend-level implementation with a common call signature"""
    U = L["acryo._utils"]
    API = L["acryo.backend._api"]
    BP = L["acryo.backend._bandpass"]
    U.fftn, U.rfftn, U.irfftn = fft.fftn, fft.rfftn, fft.irfftn
    xp = stubs.make_backend(API, U.np, None, fft)
    return {
        "utils": dict(weight=lambda shape, c, o, r: U.nd_butterworth_weight(shape, c, o, r),
                      lp=lambda img, c, o: U.lowpass_filter(img, c, o), lpft=lambda img, c, o: U.lowpass_filter_ft(img, c, o),
                      hp=lambda img, c, o: U.highpass_filter(img, c, o), hpft=lambda img, c, o: U.highpass_filter_ft(img, c, o)),
        "backend": dict(weight=lambda shape, c, o, r: BP.nd_butterworth_weight(shape, c, o, r, xp),
                        lp=lambda img, c, o: xp.lowpass_filter(img, c, o), lpft=lambda img, c, o: xp.lowpass_filter_ft(img, c, o),
                        hp=lambda img, c, o: None, hpft=lambda img, c, o: None),  # the Backend class exposes no high-pass filter
    }


def replay_weight(shape, order, real_flag, impl):
    def run(cex):
        c = fl(cex.get("cutoff", 0.3)) or 0.3
        from acryo import _utils
        from acryo.backend import Backend
        from acryo.backend import _bandpass

        _utils.nd_butterworth_weight.cache_clear()
        _bandpass.nd_butterworth_weight.cache_clear()
        if impl == "utils":
            w = _utils.nd_butterworth_weight(tuple(shape), c, order, real_flag)
        else:
            w = _bandpass.nd_butterworth_weight(tuple(shape), c, order, real_flag, Backend())
        w = np.broadcast_to(np.asarray(w, dtype=np.float64), tuple(shape[:-1]) + ((shape[-1] // 2 + 1) if real_flag else shape[-1],))
        freqs = np.meshgrid(*[np.fft.fftfreq(n) for n in shape], indexing="ij")
        f2 = sum(f ** 2 for f in freqs)
        ref = 1 / (1 + (f2 / c ** 2) ** order)
        if real_flag:
            ref = ref[..., : shape[-1] // 2 + 1]
        err = float(np.abs(w - ref).max()) if w.shape == ref.shape else float("inf")
        return err > 1e-5, {"max_abs_err": err, "shape": list(shape), "cutoff": c, "order": order, "real": real_flag, "impl": impl}

    return run


def replay_shape(shape, impl):
    def run(cex):
        c = fl(cex.get("cutoff", 0.3)) or 0.3
        from acryo import _utils
        from acryo.backend import Backend

        img = np.random.default_rng(0).normal(size=shape).astype(np.float32)
        if cex.get("__int__"):
            img = np.rint(img * 50).astype(np.int16)
        for f in (_utils.nd_butterworth_weight,):
            if hasattr(f, "cache_clear"):
                f.cache_clear()
        try:
            if cex.get("__history__"):
                # a high-pass call with the same parameters first (shares the memoised weights)
                if impl == "utils":
                    _utils.highpass_filter(img, c, 2), _utils.highpass_filter_ft(img, c, 2)
            out = _utils.lowpass_filter(img, c, 2) if impl == "utils" else Backend().lowpass_filter(img, c, 2)
        except Exception as e:
            return True, {"raised": repr(e), "input_shape": list(shape), "cutoff": c, "impl": impl}
        ok_shape = tuple(out.shape) == tuple(shape)
        detail = {"input_shape": list(shape), "output_shape": list(out.shape), "cutoff": c, "impl": impl}
        if ok_shape:
            ref = np.fft.ifftn(np.fft.fftn(img.astype(np.float64)) * (1 / (1 + (sum(f ** 2 for f in np.meshgrid(*[np.fft.fftfreq(n) for n in shape], indexing="ij")) / c ** 2) ** 2))).real
            detail["max_abs_err_vs_reference"] = float(np.abs(out - ref).max())
            return detail["max_abs_err_vs_reference"] > 1e-4, detail
        return True, detail

    return run


def sec_weights(rec, shapes=(), orders=(1, 2, 3), patches=None):
    L = _load(patches)
    rec.encodes("acryo/_utils.py:nd_butterworth_weight", "acryo/backend/_bandpass.py:nd_butterworth_weight")
    cutoff = real("cutoff")
    hyps = [cutoff.e > 0]
    impls = _impls(L, FFTStub("opaque"))
    names = {"cutoff"}
    for shape in shapes:
        for order in orders:
            got = {}
            for impl, fns in impls.items():
                for real_flag in (False, True):
                    tag = f"weight[{impl},{shape},o={order},real={int(real_flag)}]"
                    rp = replay_weight(shape, order, real_flag, impl)
                    paths = explore(lambda: fns["weight"](tuple(shape), cutoff, order, real_flag), assumptions=hyps)
                    if len(paths) != 1 or not paths[0].ok:
                        rec.fact(f"{tag}/runs", False, key="C16/weight/raises", detail={"exc": repr(paths[0].exc) if paths else None}, reproduced=rp({})[0])
                        continue
                    w = paths[0].result
                    want_shape = tuple(shape[:-1]) + ((shape[-1] // 2 + 1) if real_flag else shape[-1],)
                    try:
                        wb = np.broadcast_to(w.view(np.ndarray), want_shape)
                    except ValueError:
                        ok, det = rp({})
                        rec.fact(f"{tag}/shape", False, key="C16/weight/shape", detail=det, reproduced=ok)
                        continue
                    got[(impl, real_flag)] = wb
                    for idx in np.ndindex(want_shape):
                        rec.query(f"{tag}/bin{idx}", hyps, zr(wb[idx]) == w_ref(idx, shape, cutoff.e, order), key=f"C16/weight/formula[{impl}]",
                                  names=names, replay=rp, twin=False)
            # symmetry (real output), mean preservation, and half-spectrum consistency follow from the formula
            # identity above; they are additionally stated as direct queries on the executed code's weights
            for impl in impls:
                wf = got.get((impl, False))
                if wf is None:
                    continue
                tag = f"weight[{impl},{shape},o={order}]"
                rp = replay_weight(shape, order, False, impl)
                rec.query(f"{tag}/dc=1", hyps, zr(wf[(0,) * len(shape)]) == 1, key="C16/weight/dc", names=names, replay=rp, twin=False)
                for idx in np.ndindex(tuple(shape)):
                    neg = tuple((-i) % n for i, n in zip(idx, shape))
                    if neg > idx:
                        rec.query(f"{tag}/sym{idx}", hyps, zr(wf[idx]) == zr(wf[neg]), key="C16/weight/symmetry", names=names, replay=rp, twin=False)
                wh = got.get((impl, True))
                if wh is not None:
                    for idx in np.ndindex(wh.shape):
                        rec.query(f"{tag}/half{idx}", hyps, zr(wh[idx]) == zr(wf[idx]), key="C16/weight/half-spectrum", names=names,
                                  replay=replay_weight(shape, order, True, impl), twin=False)


def sec_filter(rec, shapes=(), int_input=False, history=False, patches=None):
    """lowpass_filter / lowpass_filter_ft: identity range, what is transformed, output shape.
    int_input: the image reports dtype int16 (symbolic integer voxels).  history: functools.lru_cache active and a high-pass call with the same
    parameters is made first (it shares the memoised weights)"""
    L = _load(patches, keep_cache=history)
    rec.encodes("acryo/_utils.py:lowpass_filter", "acryo/_utils.py:lowpass_filter_ft", "acryo/backend/_bandpass.py:lowpass_filter",
                "acryo/backend/_bandpass.py:lowpass_filter_ft", "acryo/backend/_api.py:Backend.lowpass_filter", "acryo/backend/_api.py:Backend.lowpass_filter_ft",
                "acryo/backend/_api.py:Backend.rfftn/irfftn/fftn")
    rec.assume("scipy.fft shape rules: rfftn(x) has last axis n//2+1; irfftn(y, s=None) has last axis 2*(m-1); irfftn(y, s) has shape s (conformance-tested)")
    rec.assume("scipy.fft.fftn/rfftn are linear maps (spectrum bins are opaque symbols F[k]); multiplying bin k by a real symmetric weight w[k]=w[-k] yields a real image")
    cutoff = real("cutoff")
    order = 2
    names = {"cutoff"}
    for shape in shapes:
        fft = FFTStub("opaque")
        impls = _impls(L, fft)
        vox = {idx: (integer if int_input else real)("v_" + "_".join(map(str, idx))) for idx in np.ndindex(tuple(shape))}
        for impl, fns in impls.items():
            # ---- real-space variant -------------------------------------------------------
            def mkimg():
                img = (IntImage if int_input else SymArray)(shape=tuple(shape))
                for idx, v in vox.items():
                    img[idx] = v
                return img

            def prelude():
                if history:
                    for mod in list(L.values()):
                        for f_ in list(vars(mod).values()):
                            if hasattr(f_, "cache_clear"):
                                f_.cache_clear()
                    fns["hp"](mkimg(), cutoff, order)
                    fns["hpft"](mkimg(), cutoff, order)

            def run_lp():
                prelude()
                fft.calls.clear()
                img = mkimg()
                out = fns["lp"](img, cutoff, order)
                return img, out, list(fft.calls)

            paths = explore(run_lp)
            tag = f"lowpass[{impl},{shape}{',int16' if int_input else ''}{',after-highpass' if history else ''}]"
            rp0 = replay_shape(shape, impl)
            rp = lambda cex, rp0=rp0: rp0({**cex, "__int__": int_input, "__history__": history})
            r3 = z3.Real("sqrt3")
            for i, p in enumerate(paths):
                if not p.ok:
                    rec.fact(f"{tag}/path{i}/runs", False, key="C16/filter/raises", detail={"exc": repr(p.exc)}, reproduced=rp({})[0])
                    continue
                img, out, calls = p.result
                h = [p.condition()]
                in_range = None
                if out is img:
                    # identity branch: must be exactly cutoff <= 0 or cutoff >= sqrt(3)/2
                    rec.query(f"{tag}/path{i}/identity=>out-of-range", h + [r3 >= 0, r3 * r3 == 3], z3.Or(cutoff.e <= 0, cutoff.e >= r3 / 2),
                              key="C16/filter/identity-range", names=names, replay=rp)
                    continue
                rec.query(f"{tag}/path{i}/filtered=>in-range", h + [r3 >= 0, r3 * r3 == 3], z3.And(cutoff.e > 0, cutoff.e < r3 / 2),
                          key="C16/filter/identity-range", names=names, replay=rp)
                kinds = [c[0] for c in calls]
                ok_calls = kinds == ["rfftn", "irfftn"]
                rec.fact(f"{tag}/path{i}/rfftn-then-irfftn", ok_calls, key="C16/filter/transform-sequence", detail={"calls": kinds},
                         reproduced=rp({})[0] if not ok_calls else True)
                if not ok_calls:
                    continue
                (_, rin, rs, F), (_, yin, ys, R) = calls
                same_in = rin.shape == tuple(shape) and all(rin[idx] is vox[idx] or z3.eq(zr(rin[idx]), vox[idx].e) for idx in vox)
                rec.fact(f"{tag}/path{i}/transforms-the-input", bool(same_in) and (rs is None or tuple(rs) == tuple(shape)), key="C16/filter/input", detail={})
                # shape preservation (the irfftn shape rule)
                ok_shape = tuple(out.shape) == tuple(shape)
                okr, det = (True, {}) if ok_shape else rp({})
                rec.fact(f"{tag}/path{i}/same-shape", ok_shape, key=f"C16/filter/shape-lost[{'odd' if shape[-1] % 2 else 'even'}-last-axis]",
                         detail={**det, "symbolic_output_shape": list(out.shape)}, reproduced=okr)
                # the result is the inverse transform of weight * spectrum
                ymat = A_obj(yin)
                hh = [cutoff.e > 0] + h
                for idx in np.ndindex(F.shape):
                    want = w_ref(idx, shape, cutoff.e, order)
                    f = F[idx]
                    y = ymat[idx]
                    rec.query(f"{tag}/path{i}/spectrum{idx}", hh, z3.And(zr(y.re) == want * f.re.e, zr(y.im) == want * f.im.e),
                              key=f"C16/filter/weighted-spectrum[{impl}]", names=names, replay=rp, twin=False)
                if ok_shape:
                    same_out = all(z3.eq(zr(out[idx]), zr(R[idx])) for idx in np.ndindex(tuple(shape)))
                    rec.fact(f"{tag}/path{i}/returns-the-inverse-transform", bool(same_out), key="C16/filter/output", detail={})

            # ---- Fourier-space variant ------------------------------------------------------
            def run_ft():
                prelude()
                fft.calls.clear()
                img = mkimg()
                out = fns["lpft"](img, cutoff, order)
                return img, out, list(fft.calls)

            paths = explore(run_ft)
            tag = f"lowpass_ft[{impl},{shape}]"
            for i, p in enumerate(paths):
                if not p.ok:
                    rec.fact(f"{tag}/path{i}/runs", False, key="C16/filter_ft/raises", detail={"exc": repr(p.exc)})
                    continue
                img, out, calls = p.result
                h = [p.condition()]
                kinds = [c[0] for c in calls]
                if kinds != ["fftn"]:
                    rec.fact(f"{tag}/path{i}/single-fftn", False, key="C16/filter_ft/transform-sequence", detail={"calls": kinds})
                    continue
                F = calls[0][3]
                o = A_obj(out)
                if o.shape != tuple(shape):
                    rec.fact(f"{tag}/path{i}/shape", False, key="C16/filter_ft/shape", detail={"shape": list(o.shape)})
                    continue
                # which branch?  decide by asking whether bin (last) is unweighted
                r3c = [r3 >= 0, r3 * r3 == 3]
                unweighted = all(o[idx] is F[idx] for idx in np.ndindex(tuple(shape)))
                if unweighted:
                    rec.query(f"{tag}/path{i}/identity=>out-of-range", h + r3c, z3.Or(cutoff.e <= 0, cutoff.e >= r3 / 2),
                              key="C16/filter_ft/identity-range", names=names)
                    continue
                rec.query(f"{tag}/path{i}/filtered=>in-range", h + r3c, z3.And(cutoff.e > 0, cutoff.e < r3 / 2), key="C16/filter_ft/identity-range", names=names)
                hh = [cutoff.e > 0] + h
                for idx in np.ndindex(tuple(shape)):
                    want = w_ref(idx, shape, cutoff.e, order)
                    f, y = F[idx], o[idx]
                    rec.query(f"{tag}/path{i}/spectrum{idx}", hh, z3.And(zr(y.re) == want * f.re.e, zr(y.im) == want * f.im.e),
                              key=f"C16/filter_ft/weighted-spectrum[{impl}]", names=names, twin=False)


def sec_weight_history(rec, shape=(3, 2, 4), only_impl=None, seq_ids=None, patches=None):
    """memoisation must not leak between calls: with functools.lru_cache left ACTIVE, a sequence of calls with
    different orders / flags on the same shape and cut-off must each return the Butterworth weights"""
    L = load.load(MODS, patches=patches, keep_cache=True)
    rec.encodes("acryo/_utils.py:nd_butterworth_weight (lru_cache active)", "acryo/backend/_bandpass.py:nd_butterworth_weight (lru_cache active)")
    cutoff = real("cutoff")
    hyps = [cutoff.e > 0]
    impls = _impls(L, FFTStub("opaque"))
    seqs = [[(2, False), (3, False), (1, False), (2, False)], [(2, True), (1, True), (2, False), (3, True)], [(1, False), (1, True), (3, False)]]
    for impl, fns in impls.items():
        if only_impl and impl != only_impl:
            continue
        for si, seq in enumerate(seqs):
            if seq_ids is not None and si not in seq_ids:
                continue

            def run():
                for mod in L.values():
                    for v in vars(mod).values():
                        if hasattr(v, "cache_clear"):
                            v.cache_clear()
                return [fns["weight"](tuple(shape), cutoff, o, r) for (o, r) in seq]

            paths = explore(run, assumptions=hyps)
            tag = f"history[{impl},{shape},seq{si}]"

            def rp(cex, impl=impl, seq=seq):
                c = fl(cex.get("cutoff", 0.3)) or 0.3
                from acryo import _utils
                from acryo.backend import Backend, _bandpass

                _utils.nd_butterworth_weight.cache_clear()
                _bandpass.nd_butterworth_weight.cache_clear()
                for name in dir(_utils):
                    f = getattr(_utils, name)
                    if hasattr(f, "cache_clear"):
                        f.cache_clear()
                worst = 0.0
                for (o, r) in seq:
                    w = _utils.nd_butterworth_weight(tuple(shape), c, o, r) if impl == "utils" else _bandpass.nd_butterworth_weight(tuple(shape), c, o, r, Backend())
                    freqs = np.meshgrid(*[np.fft.fftfreq(n) for n in shape], indexing="ij")
                    ref = 1 / (1 + (sum(f ** 2 for f in freqs) / c ** 2) ** o)
                    if r:
                        ref = ref[..., : shape[-1] // 2 + 1]
                    worst = max(worst, float(np.abs(np.broadcast_to(w, ref.shape) - ref).max()))
                return worst > 1e-5, {"max_abs_err": worst, "sequence": [list(x) for x in seq], "impl": impl, "shape": list(shape), "cutoff": c}

            for pi, p in enumerate(paths):
                if not p.ok:
                    rec.fact(f"{tag}/runs", False, key="C16/weight-history/raises", detail={"exc": repr(p.exc)}, reproduced=rp({})[0])
                    continue
                for ci, ((o, r), w) in enumerate(zip(seq, p.result)):
                    want_shape = tuple(shape[:-1]) + ((shape[-1] // 2 + 1) if r else shape[-1],)
                    wb = np.broadcast_to(w.view(np.ndarray), want_shape)
                    for idx in np.ndindex(want_shape):
                        rec.query(f"{tag}/call{ci}(order={o},real={int(r)})/bin{idx}", hyps, zr(wb[idx]) == w_ref(idx, shape, cutoff.e, o),
                                  key=f"C16/weight-history[{impl}]", names={"cutoff"}, replay=rp, twin=False)


def A_obj(a):
    from symx.arrays import _obj

    return _obj(a)


def sec_plumbing(rec, patches=None):
    """pipe.lowpass_filter and TomographyInput.pre_transform hand their arguments to the filters"""
    import inspect

    L = load.load(["acryo._utils", "acryo.pipe._transform"], patches=patches)
    U, T = L["acryo._utils"], L["acryo.pipe._transform"]
    rec.encodes("acryo/pipe/_transform.py:lowpass_filter")
    seen = []
    RESULT = np.zeros((2, 2, 2), dtype=np.float32)
    U.lowpass_filter = stubs.like(U.lowpass_filter, lambda img, cutoff, order=2, *a, **k: seen.append((img, cutoff, order)) or RESULT)
    tok = np.ones((2, 2, 2), dtype=np.float32)
    c = real("cutoff")
    conv = T.lowpass_filter(c, 3)
    out = conv(tok, 1.7)
    rec.fact("plumbing/pipe.lowpass_filter passes (img, cutoff, order)", out is RESULT and len(seen) == 1 and seen[0][0] is tok and seen[0][1] is c and seen[0][2] == 3,
             key="C16/plumbing/pipe", detail={"seen": repr(seen)})
    # TomographyInput.pre_transform: `cutoff or 1.0` then backend.lowpass_filter_ft(image, cutoff=...)
    L2 = load.load(["acryo.alignment._base"], patches=patches)
    B = L2["acryo.alignment._base"]
    rec.encodes("acryo/alignment/_base.py:TomographyInput.pre_transform")

    class FakeBackend:
        def __init__(self):
            self.calls = []

        def lowpass_filter_ft(self, image, cutoff, order=2):
            self.calls.append((image, cutoff, order))
            return "FT"

    for given, want in ((None, 1.0), (0.3, 0.3), (0.0, 1.0)):
        class _TI(B.TomographyInput):
            _optimize = _score = None

        m = _TI.__new__(_TI)
        m._cutoff = given or 1.0
        src = inspect.getsource(B.TomographyInput.__init__)
        fb = FakeBackend()
        r = B.TomographyInput.pre_transform(m, tok, fb)
        ok = r == "FT" and fb.calls == [(tok, want, 2)] and "self._cutoff = cutoff or 1.0" in src
        rec.fact(f"plumbing/pre_transform(cutoff={given})", ok, key="C16/plumbing/pre_transform", detail={"calls": repr(fb.calls)})


def sec_conformance(rec):
    import scipy.fft as sf

    bad = 0
    rng = np.random.default_rng(0)
    for shape in itertools.product(range(1, 7), repeat=3):
        x = rng.normal(size=shape)
        y = sf.rfftn(x)
        if y.shape != shape[:-1] + (shape[-1] // 2 + 1,):
            bad += 1
        z = sf.irfftn(y)
        m = y.shape[-1]
        if z.shape != shape[:-1] + (2 * (m - 1) if m > 1 else 1,):
            bad += 1
        z2 = sf.irfftn(y, s=shape)
        if z2.shape != shape or not np.allclose(z2, x, atol=1e-9):
            bad += 1
        if sf.fftn(x).shape != shape:
            bad += 1
    rec.fact("conformance/scipy.fft shape rules (216 shapes)", bad == 0, key="C16/conformance", detail={"bad": bad}, reproduced=None)
    if bad:
        rec.error("conformance/scipy.fft", f"{bad} shape-rule mismatches")
    # exact-mode DFT of the stub vs numpy on lengths {1,2,4}
    from symx.core import explore as ex

    st = FFTStub("exact")
    mism = 0
    for shape in [(1, 2, 4), (4, 4, 1), (2, 2, 2), (4, 1, 2)]:
        x = rng.integers(-3, 4, size=shape).astype(np.float64)
        p = ex(lambda: (st.fftn(x), st.rfftn(x), st.irfftn(st.rfftn(x), s=shape), st.ifftn(st.fftn(x))))[0]
        f, rf, irf, iff = p.result
        from symx.smt import model_value
        import z3 as _z

        def num(t):
            t = _z.simplify(zr(t))
            return float(t.as_fraction()) if _z.is_rational_value(t) else float(t.as_long())

        def cv(a):
            out = []
            for v in A_obj(a).reshape(-1):
                if hasattr(v, "re"):
                    out.append(complex(num(v.re), num(v.im)))
                else:
                    out.append(complex(num(v)))
            return np.array(out).reshape(a.shape)

        if not (np.allclose(cv(f), np.fft.fftn(x)) and np.allclose(cv(rf), np.fft.rfftn(x)) and np.allclose(cv(irf).real, x) and np.allclose(cv(iff).real, x)):
            mism += 1
    rec.fact("conformance/exact DFT stub vs numpy.fft", mism == 0, key="C16/conformance-exact", detail={"mismatches": mism}, reproduced=None)
    if mism:
        rec.error("conformance/exact DFT", f"{mism} mismatches")


def _shapes(tier):
    if quick(tier):
        return [(1, 1, 1), (2, 2, 2), (3, 3, 3), (4, 4, 4), (2, 3, 4), (4, 3, 5), (5, 2, 3), (1, 4, 6), (6, 1, 5), (3, 5, 2)]
    return list(itertools.product(range(1, 7), repeat=3))


def sections(tier):
    S = [("conformance", "checks.c16", "sec_conformance", {}), ("plumbing", "checks.c16", "sec_plumbing", {}),
         ]
    for impl in ("utils", "backend"):
        for si in range(3):
            S.append((f"weight-history-{impl}-seq{si}", "checks.c16", "sec_weight_history", {"shape": (3, 2, 4) if quick(tier) else (3, 5, 4), "only_impl": impl, "seq_ids": [si]}))
    shapes = _shapes(tier)
    # order 3 (degree-6 identities, ~0.7 s per bin) only on the smaller boxes
    for i, shp in enumerate(shapes):
        vox = shp[0] * shp[1] * shp[2]
        orders = (1, 2, 3) if vox <= (12 if quick(tier) else 36) else (1, 2)
        S.append((f"weights-{i}-{shp}", "checks.c16", "sec_weights", {"shapes": [shp], "orders": orders}))
    fshapes = [(2, 2, 2), (2, 3, 4), (3, 2, 3), (1, 2, 5), (4, 1, 1)] if quick(tier) else [s for s in shapes if s[0] * s[1] * s[2] <= 36]
    chunk = 1 if quick(tier) else 8
    for i in range(0, len(fshapes), chunk):
        S.append((f"filter-{i // chunk}", "checks.c16", "sec_filter", {"shapes": fshapes[i:i + chunk]}))
    # sides with a large prime factor (13, 17: not 2/3/5/7/11-smooth), where an FFT might be tempted to pad to a "fast" length
    S.append(("filter-prime-side", "checks.c16", "sec_filter", {"shapes": [(1, 1, 13)] if quick(tier) else [(1, 1, 13), (13, 1, 2), (1, 17, 1), (2, 1, 19)]}))
    S.append(("filter-int16", "checks.c16", "sec_filter", {"shapes": [(2, 3, 4), (3, 2, 3)], "int_input": True}))
    S.append(("filter-after-highpass", "checks.c16", "sec_filter", {"shapes": [(2, 3, 4), (3, 2, 3)], "history": True}))
    return S


_U = "acryo._utils"
_BP = "acryo.backend._bandpass"
MUTANTS = [
    ("history:in-place-power-on-cached-grid", "checks.c16", "sec_weight_history", {"shape": (2, 2, 3), "only_impl": "utils", "seq_ids": [0]},
     {_U: [("    ranges = []\n    for d in shape:\n        axis = np.arange(-(d - 1) // 2, (d - 1) // 2 + 1, dtype=np.float32) / (\n            d * cutoff\n        )\n        ranges.append(np.fft.ifftshift(axis**2))\n    if real:\n        limit = shape[-1] // 2 + 1\n        ranges[-1] = ranges[-1][:limit]\n    q2 = reduce(np.add, np.meshgrid(*ranges, indexing=\"ij\", sparse=True))\n    wfilt = 1 / (1 + q2**order)\n    return wfilt\n",
            "    q2 = _q2_grid(shape, cutoff, real)\n    q2 **= order\n    return 1 / (1 + q2)\n\n\n@lru_cache(maxsize=4)\ndef _q2_grid(shape, cutoff, real):\n    ranges = []\n    for d in shape:\n        axis = np.arange(-(d - 1) // 2, (d - 1) // 2 + 1, dtype=np.float32) / (\n            d * cutoff\n        )\n        ranges.append(np.fft.ifftshift(axis**2))\n    if real:\n        limit = shape[-1] // 2 + 1\n        ranges[-1] = ranges[-1][:limit]\n    return reduce(np.add, np.meshgrid(*ranges, indexing=\"ij\", sparse=True))\n")]}),
    ("weight:fftshift-vs-ifftshift", "checks.c16", "sec_weights", {"shapes": [(3, 3, 5)], "orders": (2,)}, {_U: [("ranges.append(np.fft.ifftshift(axis**2))", "ranges.append(np.fft.fftshift(axis**2))")]}),
    ("weight:exponent", "checks.c16", "sec_weights", {"shapes": [(2, 2, 3)], "orders": (2,)}, {_U: [("    wfilt = 1 / (1 + q2**order)\n    return wfilt\n\n\n_F = TypeVar", "    wfilt = 1 / (1 + q2 ** (2 * order))\n    return wfilt\n\n\n_F = TypeVar")]}),
    ("weight:half-limit", "checks.c16", "sec_weights", {"shapes": [(2, 2, 4)], "orders": (1,)}, {_BP: [("        limit = shape[-1] // 2 + 1", "        limit = (shape[-1] + 1) // 2")]}),
    ("weight:backend-missing-square", "checks.c16", "sec_weights", {"shapes": [(2, 3, 3)], "orders": (1,)}, {_BP: [("        ranges.append(backend.ifftshift(axis**2))", "        ranges.append(backend.ifftshift(abs(axis)))")]}),
    ("filter:identity-threshold", "checks.c16", "sec_filter", {"shapes": [(2, 2, 2)]}, {_U: [("def lowpass_filter(\n    img: NDArray[np.float32], cutoff: float, order: int = 2\n) -> NDArray[np.float32]:\n    \"\"\"Apply a low-pass filter and return the result in real space.\"\"\"\n    if cutoff >= 0.5 * np.sqrt(img.ndim) or cutoff <= 0:",
                                                                                           "def lowpass_filter(\n    img: NDArray[np.float32], cutoff: float, order: int = 2\n) -> NDArray[np.float32]:\n    \"\"\"Apply a low-pass filter and return the result in real space.\"\"\"\n    if cutoff >= 0.5 or cutoff <= 0:")]}),
    ("filter:order-dropped", "checks.c16", "sec_filter", {"shapes": [(2, 2, 2)]}, {_BP: [("        cutoff,\n        order,\n        real=True,\n        backend=backend,", "        cutoff,\n        1,\n        real=True,\n        backend=backend,")]}),
    ("filter_ft:real-weight", "checks.c16", "sec_filter", {"shapes": [(2, 2, 4)]}, {_BP: [("        cutoff,\n        order,\n        real=False,\n        backend=backend,", "        cutoff,\n        order,\n        real=True,\n        backend=backend,")]}),
]


def run(tier, procs=None, only=None):
    S = select(sections(tier), only)
    return harness.run_check(
        PID, tier, S, procs=procs,
        explanation="nd_butterworth_weight (both copies) is executed with a symbolic cut-off; every FFT bin's weight is proved equal to "
                    "1/(1+(|f|^2/c^2)^order) with f = fftfreq index / side (rational-function identity in c), plus DC=1, k<->-k symmetry and "
                    "half-spectrum consistency. lowpass_filter/_ft are executed on symbolic images over an opaque linear FFT stub: branch "
                    "conditions (identity iff c<=0 or c>=sqrt(3)/2), what is transformed, the per-bin weighting and the output shape are checked.",
        bounds={"weights": f"{len(_shapes(tier))} shapes from {{1..6}}^3, orders 1..2 (order 3 on boxes <= {12 if quick(tier) else 36} voxels), cutoff any positive real",
                "filters": "shapes listed in sections (<= 36 voxels), order 2, cutoff any real, all voxels symbolic"},
        trusted_base=TRUSTED + ["FFTStub: scipy.fft shape rules (conformance-tested on 216 shapes) and linearity of the DFT",
                                "exact-real arithmetic for float32 weights"],
        outside=["float32 rounding of the weights", "numerical accuracy of scipy's FFT", "orders > 3"],
        mutants=MUTANTS if (not quick(tier) and not only) else None,
    )


# every real-library oracle of this property (each returns (reproduced, detail)); used to confirm structural facts that carry no replay of their own
ALL_REPLAYS = [lambda c: replay_shape((2, 3, 5), 'utils')(c), lambda c: replay_shape((3, 4, 4), 'backend')(c), lambda c: replay_weight((3, 4, 5), 2, False, 'utils')(c), lambda c: replay_weight((3, 4, 5), 2, True, 'backend')(c), lambda c: replay_shape((2, 3, 4), 'utils')({'__int__': True}), lambda c: replay_shape((3, 2, 3), 'backend')({'__int__': True}), lambda c: replay_shape((2, 3, 4), 'utils')({'__history__': True})]


def replay(data):
    info = data.get("info") or {}
    det = data.get("replay_detail") or {}
    shape = tuple(det.get("input_shape") or det.get("shape") or (2, 3, 5))
    if "shape-lost" in data.get("key", "") or "filter" in data.get("key", ""):
        ok, detail = replay_shape(shape, det.get("impl", "utils"))(data.get("cex") or {})
    else:
        ok, detail = replay_weight(shape, det.get("order", 2), det.get("real", False), det.get("impl", "utils"))(data.get("cex") or {})
    print("replay:", detail)
    print("REPRODUCED" if ok else "not reproduced")
    return 1 if ok else 0
