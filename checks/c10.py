"""C10 -- results do not depend on scheduling; lazy arrays report the shape computing them yields.

(i)  declared = computed shapes: LoaderBase.construct_landscape's task_shape vs. the shape the real
     model.landscape() returns (ZNCC/NCC/PCC/FSC, with and without up-sampling), and
     SubtomogramLoader.construct_loading_tasks' declared shape vs. the affine_transform output shape.
(ii) the shared template cache (TemplateMaskCache) under arbitrary thread interleavings: see sec_cache.
"""
from __future__ import annotations

import itertools
from fractions import Fraction

import numpy as np
import z3

from symx import harness, load, rotation, stubs
from symx.arrays import SymArray, to_symarray, _obj
from symx.core import Sym, explore, integer, lift, real, _real, _coerce
from symx.npshim import SymNP
from symx.plshim import PlShim

from .common import TRUSTED, fl, frac, quick, select

PID = "C10"
MODS = ["acryo._utils", "acryo.backend._mesh", "acryo.backend._upsample", "acryo.backend._zncc", "acryo.backend._pcc", "acryo.backend._fsc",
        "acryo.backend._api", "acryo.alignment._base", "acryo.alignment._concrete"]


def zr(x):
    return _real(lift(_coerce(x)))


def zi(x):
    return lift(_coerce(x))


# ---------------------------------------------------------------------------------------


def replay_landscape(kind, upsample):
    def run(cex):
        from acryo import SubtomogramLoader, Molecules
        from acryo import alignment as al

        Model = {"zncc": al.ZNCCAlignment, "ncc": al.NCCAlignment, "pcc": al.PCCAlignment, "fsc": al.FSCAlignment}[kind]
        m = [max(fl(cex.get(f"m{a}", 1.3)) or 0.0, 0.0) for a in range(3)]
        rng = np.random.default_rng(0)
        tomo = rng.normal(size=(24, 24, 24)).astype(np.float32)
        tmpl = rng.normal(size=(6, 6, 6)).astype(np.float32)
        ld = SubtomogramLoader(tomo, Molecules([[12, 12, 12], [11, 12, 13]]), order=1, scale=1.0)
        arr = ld.construct_landscape(tmpl, max_shifts=tuple(m), alignment_model=Model, upsample=upsample)
        declared = tuple(arr.shape[1:])
        try:
            computed = tuple(np.asarray(arr[0].compute()).shape)
        except Exception as e:
            return True, {"model": kind, "max_shifts": m, "upsample": upsample, "declared": list(declared), "compute_raised": repr(e)[:200]}
        return declared != computed, {"model": kind, "max_shifts": m, "upsample": upsample, "declared": list(declared), "computed": list(computed)}

    return run


def _declared_runner(patches, model_factory):
    """returns run(m, upsample) -> dict(shape=declared task_shape, kw=..., func=..., replace=...) executing the real
    construct_landscape on a stand-in loader; the alignment model is whatever model_factory returns (the real one)"""
    L = load.load(["acryo.loader._misc", "acryo.loader._base"], overrides={"pl": PlShim(), "np": SymNP(symbolic_float_arrays=False)}, patches=patches)
    LB = L["acryo.loader._base"]
    captured = {}

    class Tasks:
        def tolist(self):
            return self

        def asarrays(self, shape, dtype):
            captured["shape"] = tuple(shape)
            return ["LAZY"]

    class Fake(LB.LoaderBase):
        molecules = None

        def construct_loading_tasks(self, *a, **k):
            raise NotImplementedError

        def replace(self, **kw):
            captured["replace"] = kw
            return self

        def iter_mapping_tasks(self, func, *a, **kw):
            captured["func"] = func
            captured["kw"] = kw
            return Tasks()

    class Mol:
        pos = to_symarray([[1.0, 2.0, 3.0]])

        def quaternion(self):
            return to_symarray([[0, 0, 0, 1]])

    ld = Fake.__new__(Fake)
    ld._scale = Fraction(1, 2)
    ld._order, ld._output_shape, ld._corner_safe = 1, (6, 6, 6), False
    Fake.molecules = Mol()
    ld.normalize_template = lambda t, allow_multiple=False: t
    ld.normalize_mask = lambda mk: mk
    LB.da = type("DA", (), {"stack": staticmethod(lambda arrs, axis=0: ("stack", arrs))})()

    def run(m, upsample):
        captured.clear()
        ld.construct_landscape("T", max_shifts=tuple(x * Fraction(1, 2) for x in m), alignment_model=lambda t, mk: model_factory(), upsample=upsample)
        return dict(captured)

    return run


def sec_landscape(rec, kind="zncc", upsample=1, axis=0, box=(6, 6, 6), patches=None):
    """declared (construct_landscape) vs computed (model.landscape) shape, max_shifts symbolic on one axis"""
    L = load.load(MODS, overrides={"np": SymNP(symbolic_float_arrays=False), "Rotation": rotation.SymRotation}, patches=patches)
    B, C, API = L["acryo.alignment._base"], L["acryo.alignment._concrete"], L["acryo.backend._api"]
    import scipy.fft as sfft

    xp = stubs.make_backend(API, API.np, stubs.HybridNdi(), sfft)
    B.Backend = lambda *a, **k: xp
    rec.encodes("acryo/loader/_base.py:LoaderBase.construct_landscape (task_shape)", "acryo/alignment/_base.py:BaseAlignmentModel.landscape",
                "acryo/alignment/_base.py:BaseAlignmentModel._landscape_single", "acryo/backend/_mesh.py:build_mesh",
                {"zncc": "acryo/backend/_zncc.py:zncc_landscape_with_crop", "ncc": "acryo/backend/_zncc.py:ncc_landscape_with_crop",
                 "pcc": "acryo/backend/_pcc.py:pcc_landscape", "fsc": "acryo/backend/_fsc.py:fsc_landscape"}[kind])
    rec.assume("map_coordinates(lds, mesh) returns an array with the shape of the coordinate mesh")
    Model = {"zncc": C.ZNCCAlignment, "ncc": C.NCCAlignment, "pcc": C.PCCAlignment, "fsc": C.FSCAlignment}[kind]
    msym = real(f"m{axis}")
    hyps = [msym.e >= 0, msym.e < box[axis]]
    others = [1.0, 0.5]
    m = list(others)
    m.insert(axis, msym)
    names = {f"m{axis}"}
    tag = f"landscape[{kind},up={upsample},axis={axis}]"
    rp0 = replay_landscape(kind, upsample)

    def rp(cex):
        return rp0({f"m{a}": (cex.get(f"m{a}") if a == axis else m[a]) for a in range(3)})

    rng = np.random.default_rng(0)
    tmpl = rng.normal(size=box).astype(np.float32)
    img = rng.normal(size=box).astype(np.float32)
    model = Model(tmpl)
    declare = _declared_runner(patches, lambda: model)

    def run():
        cap = declare(m, upsample)
        return cap, model.landscape(img, tuple(m), upsample=upsample, backend=xp)

    paths = explore(run, assumptions=hyps, max_paths=1500)
    for pi, p in enumerate(paths):
        h = hyps + [p.condition()]
        if not p.ok:
            en = type(p.exc).__name__
            rec.query(f"{tag}/path{pi}/landscape-completes", h, z3.BoolVal(False), key=f"C10/landscape/raises[{kind}:{en}]", names=names, replay=rp, twin=False,
                      info={"exc": repr(p.exc)[:200]})
            continue
        cap, lds = p.result
        declared = cap["shape"]
        passed = cap["kw"].get("max_shifts")
        ok_pass = passed is not None and all(z3.is_true(z3.simplify(zr(passed[a]) == zr(m[a]))) for a in range(3)) and cap["kw"].get("upsample") == upsample \
            and getattr(cap["func"], "__func__", cap["func"]) is getattr(model.landscape, "__func__", None) and cap["replace"].get("output_shape") == tuple(box)
        rec.fact(f"{tag}/path{pi}/landscape-gets-max_shifts/scale-and-upsample", bool(ok_pass), key="C10/landscape/plumbing", detail={"kw": repr(cap["kw"])[:200]})
        comp = tuple(lds.shape)
        if len(comp) != len(declared):
            ok, det = rp({})
            rec.fact(f"{tag}/path{pi}/ndim", False, key=f"C10/declared-shape[{kind},up={'>1' if upsample > 1 else 1}]", detail=det, reproduced=ok)
            continue
        for a in range(3):
            rec.query(f"{tag}/path{pi}/declared==computed-axis{a}", h, zi(declared[a]) == zi(comp[a]), key=f"C10/declared-shape[{kind},up={'>1' if upsample > 1 else 1}]",
                      names=names, replay=rp)


def sec_multi(rec, patches=None):
    """multi-template / rotation models: the declared leading axis is the number of candidates (niter)"""
    L = load.load(MODS + ["acryo._rotation"], overrides={"np": SymNP(symbolic_float_arrays=False)}, patches=patches)
    B, C, API = L["acryo.alignment._base"], L["acryo.alignment._concrete"], L["acryo.backend._api"]
    rng = np.random.default_rng(0)
    t = [rng.normal(size=(6, 6, 6)).astype(np.float32) for _ in range(2)]
    model = C.ZNCCAlignment(t, rotations=((10, 10), (0, 0), (0, 0)))
    declare = _declared_runner(patches, lambda: model)
    img = rng.normal(size=(6, 6, 6)).astype(np.float32)
    for up in (1, 2):
        p = explore(lambda: (declare([1.3, 1.0, 0.5], up), model.landscape(img, (1.3, 1.0, 0.5), upsample=up)))[0]
        if not p.ok:
            rec.error(f"multi[up={up}]", repr(p.exc))
            continue
        cap, lds = p.result
        rec.fact(f"multi[up={up}]/declared==computed (T=2, K=3)", tuple(cap["shape"]) == tuple(lds.shape) and lds.shape[0] == 6 == model.niter, key="C10/landscape/niter-axis",
                 detail={"declared": list(cap["shape"]), "computed": list(lds.shape)})


def sec_loading(rec, patches=None):
    """construct_loading_tasks declares the shape it asks affine_transform for"""
    from . import c02

    L = c02._load(patches)
    API = L["acryo.backend._api"]
    LD = L["acryo.loader._loader"]
    rec.encodes("acryo/loader/_loader.py:SubtomogramLoader.construct_loading_tasks (declared shape)", "acryo/_dask.py:DaskTaskList.asarrays")
    ndi = stubs.NdiStub()
    xp = stubs.make_backend(API, LD.np, ndi)
    shp = [integer(f"s{a}") for a in range(3)]
    size = [integer(f"n{a}") for a in range(3)]
    pos = [real(f"p{a}") for a in range(3)]
    hyps = [s.e >= 1 for s in shp] + [n.e >= 300 for n in size] + [z3.And(p.e >= 100, p.e <= _real(n.e) - 100) for p, n in zip(pos, size)] + [s.e <= 20 for s in shp]

    def run():
        ld = c02._make_loader(L, xp, stubs.ImgStub(size), [pos], rotation.SymRotation([[0, 0, 0, 1]]), 1, 1, shp, False)
        tasks = ld.construct_loading_tasks(backend=xp)
        return tasks[0], tasks[0].compute()

    for pi, p in enumerate(explore(run, assumptions=hyps)):
        if not p.ok:
            rec.error(f"loading/path{pi}", repr(p.exc))
            continue
        lazy, rec_ = p.result
        for a in range(3):
            rec.query(f"loading/path{pi}/declared==requested-axis{a}", hyps + [p.condition()], zi(lazy.shape[a]) == zi(rec_.output_shape[a]), key="C10/loading/declared-shape")


def replay_chunk_order(chunks):
    def run(cex):
        import dask.array as da
        from acryo import SubtomogramLoader, Molecules

        rng = np.random.default_rng(3)
        tomo = rng.normal(size=(36, 24, 24)).astype(np.float32)
        # molecules whose order with respect to the chunk grid contains swaps and 3-cycles
        z = [30, 5, 17, 29, 16, 4, 6, 31]
        pos = np.array([[zz, 8 + (i % 3) * 4, 15 - (i % 2) * 6] for i, zz in enumerate(z)], dtype=np.float32)
        mole = Molecules(pos)
        ref = SubtomogramLoader(tomo, mole, order=1, output_shape=(3, 3, 3)).asnumpy()
        bad = {}
        for ch in [chunks, (12, 24, 24), (12, 12, 24), (9, 24, 8), (36, 24, 24)]:
            ld = SubtomogramLoader(da.from_array(tomo, chunks=ch), mole, order=1, output_shape=(3, 3, 3))
            got = ld.asnumpy()
            if got.shape != ref.shape or not np.allclose(got, ref, atol=1e-5):
                bad[str(ch)] = [int(i) for i in np.flatnonzero(np.abs(got - ref).reshape(len(z), -1).max(axis=1) > 1e-5)] if got.shape == ref.shape else "shape"
        # rotated molecules at fractional positions, cubic interpolation: the sampling windows (box + margin) end on, before and after chunk borders
        from scipy.spatial.transform import Rotation

        zs = np.arange(7.0, 30.0, 0.5)
        pos2 = np.stack([zs, 11.3 + 0 * zs, 12.6 + 0 * zs], axis=1)
        mole2 = Molecules(pos2, Rotation.from_rotvec(np.tile([0.3, -0.2, 0.5], (len(zs), 1))))
        for order, box in ((3, (5, 5, 5)), (1, (4, 3, 5))):
            for cs in (False, True):
                ref2 = SubtomogramLoader(tomo, mole2, order=order, output_shape=box, corner_safe=cs).asnumpy()
                for ch in [(12, 24, 24), (9, 8, 24), (6, 24, 12)]:
                    got = SubtomogramLoader(da.from_array(tomo, chunks=ch), mole2, order=order, output_shape=box, corner_safe=cs).asnumpy()
                    if got.shape != ref2.shape or not np.allclose(got, ref2, atol=1e-4):
                        bad[f"rotated,order={order},box={box},corner_safe={cs},chunks={ch}"] = float(np.abs(got - ref2).max()) if got.shape == ref2.shape else "shape"
        return len(bad) > 0, {"chunkings-with-other-subtomograms-than-numpy-input": bad}

    return run


def sec_chunk_order(rec, chunks=((30, 30), (60,), (60,)), n=3, patches=None):
    """task k of construct_loading_tasks samples around molecule k whatever the chunk layout of the (lazy) tomogram"""
    from . import c02

    L = c02._load(patches)
    API = L["acryo.backend._api"]
    LD = L["acryo.loader._loader"]
    rec.encodes("acryo/loader/_loader.py:SubtomogramLoader.construct_loading_tasks (task k <-> molecule k on a chunked tomogram)")
    rec.assume("the tomogram is known by its shape and its dask chunk layout (ImgStub.chunks / numblocks / npartitions); its voxels are opaque")
    ndi = stubs.NdiStub()
    xp = stubs.make_backend(API, LD.np, ndi)
    size = tuple(sum(c) for c in chunks)
    P = [[real(f"p{k}_{i}") for i in range(3)] for k in range(n)]
    hyps = []
    for k in range(n):
        for i in range(3):
            hyps += [P[k][i].e >= 8, P[k][i].e <= size[i] - 8]
    shp = (3, 3, 3)
    tag = f"chunk-order[{'x'.join(str(len(c)) for c in chunks)} chunks,n={n}]"
    rp = replay_chunk_order(tuple(c[0] for c in chunks))

    def run():
        rot = rotation.SymRotation([[0, 0, 0, 1]] * n)
        ld = c02._make_loader(L, xp, stubs.ImgStub(size, chunks=chunks), P, rot, 1, 1, shp, False)
        tasks = ld.construct_loading_tasks(backend=xp)
        return stubs.compute_together(tasks)

    paths = explore(run, assumptions=hyps, max_paths=3000)
    o = [z3.Real(f"o{i}") for i in range(3)]
    for i, p in enumerate(paths):
        if not p.ok:
            rec.fact(f"{tag}/path{i}/runs", False, key="C10/chunk-order/raises", detail={"exc": repr(p.exc)[:200]}, reproduced=rp({})[0])
            continue
        h = hyps + [p.condition()]
        # every slice acryo takes of the (chunked) tomogram stays inside the array it is taken from: numpy/dask would silently clamp it and planes would be lost
        for (lab, cond, npc, ndef) in p.obligations:
            if lab == "slice-in-range":
                rec.query(f"{tag}/path{i}/slice-in-range", hyps + [p.cond_at(npc, ndef)], cond, key="C10/chunk-order/slice-clamped", replay=rp, twin=False)
        okn = len(p.result) == n
        rec.fact(f"{tag}/path{i}/n-tasks", okn, key="C10/chunk-order/task-count", detail={"n": len(p.result)}, reproduced=True if okn else rp({})[0])
        for k, r in enumerate(p.result[:n]):
            for a in range(3):
                if isinstance(r, stubs.ImgStub):
                    tomo = o[a] + _real(zi(r.origin[a]))
                elif isinstance(r, stubs.Sampled):
                    tomo = c02.zsum_row(r.matrix, a, o) + _real(zi(r.src.origin[a]))
                else:
                    rec.error(f"{tag}/path{i}", f"task {k} is {r!r}")
                    break
                want = P[k][a].e + (o[a] - Fraction(shp[a] - 1, 2))
                rec.query(f"{tag}/path{i}/task{k}-axis{a}", h, tomo == want, key="C10/chunk-order/molecule-k-task-k", replay=rp, twin=(k == 0 and a == 0))
    rec.extra[tag] = {"paths": len(paths)}


# ---------------------------------------------------------------------------------------
# (ii) the shared template cache under thread interleavings


def sec_cache(rec, n_threads=2, patches=None):
    from . import c10_cache

    c10_cache.run_section(rec, n_threads=n_threads, patches=patches)


def sec_race(rec, patches=None):
    """(iii) any other state that tasks share on the model: every method that assigns attributes of self, two tasks, all interleavings"""
    from . import c10_race

    c10_race.run_section(rec, patches=patches)


def sec_task_purity(rec, n_deg=3, patches=None):
    """(v) delayed tasks sharing a random generator: MockLoader's simulated tilt series under every execution order of its projection tasks"""
    from . import c10_tasks

    c10_tasks.run_section(rec, n_deg=n_deg, patches=patches)


def sec_shared_caches(rec, patches=None):
    """(vii) module-level memoised arrays (functools.lru_cache left active) are shared by every task, model and thread: results must not depend on which calls were made before --
    missing-wedge masks requested in different orders (executed by C08's cache-history section on a NON-cubic box) and Butterworth weights after other calls (C16's weight-history section)"""
    from .c08 import sec_history
    from .c16 import sec_weight_history

    sec_history(rec, patches=patches)
    sec_weight_history(rec, shape=(3, 2, 4), only_impl="utils", seq_ids=[0], patches=patches)


def replay_input_kind(cex):
    """installed library: an integer-typed tomogram given as numpy array and as dask array gives the same sub-tomograms, average and alignment"""
    import dask.array as da
    from acryo import SubtomogramLoader, Molecules
    from scipy.spatial.transform import Rotation

    rng = np.random.default_rng(1)
    bad = {}
    for dt in (np.int16, np.uint8, np.float32):
        tomo = (rng.normal(size=(30, 30, 30)) * 20 + 60).clip(0, 250).astype(dt)
        mole = Molecules(rng.uniform(9, 20, size=(4, 3)), Rotation.from_rotvec(rng.normal(size=(4, 3)) * 0.5))
        for order in (1, 3):
            a = SubtomogramLoader(tomo, mole, order=order, output_shape=(5, 5, 5)).asnumpy()
            b = SubtomogramLoader(da.from_array(tomo, chunks=(15, 30, 30)), mole, order=order, output_shape=(5, 5, 5)).asnumpy()
            if a.shape != b.shape or not np.allclose(a, b, atol=1e-4):
                bad[f"{np.dtype(dt).name},order={order}"] = float(np.abs(a.astype(float) - b.astype(float)).max())
    return len(bad) > 0, {"numpy_vs_dask_max_abs_difference": bad}


def sec_input_kind(rec, patches=None):
    """a tomogram given as in-memory array and as lazy array is interpolated in the same element type (so numpy and dask input agree, also for integer tomograms)"""
    from . import c02

    L = c02._load(patches)
    API = L["acryo.backend._api"]
    LD = L["acryo.loader._loader"]
    rec.encodes("acryo/loader/_loader.py:SubtomogramLoader.construct_loading_tasks (treatment of numpy vs dask input)")
    rec.assume("image stand-ins carry an element type; .astype() is tracked")
    xp = stubs.make_backend(API, LD.np, stubs.NdiStub())
    pos = [real(f"p{a}") for a in range(3)]
    hyps = [z3.And(p.e >= 100, p.e <= 200) for p in pos]
    for dt in (np.int16, np.float32, np.uint8):
        seen = {}
        for kind in ("numpy", "dask"):
            def run():
                im = stubs.ImgStub((300, 300, 300))
                im.dtype = np.dtype(dt)
                im.numpy_like = kind == "numpy"
                ld = c02._make_loader(L, xp, im, [pos], rotation.SymRotation([list(rotation.R30[9])]), 1, 1, (3, 3, 3), False)
                out = ld.construct_loading_tasks(backend=xp)[0].compute()
                return out

            for pth in explore(run, assumptions=hyps, max_paths=20):
                if not pth.ok:
                    rec.fact(f"input-kind[{np.dtype(dt).name},{kind}]/runs", False, key="C10/input-kind/raises", detail={"exc": repr(pth.exc)[:200]}, reproduced=replay_input_kind({})[0])
                    continue
                r = pth.result
                src = r.src if isinstance(r, stubs.Sampled) else r
                seen.setdefault(kind, set()).add(str(getattr(src, "dtype", None)))
        ok = seen.get("numpy") == seen.get("dask") and len(seen.get("numpy", ())) == 1
        rec.fact(f"input-kind[{np.dtype(dt).name}]/numpy-and-dask-input-interpolated-in-the-same-element-type", bool(ok), key="C10/input-kind/dtype-depends-on-the-container",
                 detail={k: sorted(v) for k, v in seen.items()}, reproduced=True if ok else replay_input_kind({})[0])


def sec_shared_buffers(rec, patches=None):
    """(viii) objects handed out by functools.lru_cache are process-wide: no task may write into them (AST scan + interleaving query, checks/c10_buffers.py)"""
    from . import c10_buffers

    c10_buffers.run_section(rec, patches=patches)


def sec_binning_chunks(rec, patches=None):
    """binning a dask tomogram does not depend on how it is chunked (executed by C15's real-dask section)"""
    from .c15 import sec_blocksum_dask

    sec_blocksum_dask(rec, shape=(5, 4, 7), b=2, patches=patches)


def sections(tier):
    S = [("multi", "checks.c10", "sec_multi", {}), ("loading", "checks.c10", "sec_loading", {}), ("shared-state-race", "checks.c10", "sec_race", {}),
         ("binning-chunks", "checks.c10", "sec_binning_chunks", {}), ("task-purity-mock", "checks.c10", "sec_task_purity", {"n_deg": 3}), ("shared-caches", "checks.c10", "sec_shared_caches", {}), ("input-kind", "checks.c10", "sec_input_kind", {}), ("shared-buffers", "checks.c10", "sec_shared_buffers", {}),
         ("chunk-order-2x1x1", "checks.c10", "sec_chunk_order", {"chunks": ((30, 30), (60,), (60,)), "n": 3}),
         ("chunk-order-3x1x1", "checks.c10", "sec_chunk_order", {"chunks": ((20, 20, 20), (60,), (60,)), "n": 3})]
    if not quick(tier):
        S.append(("task-purity-mock-4", "checks.c10", "sec_task_purity", {"n_deg": 4}))
        S.append(("chunk-order-3x2x1", "checks.c10", "sec_chunk_order", {"chunks": ((20, 20, 20), (30, 30), (60,)), "n": 3}))
        S.append(("chunk-order-2x1x2-n4", "checks.c10", "sec_chunk_order", {"chunks": ((30, 30), (60,), (25, 35)), "n": 4}))
    for kind in ("zncc", "ncc", "pcc", "fsc"):
        for up in (1, 2) if quick(tier) else (1, 2, 3, 5):
            for axis in (0, 2) if quick(tier) else (0, 1, 2):
                S.append((f"landscape-{kind}-up{up}-ax{axis}", "checks.c10", "sec_landscape", {"kind": kind, "upsample": up, "axis": axis}))
    for n in (2, 3):
        S.append((f"cache-{n}threads", "checks.c10", "sec_cache", {"n_threads": n}))
    return S


_LB = "acryo.loader._base"
_AB = "acryo.alignment._base"
_MEMO_OLD = """        mask = self._tilt_model.create_mask(
            Rotation.from_quat(quat),
            self.input_shape,  # type: ignore
        )
        return backend.asarray(mask)
"""
_MEMO_TWO_STORES = """        if getattr(self, "_wedge_quat", None) is not None and np.array_equal(self._wedge_quat, quat):
            return backend.asarray(self._wedge_mask)
        mask = self._tilt_model.create_mask(
            Rotation.from_quat(quat),
            self.input_shape,  # type: ignore
        )
        self._wedge_quat = np.array(quat)
        self._wedge_mask = backend.asarray(mask)
        return self._wedge_mask
"""
_MEMO_ATOMIC = """        cached = self.__dict__.get("_wedge")
        if cached is not None and np.array_equal(cached[0], quat):
            return backend.asarray(cached[1])
        mask = self._tilt_model.create_mask(
            Rotation.from_quat(quat),
            self.input_shape,  # type: ignore
        )
        self._wedge = (np.array(quat), mask)
        return backend.asarray(mask)
"""
_LD = "acryo.loader._loader"
_MK = "acryo.loader._mock"
MUTANTS = [
    ("task-purity:noise-drawn-inside-the-projection-tasks-from-a-shared-generator (seeded change C10_6)", "checks.c10", "sec_task_purity", {"n_deg": 3},
     {_MK: [("                radon_single(img, mtx, order=3, output_shape=output_shape),\n", "                _noisy(radon_single(img, mtx, order=3, output_shape=output_shape), _rng, noise),\n"),
            ("    matrices, output_shape = normalize_radon_input(img.shape, central_axis, degrees)\n", "    matrices, output_shape = normalize_radon_input(img.shape, central_axis, degrees)\n    _rng = np.random.default_rng(seed=seed)\n"),
            ("    sino += rng.normal(0, noise, sino.shape).astype(np.float32)\n", ""),
            ("# Radon transform\n", "@delayed\ndef _noisy(proj, rng, noise):\n    return proj + rng.normal(0, noise, proj.shape).astype(np.float32)\n\n")]}),
    ("chunk-order:tasks-sorted-by-first-axis-chunk-and-not-put-back (seeded change C10_5)", "checks.c10", "sec_chunk_order", {"chunks": ((20, 20, 20), (60,), (60,)), "n": 3},
     {_LD: [("        for i in range(self.molecules.count()):\n            try:\n                subvol, mtx = _prep(",
             "        _o = list(range(self.molecules.count()))\n        if getattr(image, 'npartitions', 1) > 1:\n            _o = np.argsort(np.searchsorted(np.cumsum(image.chunks[0])[:-1], self.molecules.pos[:, 0] / scale, side='right'), kind='stable').tolist()\n        for i in _o:\n            try:\n                subvol, mtx = _prep(")]}),
    ("race:wedge-mask-memoised-in-two-attributes (seeded changes C10_1 / C10_4)", "checks.c10", "sec_race", {}, {_AB: [(_MEMO_OLD, _MEMO_TWO_STORES)]}),
    ("cache:revert-snapshot-fix", "checks.c10", "sec_cache", {"n_threads": 2}, {_AB: [("next(iter(list(self._dict.values())), None)", "next(iter(self._dict.values()), None)")]}),
    ("cache:check-then-act-on-keys", "checks.c10", "sec_cache", {"n_threads": 2}, {_AB: [("next(iter(list(self._dict.values())), None)", "next(iter(self._dict.items()), (None, None))[1]")]}),
    ("shape:revert-declared-formula", "checks.c10", "sec_landscape", {"kind": "zncc", "upsample": 1, "axis": 0},
     {_LB: [("""            task_shape = model.landscape(
                _probe, _max_shifts_px, upsample=upsample
            ).shape
""", """            task_shape = tuple(2 * np.ceil(_max_shifts_px).astype(np.int32) + 1)
""")]}),
    ("shape:probe-ignores-upsample", "checks.c10", "sec_landscape", {"kind": "ncc", "upsample": 2, "axis": 2}, {_LB: [("                _probe, _max_shifts_px, upsample=upsample\n", "                _probe, _max_shifts_px\n")]}),
    ("shape:mesh-width-ceil", "checks.c10", "sec_landscape", {"kind": "fsc", "upsample": 2, "axis": 0},
     {"acryo.backend._mesh": [("upsampled_max_shifts = (np.asarray(max_shifts) * upsample).astype(np.int32)", "upsampled_max_shifts = np.ceil(np.asarray(max_shifts) * upsample).astype(np.int32)")],
      _LB: [("                _probe, _max_shifts_px, upsample=upsample\n", "                _probe, tuple(np.floor(np.asarray(_max_shifts_px) * upsample) / upsample), upsample=upsample\n")]}),
]


def run(tier, procs=None, only=None):
    S = select(sections(tier), only)
    return harness.run_check(
        PID, tier, S, procs=procs,
        explanation="(i) The shape that construct_landscape declares to dask (real code run on stand-ins, max_shifts symbolic) is compared by z3 with the shape "
                    "the real model.landscape() returns for ZNCC/NCC/PCC/FSC with and without up-sampling (real landscape code on a concrete 6^3 box, max_shifts symbolic "
                    "on one axis, map_coordinates on a symbolic mesh opaque). (ii) TemplateMaskCache.get/set are translated from their CPython bytecode into per-thread "
                    "steps over a shared dict model; the schedule is a z3 variable; no thread may raise and every thread must obtain the stored (template, mask).",
        bounds={"declared shapes": "box 6^3, max_shifts symbolic in [0, 6) on one axis (others 1.0, 0.5), upsample in " + ("{1,2}" if quick(tier) else "{1,2,3,5}"),
                "chunk-order": "60^3 tomogram split into 2 or 3 chunks on the first axis (thorough: also 3x2x1 and 2x1x2 with 4 molecules), 3 molecules at symbolic positions",
                "task-purity": "simulate_noise on a 3x3x2 opaque image, 3 tilt angles (thorough: 4), all evaluation orders of the sibling projection tasks",
                "cache": "2 and 3 threads, one get() each after construction, context switch allowed between any two bytecodes"},
        trusted_base=TRUSTED + ["HybridNdi (map_coordinates on a symbolic mesh -> array of the mesh's shape)", "real numpy/scipy for the concrete landscape",
                                "CPython dict semantics as modelled in checks/c10_cache.py (iteration raises RuntimeError if the dict changed size)"],
        outside=["equality of results across dask schedulers and worker counts (dask's execution semantics, not encoded); the chunk layout of the tomogram is covered "
                 "only where acryo's own code reads it (task k <-> molecule k, binning), not dask's block arithmetic",
                 "Backend._default races with a second backend installed (cupy absent)"],
        mutants=MUTANTS if (not quick(tier) and not only) else None,
    )


# every real-library oracle of this property (each returns (reproduced, detail)); used to confirm structural facts that carry no replay of their own
ALL_REPLAYS = [lambda c: replay_landscape('zncc', 1)(c), lambda c: replay_landscape('pcc', 2)(c), lambda c: replay_chunk_order((18, 24, 24))(c), replay_input_kind]


def replay(data):
    key = data.get("key", "")
    if "task-purity" in key:
        from .c10_tasks import replay_mock_noise

        ok, detail = replay_mock_noise(data.get("cex") or {})
        print("replay:", detail)
        print("REPRODUCED" if ok else "not reproduced")
        return 1 if ok else 0
    if "shared-buffer" in key:
        from .c10_buffers import replay_threads

        ok, detail = replay_threads(data.get("cex") or {})
        print("replay:", detail)
        print("REPRODUCED" if ok else "not reproduced")
        return 1 if ok else 0
    if "input-kind" in key:
        ok, detail = replay_input_kind(data.get("cex") or {})
        print("replay:", detail)
        print("REPRODUCED" if ok else "not reproduced")
        return 1 if ok else 0
    if "chunk-order" in key:
        ok, detail = replay_chunk_order((18, 24, 24))(data.get("cex") or {})
        print("replay:", detail)
        print("REPRODUCED" if ok else "not reproduced")
        return 1 if ok else 0
    kind = next((k for k in ("zncc", "ncc", "pcc", "fsc") if f"[{k}" in key), "zncc")
    up = 2 if ">1" in key else 1
    ok, detail = replay_landscape(kind, up)(data.get("cex") or {})
    print("replay:", detail)
    print("REPRODUCED" if ok else "not reproduced")
    return 1 if ok else 0
