"""C01 -- alignment moves each molecule onto the true particle pose.

Decided here: for every alignment result (shift s, rotation q, score) a model can return, the molecules written back
by the loader are the pose that makes the loader's own sampling grid equal the grid that the model's fit transform
resamples:  position p + scale * R_m s,  orientation R_m R_q;  nm/px conversions;  feature columns.
Real code: LoaderBase.align (conversion lines), _post_align, _post_align_multi_templates, LoaderGroup.align;
Molecules.linear_transform / translate_internal / translate / rotate_by_rotvec_internal / rotate_by_rotvec / rotate_by /
x / y / cross;  AlignmentResult.affine_matrix, compose_matrices;  _misc.allocate, get_feature_list.
"""
from __future__ import annotations

import itertools
from fractions import Fraction

import numpy as np
import z3

from symx import harness, load, rotation, stubs, smt
from symx.arrays import SymArray, to_symarray, _obj
from symx.core import Sym, explore, integer, lift, real, _real, _coerce
from symx.plshim import PlShim

from .common import TRUSTED, fl, frac, quick, select

PID = "C01"
MODS = ["acryo._utils", "acryo._rotation", "acryo.backend._api", "acryo.molecules._rotation", "acryo.molecules.core",
        "acryo.alignment._base", "acryo.loader._misc", "acryo.loader._group", "acryo.loader._base", "acryo.loader._loader"]


def zr(x):
    return _real(lift(_coerce(x)))


def _load(patches=None):
    stubs.patch_dask_from_delayed()
    return load.load(MODS, overrides={"Rotation": rotation.SymRotation, "da": stubs.DaStub(), "pl": PlShim()}, patches=patches)


# ---------------------------------------------------------------------------------------
# replay: a synthetic tomogram with an asymmetric particle at a known pose


def replay_pose(kind="single"):
    def run(cex):
        from acryo import SubtomogramLoader, Molecules, TomogramSimulator
        from acryo.alignment import ZNCCAlignment
        from scipy.spatial.transform import Rotation
        from acryo.molecules import from_euler_xyz_coords

        rng = np.random.default_rng(8)
        size = 21
        zz, yy, xx = np.indices((size,) * 3) - size // 2
        tmpl = np.zeros((size,) * 3, dtype=np.float32)
        for _ in range(6):
            c = rng.uniform(-5, 5, size=3)
            tmpl += np.exp(-((zz - c[0]) ** 2 + (yy - c[1]) ** 2 + (xx - c[2]) ** 2) / 4.0).astype(np.float32)
        scale = 0.5
        worst = 0.0
        cases = []
        for seed in range(3):
            r = np.random.default_rng(seed)
            p_true = (np.array([32.0, 33.0, 31.0]) + r.uniform(-0.5, 0.5, 3)) * scale
            R_true = Rotation.from_rotvec(r.normal(size=3) * 0.6)
            sim = TomogramSimulator(order=3, scale=scale)
            sim.add_molecules(Molecules([p_true], Rotation.from_quat(R_true.as_quat()[None])), tmpl)
            tomo = sim.simulate((64, 66, 62))
            # input molecule: the true pose perturbed by a searched rotation (30 deg about the molecule z axis) and a shift in the molecule frame
            ang = [30.0, -30.0, 30.0][seed]
            q = from_euler_xyz_coords(np.array([ang, 0.0, 0.0]), "zyx", degrees=True)
            shift_internal = np.array([[1.5, -2.0, 1.0], [-2.0, 1.0, 1.5], [2.0, 2.0, -1.5]][seed])
            # true = input moved by (shift s, rotation q):  p* = p + R_in s,  R* = R_in R_q   =>  R_in = R* R_q^-1, p = p* - R_in s
            R_in = R_true * q.inv()
            p_in = p_true - R_in.apply(shift_internal) * scale
            feats = {"g": [0]} if kind == "group" else None
            ld = SubtomogramLoader(tomo, Molecules([p_in], Rotation.from_quat(R_in.as_quat()[None]), features=feats), order=3, scale=scale)
            rots = ((30, 30), (0, 0), (0, 0))
            if kind == "multi":
                out = ld.align_multi_templates([tmpl, tmpl[::-1].copy()], max_shifts=3.0 * scale, rotations=rots)
            elif kind == "group":
                out = next(iter(ld.groupby("g").align(tmpl, max_shifts=3.0 * scale, rotations=rots)))[1]
            else:
                out = ld.align(tmpl, max_shifts=3.0 * scale, rotations=rots)
            perr = float(np.abs(out.molecules.pos[0] - p_true).max()) / scale
            rerr = float((out.molecules.rotator[0] * R_true.inv()).magnitude())
            worst = max(worst, perr)
            cases.append({"position_error_px": perr, "rotation_error_rad": rerr, "reported_shift": [float(v) for v in out.features.select(["align-dz", "align-dy", "align-dx"]).row(0)]})
        return worst > 0.35, {"entry": kind, "scale": scale, "max_position_error_px": worst, "cases": cases}

    return run


# ---------------------------------------------------------------------------------------


def _make_loader(L, pos, rot, scale, feats=None):
    LD = L["acryo.loader._loader"]
    MC = L["acryo.molecules.core"]
    mol = MC.Molecules(to_symarray(pos), rot, features=feats)
    ld = LD.SubtomogramLoader.__new__(LD.SubtomogramLoader)
    ld._image = stubs.ImgStub((200, 200, 200))
    ld._molecules = mol
    ld._order, ld._scale, ld._output_shape, ld._corner_safe = 1, scale, (5, 5, 5), False
    return ld


def sec_pose(rec, quats=(), shape=(5, 5, 5), entry="single", patches=None):
    """entry: single (_post_align), multi (_post_align_multi_templates), group (LoaderGroup.align)"""
    L = _load(patches)
    B = L["acryo.alignment._base"]
    G = L["acryo.loader._group"]
    rec.encodes("acryo/loader/_base.py:LoaderBase._post_align", "acryo/loader/_base.py:LoaderBase._post_align_multi_templates", "acryo/loader/_group.py:LoaderGroup.align",
                "acryo/molecules/core.py:Molecules.linear_transform", "acryo/molecules/core.py:Molecules.translate_internal", "acryo/molecules/core.py:Molecules.translate",
                "acryo/molecules/core.py:Molecules.rotate_by_rotvec_internal", "acryo/molecules/core.py:Molecules.rotate_by_rotvec", "acryo/molecules/core.py:Molecules.rotate_by",
                "acryo/molecules/core.py:Molecules.x/y", "acryo/molecules/core.py:cross", "acryo/alignment/_base.py:AlignmentResult.affine_matrix",
                "acryo/_utils.py:compose_matrices", "acryo/loader/_misc.py:allocate", "acryo/loader/_misc.py:get_feature_list")
    rec.assume("SymRotation: quaternion algebra of scipy Rotation; as_rotvec() of q is a fresh vector v with from_rotvec(M v) = (M q_vec, q_w) for orthogonal M (obligations checked)")
    rec.assume("C02 sampling rule: voxel o of molecule (p, R) reads tomogram coordinate p/scale + R (o - (shape-1)/2)")
    N = 2
    scale = real("scale")
    P = [[real(f"p{i}{a}") for a in range(3)] for i in range(N)]
    S = [[real(f"s{i}{a}") for a in range(3)] for i in range(N)]
    Q = [[real(f"q{i}{c}") for c in "xyzw"] for i in range(N)]
    SC = [real(f"score{i}") for i in range(N)]
    hyps = [scale.e > 0] + [sum((c.e * c.e for c in q), z3.RealVal(0)) == 1 for q in Q]
    names = {"scale"} | {f"p{i}{a}" for i in range(N) for a in range(3)} | {f"s{i}{a}" for i in range(N) for a in range(3)} | {f"q{i}{c}" for i in range(N) for c in "xyzw"}
    rp = replay_pose(entry)
    o = [z3.Real(f"o{a}") for a in range(3)]
    ctr = [Fraction(s - 1, 2) for s in shape]
    for qi, (qa, qb) in enumerate(quats):
        tag = f"pose[{entry},Rm=({[str(x) for x in qa]},{[str(x) for x in qb]})]"

        def run():
            rot = rotation.SymRotation([list(qa), list(qb)])
            feats = {"g": [0, 0]} if entry == "group" else None
            ld = _make_loader(L, P, rot, scale, feats)
            results = [B.AlignmentResult(0, to_symarray(S[i]), to_symarray(Q[i]), SC[i]) for i in range(N)]
            if entry == "single":
                new = ld._post_align(results, shape)
            elif entry == "multi":
                new = ld._post_align_multi_templates(results, shape, -1, "labels")
            else:
                grp = G.LoaderGroup([("k", ld)])
                ld.normalize_template = lambda t, allow_multiple=False: t
                ld.normalize_mask = lambda mk: mk

                class Tasks:
                    def _as_dask_list(self):
                        return self

                class Model:
                    input_shape = tuple(shape)
                    align = None

                ld.construct_mapping_tasks = lambda *a, **k: Tasks()
                G.compute = lambda all_tasks: [results]
                out = grp.align("T", alignment_model=lambda t, mk: Model())
                new = list(out)[0][1]
            mfit = [r.affine_matrix(shape) for r in results]
            return ld, new, mfit

        paths = explore(run, assumptions=hyps, max_paths=50)
        for pi, p in enumerate(paths):
            if not p.ok:
                ok, det = rp({})
                rec.fact(f"{tag}/path{pi}/runs", False, key=f"C01/{entry}/raises", detail={"exc": repr(p.exc)[:300], **det}, reproduced=ok)
                continue
            ld, new, mfit = p.result
            h = hyps + [p.condition()]
            # rotation-vector obligations of the SymRotation contract
            for (lab, cond, npc, ndef) in p.obligations:
                if lab.startswith("rotvec"):
                    rec.query(f"{tag}/path{pi}/{lab}", hyps + [p.cond_at(npc, ndef)], cond, key=f"C01/stub-obligation/{lab}", names=names, twin=False)
            mol = new.molecules
            Rm_all = rotation.SymRotation([list(qa), list(qb)]).as_matrix()
            Rn_all = mol.rotator.as_matrix()
            for i in range(N):
                Rm, Rn = Rm_all[i], Rn_all[i]
                M = mfit[i]
                # sampling grid of the written-back pose == sampling grid of the input pose composed with the fit transform
                for a in range(3):
                    lhs = zr(mol.pos[i, a]) / scale.e + sum((zr(Rn[a, b]) * (o[b] - ctr[b]) for b in range(3)), z3.RealVal(0))
                    mo = [sum((zr(M[b, c]) * o[c] for c in range(3)), z3.RealVal(0)) + zr(M[b, 3]) for b in range(3)]
                    rhs = P[i][a].e / scale.e + sum((zr(Rm[a, b]) * (mo[b] - ctr[b]) for b in range(3)), z3.RealVal(0))
                    # split into the translational part (o = centre) and the linear part (per basis direction) to keep queries small
                    sub0 = [(o[b], z3.RealVal(ctr[b])) for b in range(3)]
                    rec.query(f"{tag}/path{pi}/mol{i}/grid-origin-axis{a}", h, z3.substitute(lhs, *sub0) == z3.substitute(rhs, *sub0),
                              key=f"C01/{entry}/position", names=names, replay=rp, nonlinear=True, timeout_ms=60000)
                    for d in range(3):
                        sub1 = [(o[b], z3.RealVal(ctr[b] + (1 if b == d else 0))) for b in range(3)]
                        rec.query(f"{tag}/path{pi}/mol{i}/grid-axis{a}-dir{d}", h,
                                  z3.substitute(lhs, *sub1) - z3.substitute(lhs, *sub0) == z3.substitute(rhs, *sub1) - z3.substitute(rhs, *sub0),
                                  key=f"C01/{entry}/orientation", names=names, replay=rp, nonlinear=True, timeout_ms=60000)
                # closed form (independent of affine_matrix): p' = p + scale R_m s
                for a in range(3):
                    want = P[i][a].e + scale.e * sum((zr(Rm[a, b]) * S[i][b].e for b in range(3)), z3.RealVal(0))
                    rec.query(f"{tag}/path{pi}/mol{i}/pos{a}=p+scale*Rm*s", h, zr(mol.pos[i, a]) == want, key=f"C01/{entry}/position", names=names, replay=rp,
                              nonlinear=True, timeout_ms=60000)
            # the input loader is untouched
            same = all(z3.eq(zr(ld.molecules.pos[i, a]), P[i][a].e) for i in range(N) for a in range(3))
            rec.fact(f"{tag}/path{pi}/input-molecules-untouched", same, key=f"C01/{entry}/mutates-input", detail={})
            # features describe the same pose change
            f = mol.features
            for i in range(N):
                rec.query(f"{tag}/path{pi}/mol{i}/score-feature", h, zr(f["score"][i]) == SC[i].e, key=f"C01/{entry}/features", names=names, twin=False)
                for a, col in enumerate(("align-dz", "align-dy", "align-dx")):
                    v = zr(f[col][i])
                    t = S[i][a].e * scale.e
                    rec.query(f"{tag}/path{pi}/mol{i}/{col}=round(s*scale,2)", h, z3.And(v - t <= z3.RealVal("1/200"), t - v <= z3.RealVal("1/200")),
                              key=f"C01/{entry}/features", names=names, nonlinear=True)
            rec.fact(f"{tag}/path{pi}/output-shape", tuple(new.output_shape) == tuple(shape), key=f"C01/{entry}/output-shape", detail={})


def replay_units(cex):
    with load.real_modules():
        return _replay_units(cex)


def _replay_units(cex):
    """installed library: max_shifts in nm bounds the displacement written back, for every loader entry point, scales != 1 and groups of loaders with different scales"""
    from acryo import SubtomogramLoader, Molecules
    from acryo.loader._group import LoaderGroup
    from acryo.alignment import ZNCCAlignment
    from scipy import ndimage as ndi

    rng = np.random.default_rng(3)
    size = 9
    zz = np.indices((size,) * 3).astype(float)
    tmpl = sum(np.exp(-sum((zz[a] - c[a]) ** 2 for a in range(3)) / 2.0) for c in rng.uniform(2.5, 5.5, size=(4, 3))).astype(np.float32)
    tmpl2 = tmpl[::-1].copy()
    bad = []

    def tomo(offs):
        vol = rng.normal(size=(40, 40, 40)).astype(np.float32) * 0.01
        for c, d in zip(((12, 12, 12), (26, 26, 26)), offs):
            z, y, x = (int(v) - size // 2 for v in c)
            vol[z:z + size, y:y + size, x:x + size] += ndi.shift(tmpl, d, order=1)
        return vol

    offs = [(3, -3, 3), (-3, 3, -3)]  # pixels: larger than max_shifts/scale below
    msh = 1.0  # nm
    for scales in ((0.5,), (2.0,), (0.5, 2.0), (2.0, 0.5)):
        loaders = []
        for sc in scales:
            mol = Molecules(np.array([[12, 12, 12], [26, 26, 26]], dtype=np.float32) * sc)
            loaders.append(SubtomogramLoader(tomo(offs), mol, order=1, scale=sc, output_shape=(size,) * 3))
        runs = {}
        if len(scales) == 1:
            ld = loaders[0]
            runs["align"] = lambda: [ld.align(tmpl, max_shifts=msh, alignment_model=ZNCCAlignment)]
            runs["align(list of templates)"] = lambda: [ld.align([tmpl, tmpl2], max_shifts=msh, alignment_model=ZNCCAlignment)]
            runs["align_multi_templates"] = lambda: [ld.align_multi_templates([tmpl, tmpl2], max_shifts=msh, alignment_model=ZNCCAlignment)]
            runs["align_no_template"] = lambda: [ld.align_no_template(max_shifts=msh, alignment_model=ZNCCAlignment)]
        else:
            grp = LoaderGroup([(i, l) for i, l in enumerate(loaders)])
            runs["group.align"] = lambda: [l for _, l in grp.align(tmpl, max_shifts=msh, alignment_model=ZNCCAlignment)]
            runs["group.align_multi_templates"] = lambda: [l for _, l in grp.align_multi_templates({i: [tmpl, tmpl2] for i in range(len(loaders))}, max_shifts=msh, alignment_model=ZNCCAlignment)]
        for name, fn in runs.items():
            try:
                outs = fn()
            except Exception as e:
                bad.append({"entry": name, "scales": list(scales), "raised": repr(e)[:150]})
                continue
            for l0, l1 in zip(loaders, outs):
                d = np.abs(np.asarray(l1.molecules.pos, dtype=float) - np.asarray(l0.molecules.pos, dtype=float)).max()
                if d > msh * 1.001 + 1e-6:  # identity orientations: the bound applies per axis
                    bad.append({"entry": name, "scales": list(scales), "scale": l0.scale, "max_shifts_nm": msh, "moved_nm": float(d)})
    # a scalar max_shifts (nm) must be accepted by every entry point and every model (the range is 'valid')
    from acryo.alignment import PCCAlignment, FSCAlignment

    ld = SubtomogramLoader(tomo(offs), Molecules(np.array([[12, 12, 12], [26, 26, 26]], dtype=np.float32) * 0.5), order=1, scale=0.5, output_shape=(size,) * 3)
    for M in (ZNCCAlignment, PCCAlignment, FSCAlignment):
        entries = {"align": lambda: ld.align(tmpl, max_shifts=1.0, alignment_model=M), "align_multi_templates": lambda: ld.align_multi_templates([tmpl, tmpl2], max_shifts=1.0, alignment_model=M),
                   "align_no_template": lambda: ld.align_no_template(max_shifts=1.0, alignment_model=M), "group.align": lambda: LoaderGroup([(0, ld)]).align(tmpl, max_shifts=1.0, alignment_model=M),
                   "group.align_multi_templates": lambda: LoaderGroup([(0, ld)]).align_multi_templates([tmpl, tmpl2], max_shifts=1.0, alignment_model=M),
                   "group.align_no_template": lambda: LoaderGroup([(0, ld)]).align_no_template(max_shifts=1.0, alignment_model=M)}
        for name, fn in entries.items():
            try:
                fn()
            except Exception as e:
                bad.append({"entry": name, "model": M.__name__, "max_shifts": "scalar 1.0", "raised": repr(e)[:120]})
    return len(bad) > 0, {"n": len(bad), "examples": bad[:4]}


def sec_units(rec, patches=None):
    """every loader entry point hands max_shifts/scale, pos/scale and the molecule quaternions to the model -- with the scale of the loader the molecules belong to"""
    L = _load(patches)
    B = L["acryo.alignment._base"]
    G = L["acryo.loader._group"]
    rec.encodes("acryo/loader/_base.py:LoaderBase.align (unit conversion, routing to align_multi_templates)", "acryo/loader/_base.py:LoaderBase.align_multi_templates (unit conversion)",
                "acryo/loader/_base.py:LoaderBase.align_no_template (unit conversion)", "acryo/loader/_group.py:LoaderGroup.align (unit conversion)",
                "acryo/loader/_group.py:LoaderGroup.align_multi_templates (unit conversion)", "acryo/loader/_group.py:LoaderGroup.align_no_template (unit conversion)", "acryo/loader/_base.py:_normalize_max_shifts")
    scales = [real("scale"), real("scale2")]
    m = [real(f"m{a}") for a in range(3)]
    P = [[real(f"p{i}{a}") for a in range(3)] for i in range(2)]
    hyps = [s_.e > 0 for s_ in scales]
    qa, qb = rotation.R30[9], rotation.R30[10]
    for entry in ("align", "align-scalar", "align-list", "multi", "multi-scalar", "no-template", "no-template-scalar", "group", "group-scalar", "group-multi", "group-multi-scalar", "group-no-template",
                  "group-no-template-scalar"):
        scalar = entry.endswith("-scalar")
        base = entry[: -len("-scalar")] if scalar and entry != "align-scalar" else entry
        marg = m[0] if scalar else tuple(m)
        caps = []
        hetero = entry == "align-list"

        class Model:
            input_shape = (5, 5, 5)
            has_hetero_templates = hetero
            has_rotation = False
            template = ["T", "T"]

            def align(self, *a, **k):
                raise AssertionError("not executed")

        model = Model()
        nld = 2 if entry.startswith("group") else 1

        def run():
            del caps[:]
            lds = []
            for k in range(nld):
                ld = _make_loader(L, P, rotation.SymRotation([list(qa), list(qb)]), scales[k], {"g": [0, 0]} if entry.startswith("group") else None)
                ld.normalize_template = lambda t, allow_multiple=False: t
                ld.normalize_mask = lambda mk: mk

                class Tasks:
                    def compute(self):
                        return []

                    def _as_dask_list(self):
                        return self

                def cmt(func, *a, _k=k, **kw):
                    caps.append((_k, func, kw))
                    return Tasks()

                ld.construct_mapping_tasks = cmt
                ld._post_align = lambda *a, **k: ("POST",)
                ld._post_align_multi_templates = lambda *a, **k: ("POSTM",)
                ld.average = lambda *a, **k: "AVG"
                lds.append(ld)
            ld = lds[0]
            fac = lambda *a, **k: model  # noqa: E731
            if base == "align":
                ld.align("T", max_shifts=tuple(m), alignment_model=fac)
            elif base == "align-scalar":
                ld.align("T", max_shifts=m[0], alignment_model=fac)
            elif base == "align-list":
                ld.align(["T", "T"], max_shifts=tuple(m), alignment_model=fac)
            elif base == "multi":
                ld.align_multi_templates(["T", "T"], max_shifts=marg, alignment_model=fac)
            elif base == "no-template":
                ld.align_no_template(max_shifts=marg, alignment_model=fac)
            else:
                G.compute = lambda all_tasks: [[] for _ in all_tasks]
                grp = G.LoaderGroup([(f"k{k}", l_) for k, l_ in enumerate(lds)])
                if base == "group":
                    grp.align("T", max_shifts=marg, alignment_model=fac)
                elif base == "group-multi":
                    grp.align_multi_templates({f"k{k}": ["T", "T"] for k in range(nld)}, max_shifts=marg, alignment_model=fac)
                else:
                    grp.average = lambda *a, **k: {f"k{k}": "AVG" for k in range(nld)}
                    grp.align_no_template(max_shifts=marg, alignment_model=fac)
            return list(caps)

        with L.installed():  # call-time imports inside the loaders must resolve to the loaded modules
            paths_ = explore(run, assumptions=hyps)
        for pi, p in enumerate(paths_):
            if not p.ok:
                ok, det = replay_units({})
                rec.fact(f"units[{entry}]/runs", False, key="C01/units/raises", detail={"exc": repr(p.exc)[:300], **det}, reproduced=ok)
                continue
            got = p.result
            h = hyps + [p.condition()]
            okn = len(got) == nld and sorted(k for k, _, _ in got) == list(range(nld))
            rec.fact(f"units[{entry}]/one-mapping-per-loader", okn, key="C01/units/plumbing", detail={"n": len(got)}, reproduced=True if okn else replay_units({})[0])
            if not okn:
                continue
            for k, func, kw in got:
                sc = scales[k]
                ms = kw.get("max_shifts")
                okf = getattr(func, "__func__", None) is Model.align and kw.get("output_shape") == (5, 5, 5) and ms is not None and np.ndim(ms) == 1 and len(ms) == 3
                rec.fact(f"units[{entry}]/loader{k}/model.align-mapped-with-input-shape,max_shifts-is-a-3-sequence", bool(okf), key="C01/units/max_shifts-3-tuple" if (ms is None or np.ndim(ms) != 1) else "C01/units/plumbing",
                         detail={"kw": repr(kw)[:200]}, reproduced=True if okf else replay_units({})[0])
                if not okf:
                    continue
                for a in range(3):
                    want = (m[0] if scalar else m[a]).e / sc.e
                    rec.query(f"units[{entry}]/loader{k}/max_shifts{a}-in-pixels-of-this-loader", h, zr(ms[a]) == want, key="C01/units/max_shifts", names={"scale", "scale2"} | {f"m{b}" for b in range(3)}, replay=replay_units,
                              nonlinear=True)
                vk = kw.get("var_kwarg") or {}
                pos, quat = vk.get("pos"), vk.get("quaternion")
                for i in range(2):
                    for a in range(3):
                        rec.query(f"units[{entry}]/loader{k}/pos{i}{a}-in-pixels", h, zr(pos[i, a]) == P[i][a].e / sc.e, key="C01/units/pos", nonlinear=True)
                okq = all(Fraction(_coerce(quat[i, c])) == Fraction((qa, qb)[i][c]) for i in range(2) for c in range(4))
                rec.fact(f"units[{entry}]/loader{k}/quaternion-of-molecule-k", okq, key="C01/units/quaternion", detail={})


def sec_sampling_rule(rec, patches=None):
    """the sub-volume handed to the model is the tomogram sampled on the molecule's grid, also when the crop window crosses a face of the tomogram (executed by C02's sampling section)"""
    from .c02 import sec_sampling

    sec_sampling(rec, order=1, corner_safe=False, patches=patches)


def sec_rotation_candidates(rec, patches=None):
    """the rotation written back is the searched rotation of the best candidate, and the candidate templates are the template turned about the box centre (odd and even boxes):
    executed by C06's ordering and decode sections (T = 2, K = 2; a single non-identity rotation)"""
    from .c06 import sec_ordering, sec_decode

    sec_ordering(rec, T=2, K=2, patches=patches)
    sec_ordering(rec, T=1, K=1, nonid=True, patches=patches)
    sec_decode(rec, T=2, K=2, patches=patches)


def sec_batch_order(rec, patches=None):
    """batch loaders: the alignment task of molecule i is cut from the tomogram molecule i was registered with, whatever the order of the image ids (executed by C03's batch section)"""
    from .c03 import sec_batch

    sec_batch(rec, ids=(1, 0), patches=patches)
    sec_batch(rec, ids=(0, 1, 0, 1), patches=patches)


def sec_displacement_kernels(rec, patches=None):
    """the shift that is written back is the displacement the correlation landscapes stand for: landscape entry <-> lag for PCC on odd boxes (fftshift / crop index arithmetic) and
    for the padded NCC landscape on symbolic voxels (executed by C04's pcc-index and semantics sections)"""
    from .c04 import sec_pcc_index, sec_semantics, sec_pcc_decode

    sec_pcc_decode(rec, box=(5, 4, 6), axis=0, others=(0.0, 1.25), patches=patches)
    sec_pcc_index(rec, box=(5, 4, 7), axis=0, patches=patches)
    sec_pcc_index(rec, box=(5, 4, 7), axis=2, patches=patches)
    sec_semantics(rec, kind="ncc", shape=(1, 1, 3), axis=2, mhi=2, patches=patches)


def sections(tier):
    R = rotation.R30
    pairs = [(R[9], R[10]), (R[0], R[12]), (R[1], R[4])] if quick(tier) else [(R[i], R[(i * 7 + 3) % 30]) for i in range(30)]
    S = [("units", "checks.c01", "sec_units", {}), ("sampling-rule", "checks.c01", "sec_sampling_rule", {}), ("displacement-kernels", "checks.c01", "sec_displacement_kernels", {}), ("batch-order", "checks.c01", "sec_batch_order", {}), ("rotation-candidates", "checks.c01", "sec_rotation_candidates", {})]
    for entry in ("single", "multi", "group"):
        ps = pairs if entry == "single" else pairs[:1] if quick(tier) else pairs[:6]
        for k, pr in enumerate(ps):
            S.append((f"pose-{entry}-{k}", "checks.c01", "sec_pose", {"quats": [pr], "entry": entry, "shape": (5, 5, 5) if k % 2 == 0 else (4, 5, 6)}))
    return S


_MC = "acryo.molecules.core"
_LB = "acryo.loader._base"
_R = rotation.R30
_PQ = {"quats": [(_R[9], _R[10])], "entry": "single"}
_LB, _LG = "acryo.loader._base", "acryo.loader._group"
MUTANTS = [
    ("units:multi-templates-scalar-not-normalised (defect fixed by 'fix: scalar max_shifts...')", "checks.c01", "sec_units", {},
     {_LB: [("        _max_shifts_px = tuple(\n            np.asarray(_normalize_max_shifts(max_shifts)) / self.scale\n        )\n\n        if isinstance(templates, ImageProvider):",
             "        _max_shifts_px = np.asarray(max_shifts) / self.scale\n\n        if isinstance(templates, ImageProvider):")]}),
    ("units:align-list-converts-twice (seeded change C01_3 / C05_4)", "checks.c01", "sec_units", {},
     {_LB: [("                list(model.template),\n                mask=mask,\n                max_shifts=max_shifts,", "                list(model.template),\n                mask=mask,\n                max_shifts=tuple(np.asarray(max_shifts) / self.scale),")]}),
    ("units:group-uses-first-loader-scale (seeded change C05_3)", "checks.c01", "sec_units", {},
     {_LG: [("        for key, loader in self:\n            model = alignment_model(\n                loader.normalize_template(template_map[key]),\n                loader.normalize_mask(mask),\n                **align_kwargs,\n            )\n            _max_shifts_px = tuple(\n                np.asarray(_normalize_max_shifts(max_shifts)) / loader.scale\n            )",
             "        _first = next(iter(self))[1]\n        for key, loader in self:\n            model = alignment_model(\n                loader.normalize_template(template_map[key]),\n                loader.normalize_mask(mask),\n                **align_kwargs,\n            )\n            _max_shifts_px = tuple(\n                np.asarray(_normalize_max_shifts(max_shifts)) / _first.scale\n            )")]}),
    ("units:positions-not-converted", "checks.c01", "sec_units", {}, {_LB: [("                pos=self.molecules.pos / self.scale,\n            ),\n        )\n        all_results = tasks.compute()\n        return self._post_align(all_results, model.input_shape)",
                                                                           "                pos=self.molecules.pos,\n            ),\n        )\n        all_results = tasks.compute()\n        return self._post_align(all_results, model.input_shape)")]}),
    ("pose:revert-fix-rotated-shift", "checks.c01", "sec_pose", _PQ, {_MC: [("            return self.translate_internal(shift).rotate_by_rotvec_internal(rotvec)", "            return self.translate_internal(rotator.apply(shift)).rotate_by_rotvec_internal(rotvec)")]}),
    ("pose:world-translation", "checks.c01", "sec_pose", _PQ, {_MC: [("            return self.translate_internal(shift).rotate_by_rotvec_internal(rotvec)", "            return self.translate(shift).rotate_by_rotvec_internal(rotvec)")]}),
    ("pose:world-rotation", "checks.c01", "sec_pose", _PQ, {_MC: [("            return self.translate_internal(shift).rotate_by_rotvec_internal(rotvec)", "            return self.translate_internal(shift).rotate_by_rotvec(rotvec)")]}),
    ("pose:left-right-composition", "checks.c01", "sec_pose", _PQ, {_MC: [("        rot = rotator * self._rotator\n", "        rot = self._rotator * rotator\n")]}),
    ("pose:inverse-apply", "checks.c01", "sec_pose", _PQ, {_MC: [("        world_shifts = self._rotator.apply(shifts)", "        world_shifts = self._rotator.apply(shifts, inverse=True)")]}),
    ("pose:internal-rotvec-axis-order", "checks.c01", "sec_pose", _PQ, {_MC: [("            vec_z * vector[:, 0][:, np.newaxis]\n            + vec_y * vector[:, 1][:, np.newaxis]\n            + vec_x * vector[:, 2][:, np.newaxis]", "            vec_x * vector[:, 0][:, np.newaxis]\n            + vec_y * vector[:, 1][:, np.newaxis]\n            + vec_z * vector[:, 2][:, np.newaxis]")]}),
    ("pose:cross-sign", "checks.c01", "sec_pose", _PQ, {_MC: [("    return -np.cross(x, y, axis=axis)  # type: ignore", "    return np.cross(x, y, axis=axis)  # type: ignore")]}),
    ("pose:shift-not-scaled", "checks.c01", "sec_pose", _PQ, {_LB: [("            _, loc_shift, local_rot[i], scores[i] = result\n            local_shifts[i] = loc_shift * self.scale", "            _, loc_shift, local_rot[i], scores[i] = result\n            local_shifts[i] = loc_shift")]}),
    ("pose:shift-divided-by-scale", "checks.c01", "sec_pose", {"quats": [(_R[9], _R[10])], "entry": "multi"}, {_LB: [("            labels[i], loc_shift, local_rot[i], scores[i] = result\n            local_shifts[i] = loc_shift * self.scale", "            labels[i], loc_shift, local_rot[i], scores[i] = result\n            local_shifts[i] = loc_shift / self.scale")]}),
    ("pose:feature-columns-swapped", "checks.c01", "sec_pose", _PQ, {"acryo.loader._misc": [('pl.Series("align-dz", np.round(local_shifts[:, 0], 2)),', 'pl.Series("align-dz", np.round(local_shifts[:, 2], 2)),')]}),
    ("units:pos-not-converted", "checks.c01", "sec_units", {}, {_LB: [("                pos=self.molecules.pos / self.scale,\n            ),\n        )\n        all_results = tasks.compute()\n        return self._post_align(all_results, model.input_shape)", "                pos=self.molecules.pos,\n            ),\n        )\n        all_results = tasks.compute()\n        return self._post_align(all_results, model.input_shape)")]}),
    ("units:max_shifts-times-scale", "checks.c01", "sec_units", {}, {"acryo.loader._group": [("                np.asarray(_normalize_max_shifts(max_shifts)) / loader.scale\n            )\n            tasks = loader.construct_mapping_tasks(\n                model.align,", "                np.asarray(_normalize_max_shifts(max_shifts)) * loader.scale\n            )\n            tasks = loader.construct_mapping_tasks(\n                model.align,")]}),
]


def run(tier, procs=None, only=None):
    S = select(sections(tier), only)
    return harness.run_check(
        PID, tier, S, procs=procs,
        explanation="The write-back of alignment results is executed for symbolic positions, scale, shifts, unit quaternions and scores with exact rational molecule "
                    "orientations: z3 (nlsat) proves that the sampling grid of the written-back pose equals the grid of the input pose composed with the transform the "
                    "real AlignmentResult.affine_matrix denotes, i.e. p' = p + scale R_m s and R' = R_m R_q, that the input loader is untouched and that the features carry "
                    "the same (shift, rotation, score); the unit conversions of align/align_multi_templates/LoaderGroup.align are captured from the real methods.",
        bounds={"molecule orientations": ("3 pairs" if quick(tier) else "30 pairs") + " from the 30 exact rational unit quaternions R30 (batch of 2 molecules)",
                "everything else": "position, scale > 0, shift, alignment rotation (unit quaternion), score: all reals", "box shapes": "(5,5,5), (4,5,6)"},
        trusted_base=TRUSTED + ["SymRotation quaternion/rotvec contract (obligations discharged per path)", "C02 sampling rule", "real polars with Object columns"],
        outside=["that the FFT correlation search finds the true displacement/rotation (C04/C06 cover the conventions)", "BatchLoader write-back (shares _post_align; row order is C03)"],
        mutants=MUTANTS if (not quick(tier) and not only) else None,
    )


# every real-library oracle of this property (each returns (reproduced, detail)); used to confirm structural facts that carry no replay of their own
ALL_REPLAYS = [lambda c: replay_pose()(c), lambda c: replay_pose('multi')(c), replay_units]


def replay(data):
    ok, detail = replay_pose()(data.get("cex") or {})
    print("replay:", detail)
    print("REPRODUCED" if ok else "not reproduced")
    return 1 if ok else 0
