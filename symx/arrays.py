"""symx.arrays -- SymArray: an object-dtype ndarray subclass holding Sym scalars.

The real numpy does slicing, broadcasting, reshape, cumsum, matmul, stack, meshgrid, fftshift
natively on the symbolic contents; this module only intercepts what would otherwise call
bool()/float() on an element (comparisons, max/argmax, sqrt, casts, masked assignment).
"""
from __future__ import annotations

import numpy as np
import z3

from .core import (
    Sym,
    SymBool,
    SymComplex,
    Unsupported,
    cast_scalar,
    cur,
    lift,
    sym_exp,
    sym_sqrt,
    z_abs,
    z_max,
    z_min,
    _coerce,
    exact,
    Q,
    _real,
    _same_sort,
    is_symbolic,
)


def _obj(a):
    """Plain object-dtype ndarray view/copy of anything array-like (exact python scalars)."""
    if isinstance(a, SymArray):
        return a.view(np.ndarray)
    if isinstance(a, np.ndarray):
        if a.dtype == object:
            return a
        return _exact_obj(a)
    if isinstance(a, (Sym, SymBool, SymComplex)):
        out = np.empty((), dtype=object)
        out[()] = a
        return out
    if isinstance(a, (list, tuple)):
        return _obj(to_symarray(a))
    out = np.empty((), dtype=object)
    out[()] = exact(a)
    return out


_EXACT = np.frompyfunc(lambda v: exact(v), 1, 1)


def _exact_obj(a):
    """concrete numeric ndarray -> object ndarray of exact python scalars (floats -> Q)"""
    o = a.astype(object)
    if a.dtype.kind == "f" and o.size:
        o = _EXACT(o)
        if not isinstance(o, np.ndarray):
            tmp = np.empty((), dtype=object)
            tmp[()] = o
            o = tmp
    elif a.dtype.kind == "c" and o.size:
        o = np.frompyfunc(lambda v: SymComplex(exact(v.real), exact(v.imag)), 1, 1)(o)
    return o


def wrap(a):
    if isinstance(a, np.ndarray) and a.dtype == object:
        return a.view(SymArray)
    return a


def elementwise(f, *arrays, nout=1):
    arrs = [_obj(a) for a in arrays]
    uf = np.frompyfunc(f, len(arrs), nout)
    out = uf(*arrs)
    if nout == 1:
        return _wrap_result(out)
    return tuple(_wrap_result(o) for o in out)


def _wrap_result(out):
    if isinstance(out, np.ndarray):
        if out.dtype != object:
            out = out.astype(object)
        return out.view(SymArray)
    return out


def any_symbolic(a) -> bool:
    if is_symbolic(a):
        return True
    if isinstance(a, np.ndarray):
        if a.dtype != object:
            return False
        return any(is_symbolic(x) for x in a.reshape(-1))
    if isinstance(a, (list, tuple)):
        return any(any_symbolic(x) for x in a)
    return False


def to_symarray(x, dtype=None):
    """np.array(x, dtype) that keeps Sym elements (object dtype)."""
    if isinstance(x, SymArray):
        out = x.copy()
    elif isinstance(x, np.ndarray):
        out = (_exact_obj(x) if x.dtype != object else x.copy()).view(SymArray)
    elif isinstance(x, (Sym, SymBool, SymComplex)):
        out = np.empty((), dtype=object)
        out[()] = x
        out = out.view(SymArray)
    else:
        # nested sequences possibly containing SymArrays/Sym scalars
        def conv(v):
            if isinstance(v, np.ndarray):
                return _exact_obj(v).tolist() if v.dtype != object else v.tolist()
            if isinstance(v, (list, tuple)):
                return [conv(w) for w in v]
            return exact(v)

        lst = conv(x)
        shape = _shape_of(lst)
        out = np.empty(shape, dtype=object)
        _fill(out, lst)
        out = out.view(SymArray)
    if dtype is not None and np.dtype(dtype) != object:
        out = out.astype(dtype)
    return out


def _shape_of(lst):
    if isinstance(lst, list):
        if not lst:
            return (0,)
        return (len(lst),) + _shape_of(lst[0])
    return ()


def _fill(out, lst):
    if out.ndim == 0:
        out[()] = lst
        return
    for i, v in enumerate(lst):
        if out.ndim == 1:
            out[i] = v
        else:
            _fill(out[i], v)


def sym_if(c, a, b):
    """element-level If(c, a, b)"""
    if isinstance(c, SymBool):
        ce = z3.simplify(c.e)
        if z3.is_true(ce):
            return a
        if z3.is_false(ce):
            return b
        if isinstance(a, SymComplex) or isinstance(b, SymComplex):
            a, b = SymComplex.of(a), SymComplex.of(b)
            return SymComplex(sym_if(c, a.re, b.re), sym_if(c, a.im, b.im))
        if isinstance(a, SymBool) or isinstance(b, SymBool):
            return SymBool(z3.If(ce, SymBool._b(a), SymBool._b(b)))
        # np.where(x == 0, np.inf, x): the same divisor idiom as `x[x == 0] = np.inf` (InfOr is defined below)
        if isinstance(a, (float, np.floating)) and np.isinf(a) and a > 0:
            return InfOr(SymBool(ce), b)
        if isinstance(b, (float, np.floating)) and np.isinf(b) and b > 0:
            return InfOr(SymBool(z3.Not(ce)), a)
        ea, eb = _same_sort(lift(_coerce(a)), lift(_coerce(b)))
        return Sym(z3.If(ce, ea, eb))
    return a if c else b


_CMP = {
    np.greater: lambda a, b: a > b,
    np.greater_equal: lambda a, b: a >= b,
    np.less: lambda a, b: a < b,
    np.less_equal: lambda a, b: a <= b,
    np.equal: lambda a, b: a == b,
    np.not_equal: lambda a, b: a != b,
}


def _sb(x):
    """python/sym scalar -> SymBool-or-bool for logic"""
    if isinstance(x, Sym):
        return SymBool(x.e != 0)
    return x


def _logical_and(a, b):
    a, b = _sb(a), _sb(b)
    if isinstance(a, SymBool) or isinstance(b, SymBool):
        return SymBool(z3.And(SymBool._b(a), SymBool._b(b)))
    return bool(a) and bool(b)


def _logical_or(a, b):
    a, b = _sb(a), _sb(b)
    if isinstance(a, SymBool) or isinstance(b, SymBool):
        return SymBool(z3.Or(SymBool._b(a), SymBool._b(b)))
    return bool(a) or bool(b)


def _logical_not(a):
    a = _sb(a)
    if isinstance(a, SymBool):
        return ~a
    return not a


def _maximum(a, b):
    if isinstance(a, (Sym, SymBool)) or isinstance(b, (Sym, SymBool)):
        if isinstance(a, SymBool) and isinstance(b, SymBool):
            return SymBool(z3.Or(a.e, b.e))
        return Sym(z_max(*_same_sort(lift(_coerce(a)), lift(_coerce(b)))))
    return a if a >= b else b


def _minimum(a, b):
    if isinstance(a, (Sym, SymBool)) or isinstance(b, (Sym, SymBool)):
        if isinstance(a, SymBool) and isinstance(b, SymBool):
            return SymBool(z3.And(a.e, b.e))
        return Sym(z_min(*_same_sort(lift(_coerce(a)), lift(_coerce(b)))))
    return a if a <= b else b


def _el_method(name, fallback):
    def f(a):
        if isinstance(a, (Sym, SymComplex)):
            return getattr(a, name)()
        if isinstance(a, SymBool):
            return getattr(a._num(), name)()
        return fallback(a)

    return f


import math as _math
from fractions import Fraction as _F


def _py_sqrt(a):
    r = sym_sqrt(a)
    if isinstance(r, Sym) or isinstance(r, (int, _F)):
        return r
    return r


def _py_floor(a):
    return _math.floor(a)


_UNARY = {
    np.sqrt: lambda a: sym_sqrt(a) if not isinstance(a, SymComplex) else (_ for _ in ()).throw(Unsupported("complex sqrt")),
    np.exp: lambda a: sym_exp(a) if isinstance(a, (Sym,)) else (_math.exp(a) if not isinstance(a, SymComplex) else (_ for _ in ()).throw(Unsupported("complex exp"))),
    np.floor: _el_method("floor", lambda a: float(_math.floor(a))),
    np.ceil: _el_method("ceil", lambda a: float(_math.ceil(a))),
    np.trunc: _el_method("trunc", lambda a: float(_math.trunc(a))),
    np.rint: _el_method("rint", lambda a: float(round(a))),
    np.absolute: lambda a: abs(a),
    np.fabs: lambda a: abs(a),
    np.conjugate: lambda a: a.conjugate() if hasattr(a, "conjugate") else a,
    np.logical_not: _logical_not,
    np.negative: lambda a: -a,
    np.positive: lambda a: a,
    np.square: lambda a: a * a,
    np.sign: lambda a: Sym(z3.If(a.e > 0, 1, z3.If(a.e < 0, -1, 0))) if isinstance(a, Sym) else (a > 0) - (a < 0),
    np.isfinite: lambda a: True,
    np.isnan: lambda a: False,
    np.isinf: lambda a: False,
}

_BINARY = {
    np.logical_and: _logical_and,
    np.logical_or: _logical_or,
    np.bitwise_and: lambda a, b: _logical_and(a, b) if isinstance(a, (SymBool, bool, np.bool_)) else a & b,
    np.bitwise_or: lambda a, b: _logical_or(a, b) if isinstance(a, (SymBool, bool, np.bool_)) else a | b,
    np.maximum: _maximum,
    np.minimum: _minimum,
    np.fmax: _maximum,
    np.fmin: _minimum,
    np.power: lambda a, b: a ** b,
    np.float_power: lambda a, b: a ** b,
    np.add: lambda a, b: a + b,
    np.subtract: lambda a, b: a - b,
    np.multiply: lambda a, b: a * b,
    np.true_divide: lambda a, b: a / b,
    np.floor_divide: lambda a, b: a // b,
    np.remainder: lambda a, b: a % b,
}
_BINARY.update(_CMP)


def _probe_ufunc_dtype(ufunc, dt):
    """conformance with the installed numpy: a ufunc call with an explicit dtype= that numpy rejects for floating-point operands
    (e.g. np.greater_equal(a, b, dtype=np.float32): no matching loop) raises the same TypeError on symbolic arrays"""
    errs = []
    for fdt in (np.float32, np.float64):
        try:
            ufunc(*([np.zeros(1, dtype=fdt)] * ufunc.nin), dtype=dt)
            return
        except TypeError as e:
            errs.append(e)
        except Exception:
            return
    raise TypeError(str(errs[0]))


class SymArray(np.ndarray):
    __array_priority__ = 100.0

    def __new__(cls, data=None, shape=None):
        if data is not None:
            return to_symarray(data)
        return np.empty(shape, dtype=object).view(cls)

    # -- ufunc interception ----------------------------------------------------------------
    def __array_ufunc__(self, ufunc, method, *inputs, out=None, **kwargs):
        dt = kwargs.pop("dtype", None)
        kwargs.pop("casting", None)
        if dt is not None and method == "__call__":
            _probe_ufunc_dtype(ufunc, dt)
        plain = [_obj(x) for x in inputs]
        outs = None
        if out is not None:
            outs = tuple(_obj(o) if isinstance(o, np.ndarray) and o.dtype == object else o for o in out)
            if all(isinstance(o, np.ndarray) and o.dtype == np.bool_ for o in outs):
                # e.g. `keep &= symbolic_mask` on a concrete boolean array: decide every symbolic truth value (one path per outcome)
                conc = [np.frompyfunc(lambda v: bool(v), 1, 1)(x).astype(np.bool_) if isinstance(x, np.ndarray) and x.dtype == object else x for x in plain]
                return getattr(ufunc, method)(*conc, out=out, **kwargs)
            for o in outs:
                if isinstance(o, np.ndarray) and o.dtype != object:
                    # `concrete_array op= x`: possible when x holds exact numbers only (no free symbol): the real in-place update is done on the
                    # caller's array (aliasing is the point: the array may be shared or cached)
                    if not any(isinstance(x, np.ndarray) and x.dtype == object and any(is_symbolic(v) for v in x.reshape(-1)) for x in plain):
                        conc = [np.asarray([float(v) for v in x.reshape(-1)], dtype=np.float64).reshape(x.shape) if isinstance(x, np.ndarray) and x.dtype == object else x for x in plain]
                        return getattr(ufunc, method)(*conc, out=out, **kwargs)
                    raise Unsupported("in-place symbolic result into a concrete numeric array")
        f = _UNARY.get(ufunc) if ufunc.nin == 1 else _BINARY.get(ufunc)
        if ufunc is np.matmul:
            if method != "__call__":
                raise Unsupported("matmul." + method)
            res = _matmul(plain[0], plain[1])
        elif f is not None:
            uf = np.frompyfunc(f, ufunc.nin, 1)
            if outs is not None:
                kwargs["out"] = outs
            res = getattr(uf, method)(*plain, **kwargs)
            if method == "reduce" and ufunc in (np.logical_and, np.logical_or, np.bitwise_and, np.bitwise_or) and isinstance(res, np.ndarray) and res.ndim >= 1 \
                    and all(isinstance(v, (SymBool, bool, np.bool_)) for v in res.reshape(-1)):
                # `np.logical_and.reduce(inside, axis=1)`: a row mask, used next to select rows of (possibly concrete) arrays, which numpy can only do
                # with a real boolean array: every truth value is decided (one path per outcome), exactly as `keep &= mask` on a concrete array is
                return np.frompyfunc(lambda v: bool(v), 1, 1)(np.asarray(res).view(np.ndarray)).astype(np.bool_)
        else:
            raise Unsupported(f"ufunc {ufunc.__name__} on a symbolic array")
        if outs is not None and ufunc is not np.matmul:
            return out[0] if len(out) == 1 else out
        return _wrap_result(res)

    def __array_function__(self, func, types, args, kwargs):
        h = _FUNCS.get(func)
        if h is not None:
            return h(*args, **kwargs)
        # default numpy implementation (keeps the subclass through priority rules)
        return super().__array_function__(func, types, args, kwargs)

    # -- python-level comparisons (numpy would call bool() per element otherwise) ------------
    def __gt__(self, o):
        return elementwise(_CMP[np.greater], self, o)

    def __ge__(self, o):
        return elementwise(_CMP[np.greater_equal], self, o)

    def __lt__(self, o):
        return elementwise(_CMP[np.less], self, o)

    def __le__(self, o):
        return elementwise(_CMP[np.less_equal], self, o)

    def __eq__(self, o):  # type: ignore[override]
        return elementwise(_CMP[np.equal], self, o)

    def __ne__(self, o):  # type: ignore[override]
        return elementwise(_CMP[np.not_equal], self, o)

    __hash__ = None  # type: ignore[assignment]

    # in-place operators: numpy refuses `ndarray -= x` outright when x sets __array_ufunc__ = None (our scalars do)
    def _inplace(self, o, f):
        res = elementwise(f, self, o)
        self.view(np.ndarray)[...] = np.broadcast_to(_obj(res), self.shape)
        return self

    def __iadd__(self, o):
        return self._inplace(o, lambda a, b: a + b)

    def __isub__(self, o):
        return self._inplace(o, lambda a, b: a - b)

    def __imul__(self, o):
        return self._inplace(o, lambda a, b: a * b)

    def __itruediv__(self, o):
        return self._inplace(o, lambda a, b: a / b)

    def __ifloordiv__(self, o):
        return self._inplace(o, lambda a, b: a // b)

    def __imod__(self, o):
        return self._inplace(o, lambda a, b: a % b)

    def __ipow__(self, o):
        return self._inplace(o, lambda a, b: a ** b)

    def __invert__(self):
        return elementwise(_logical_not, self)

    def __and__(self, o):
        return elementwise(_BINARY[np.bitwise_and], self, o)

    def __or__(self, o):
        return elementwise(_BINARY[np.bitwise_or], self, o)

    def tobytes(self, *a, **k):
        """a value-based byte string (numpy's is the raw buffer: equal values give equal bytes); used by code that builds dictionary keys from arrays"""
        def one(v):
            if isinstance(v, (Sym, SymBool)):
                return str(z3.simplify(v.e))
            try:
                return str(Fraction(v))
            except Exception:
                return repr(v)

        return ("symarray:" + repr(self.shape) + ":" + "|".join(one(v) for v in self.view(np.ndarray).reshape(-1))).encode()

    def __bool__(self):
        if self.size != 1:
            raise ValueError("The truth value of an array with more than one element is ambiguous.")
        return bool(self.reshape(-1)[0])

    def __float__(self):
        from .core import symfloat

        return symfloat(self.reshape(-1)[0])

    # -- casts -------------------------------------------------------------------------------
    def astype(self, dtype, copy=True, **kw):
        if dtype is object or np.dtype(dtype) == object:
            return self.copy() if copy else self
        if not copy and np.dtype(dtype).kind == "f" and not any(isinstance(v, (SymBool, SymComplex)) or (isinstance(v, Sym) and v.is_int) or isinstance(v, (int, bool))
                                                               for v in self.view(np.ndarray).reshape(-1)):
            return self  # numpy semantics: no copy when the array already has the requested (floating) type
        out = elementwise(lambda a: cast_scalar(a, dtype), self)
        if not any_symbolic(out) and np.dtype(dtype).kind in "iub":
            return np.asarray(out.view(np.ndarray).tolist(), dtype=dtype).reshape(self.shape)
        return out

    @property
    def real(self):
        return elementwise(lambda a: a.real if hasattr(a, "real") else a, self)

    @real.setter
    def real(self, v):
        raise Unsupported("assignment to .real")

    @property
    def imag(self):
        return elementwise(lambda a: a.imag if hasattr(a, "imag") else 0, self)

    def conj(self):
        return elementwise(lambda a: a.conjugate() if hasattr(a, "conjugate") else a, self)

    conjugate = conj

    def tolist(self):
        return self.view(np.ndarray).tolist()

    def item(self, *a):
        return self.view(np.ndarray).item(*a)

    # -- reductions that need comparisons ----------------------------------------------------
    def max(self, axis=None, **kw):
        return sym_reduce(_maximum, self, axis)

    def min(self, axis=None, **kw):
        return sym_reduce(_minimum, self, axis)

    def argmax(self, axis=None, **kw):
        if axis is not None:
            raise Unsupported("argmax with axis")
        return sym_argmax(self)

    def argmin(self, axis=None, **kw):
        if axis is not None:
            raise Unsupported("argmin with axis")
        return sym_argmax(-self)

    def all(self, axis=None, **kw):
        return sym_reduce(_logical_and, self, axis)

    def any(self, axis=None, **kw):
        return sym_reduce(_logical_or, self, axis)

    def mean(self, axis=None, dtype=None, **kw):
        s = self.sum(axis=axis, **{k: v for k, v in kw.items() if k == "keepdims"})
        n = self.size if axis is None else int(np.prod([self.shape[a] for a in _axes(axis, self.ndim)]))
        return s / n

    def sum(self, axis=None, dtype=None, out=None, **kw):
        r = np.add.reduce(self.view(np.ndarray), axis=axis, **{k: v for k, v in kw.items() if k == "keepdims"})
        return _wrap_result(r)

    def dot(self, other):
        return _dot(self, other)

    def round(self, decimals=0, out=None):
        from .core import symround

        return elementwise(lambda a: symround(a, decimals) if isinstance(a, Sym) else round(a, decimals), self)

    # -- masked assignment with a symbolic mask: If-merge instead of forking -------------------
    def __setitem__(self, key, value):
        if isinstance(key, np.ndarray) and key.dtype == object and key.size and _is_boolmask(key):
            self._masked_assign(key, value)
            return
        if isinstance(value, np.ndarray) and value.dtype != object:
            value = value.astype(object)
        super().__setitem__(key, value)

    def _masked_assign(self, mask, value):
        mask = _obj(mask)
        tgt = self.view(np.ndarray)
        if mask.ndim < self.ndim and mask.shape == self.shape[: mask.ndim] and not isinstance(value, MaskedSelection):
            # rows selected by a symbolic mask receive the same value (broadcast over the trailing axes): a[mask] = v
            tail = self.shape[mask.ndim:]
            val = np.broadcast_to(np.asarray(_obj(value) if isinstance(value, np.ndarray) else value, dtype=object), tail)
            for idx in np.ndindex(mask.shape):
                for t in np.ndindex(tail):
                    tgt[idx + t] = sym_if(mask[idx], val[t], tgt[idx + t]) if not isinstance(mask[idx], (bool, np.bool_)) else (val[t] if mask[idx] else tgt[idx + t])
            return
        if mask.shape != self.shape:
            raise Unsupported("symbolic boolean mask of a different shape")
        if isinstance(value, MaskedSelection):
            if value.mask is not mask and not _same_mask(value.mask, mask):
                raise Unsupported("masked assignment from a selection made with a different mask")
            src = _obj(value.base)
            for idx in np.ndindex(self.shape):
                tgt[idx] = sym_if(mask[idx], src[idx], tgt[idx])
            return
        if isinstance(value, np.ndarray) and value.ndim > 0:
            raise Unsupported("masked assignment of an array under a symbolic mask")
        if isinstance(value, (float, np.floating)) and np.isinf(value) and value > 0:
            # `a[a == 0] = np.inf` (used to make a later division yield 0): the reals have no infinity, keep the guard
            for idx in np.ndindex(self.shape):
                m = mask[idx]
                if isinstance(m, (bool, np.bool_)):
                    tgt[idx] = value if m else tgt[idx]
                else:
                    tgt[idx] = InfOr(m, tgt[idx])
            return
        for idx in np.ndindex(self.shape):
            tgt[idx] = sym_if(mask[idx], value, tgt[idx])

    def __getitem__(self, key):
        if isinstance(key, np.ndarray) and key.dtype == object and key.size and _is_boolmask(key):
            return MaskedSelection(self, _obj(key))
        return super().__getitem__(_concrete_index(key))


def _concrete_index(key):
    """integer index arrays holding symbolic integers (`table[iz, iy, ix]` with rounded symbolic positions): numpy needs real integers, so every
    index is decided (one path per value, bounded by the caller's assumptions), as it is for a tuple of symbolic scalars through __index__"""
    import operator

    def one(k):
        if isinstance(k, np.ndarray) and k.dtype == object and k.size and not _is_boolmask(k):
            return np.frompyfunc(operator.index, 1, 1)(k.view(np.ndarray)).astype(np.intp)
        if isinstance(k, np.ndarray) and k.dtype == object and k.size == 0:
            return k.astype(np.intp)
        return k

    if isinstance(key, tuple):
        return tuple(one(k) for k in key)
    return one(key)


def _is_boolmask(key):
    first = key.reshape(-1)[0]
    return isinstance(first, (SymBool, bool, np.bool_))


def _same_mask(a, b):
    if a.shape != b.shape:
        return False
    for x, y in zip(a.reshape(-1), b.reshape(-1)):
        if x is y:
            continue
        ex = x.e if isinstance(x, SymBool) else z3.BoolVal(bool(x))
        ey = y.e if isinstance(y, SymBool) else z3.BoolVal(bool(y))
        if not z3.eq(ex, ey):
            return False
    return True


class InfOr:
    """If(cond, +inf, finite): only usable as a divisor (x / InfOr = If(cond, 0, x / finite))"""

    __array_ufunc__ = None

    def __init__(self, cond, finite):
        self.cond, self.finite = cond, finite

    def __rtruediv__(self, x):
        return sym_if(self.cond, 0, x / self.finite)

    def __repr__(self):
        return f"InfOr({self.cond!r}, {self.finite!r})"


class MaskedSelection:
    """`arr[mask]` with a symbolic mask: only meaningful as the RHS of `out[mask] = ...`.

    Arithmetic is applied lazily element-wise to the underlying full array.
    """

    def __init__(self, base, mask):
        self.base = base
        self.mask = mask

    def _bin(self, o, f):
        if isinstance(o, MaskedSelection):
            if not _same_mask(self.mask, o.mask):
                raise Unsupported("arithmetic between selections with different masks")
            return MaskedSelection(elementwise(f, self.base, o.base), self.mask)
        return MaskedSelection(elementwise(f, self.base, o), self.mask)

    def __truediv__(self, o):
        # division only happens where the mask is true: guard the div0 obligation
        if isinstance(o, MaskedSelection):
            ob = _obj(o.base)
        else:
            ob = np.broadcast_to(_obj(o), self.base.shape)
        sb = _obj(self.base)
        out = np.empty(sb.shape, dtype=object)
        for idx in np.ndindex(sb.shape):
            out[idx] = guarded_div(sb[idx], ob[idx], self.mask[idx])
        return MaskedSelection(out.view(SymArray), self.mask)

    def __mul__(self, o):
        return self._bin(o, lambda a, b: a * b)

    def __add__(self, o):
        return self._bin(o, lambda a, b: a + b)

    def __sub__(self, o):
        return self._bin(o, lambda a, b: a - b)

    def _np_unary(self, fsym, fnp, fpy=None):
        """np.sqrt(arr[mask]) etc.: applied to the whole base array; the domain obligation is only owed where the mask holds.
        (opaque square roots are used by the checks that reach this, so no obligation is generated here)"""
        def one(a):
            if is_symbolic(a):
                return fsym(a)
            if fpy is not None and isinstance(a, (_F, int)) and not isinstance(a, bool):
                r = fpy(a)
                return exact(r) if not is_symbolic(r) else r
            return exact(fnp(a))

        return MaskedSelection(elementwise(one, self.base), self.mask)


def guarded_div(a, b, guard):
    """a / b where the division is only performed when `guard` holds."""
    from .core import _CUR

    ea, eb = _real(lift(_coerce(a))), _real(lift(_coerce(b)))
    ex = cur()
    g = SymBool._b(guard)
    vb = z3.simplify(eb)
    if not (z3.is_rational_value(vb) and vb.as_fraction() != 0):
        ex.oblige("div0", z3.Implies(g, eb != 0))
    return Sym(ea / eb)


def _axes(axis, ndim):
    if isinstance(axis, int):
        return (axis % ndim,)
    return tuple(a % ndim for a in axis)


def sym_reduce(f, arr, axis=None):
    a = _obj(arr)
    if axis is None:
        flat = a.reshape(-1)
        if flat.size == 0:
            raise ValueError("zero-size array to reduction operation which has no identity")
        out = flat[0]
        for v in flat[1:]:
            out = f(out, v)
        return out
    uf = np.frompyfunc(f, 2, 1)
    if isinstance(axis, tuple):
        r = a
        for ax in sorted(_axes(axis, a.ndim), reverse=True):
            r = uf.reduce(r, axis=ax)
        return _wrap_result(r)
    return _wrap_result(uf.reduce(a, axis=axis))


def sym_argmax(arr):
    """First index of the maximum, as a Sym int (If-chain); concrete arrays stay concrete."""
    a = _obj(arr).reshape(-1)
    if a.size == 0:
        raise ValueError("attempt to get argmax of an empty sequence")
    if not any_symbolic(a):
        vals = [float(v) for v in a]
        return int(np.argmax(vals))
    n = a.size
    if n == 1:
        return 0
    es = [_real(lift(_coerce(v))) for v in a]
    out = z3.IntVal(n - 1)
    for i in range(n - 2, -1, -1):
        cond = z3.And(*[es[i] >= es[j] for j in range(n) if j != i]) if n > 1 else z3.BoolVal(True)
        # first maximal index: i is chosen if it is >= all others and no earlier index is
        out = z3.If(cond, z3.IntVal(i), out)
    return Sym(out)


def _matmul(a, b):
    a, b = _obj(a), _obj(b)
    if a.ndim == 1 and b.ndim == 1:
        return sum((x * y for x, y in zip(a, b)), 0)
    if a.ndim == 2 and b.ndim == 2:
        out = np.empty((a.shape[0], b.shape[1]), dtype=object)
        for i in range(a.shape[0]):
            for j in range(b.shape[1]):
                out[i, j] = _dotvec(a[i, :], b[:, j])
        return out
    if a.ndim == 2 and b.ndim == 1:
        out = np.empty((a.shape[0],), dtype=object)
        for i in range(a.shape[0]):
            out[i] = _dotvec(a[i, :], b)
        return out
    if a.ndim == 1 and b.ndim == 2:
        out = np.empty((b.shape[1],), dtype=object)
        for j in range(b.shape[1]):
            out[j] = _dotvec(a, b[:, j])
        return out
    # batched
    return np.matmul(a, b)


def _dotvec(x, y):
    out = None
    for p, q in zip(x, y):
        if _is_zero(p) or _is_zero(q):
            continue
        t = q if _is_one(p) else (p if _is_one(q) else p * q)
        out = t if out is None else out + t
    return 0 if out is None else out


def _is_zero(v):
    return isinstance(v, (int, float, _F)) and not isinstance(v, bool) and _F(v) == 0


def _is_one(v):
    return isinstance(v, (int, float, _F)) and not isinstance(v, bool) and _F(v) == 1


def _dot(a, b):
    a, b = _obj(a), _obj(b)
    if a.ndim <= 2 and b.ndim <= 2:
        r = _matmul(a, b)
        return _wrap_result(r) if isinstance(r, np.ndarray) else r
    if b.ndim == 1:
        out = np.empty(a.shape[:-1], dtype=object)
        for idx in np.ndindex(a.shape[:-1]):
            out[idx] = _dotvec(a[idx], b)
        return out.view(SymArray)
    return _wrap_result(np.dot(a, b))


def _row_mask(res, a, axis):
    """np.all / np.any over the LAST axis of a 2-D table of symbolic truth values: a row mask.  It is used to select rows of arrays that may be concrete,
    which numpy only does with a real boolean array: every truth value is decided (one path per outcome), as for `keep &= mask` and logical_and.reduce."""
    if axis in (1, -1) and np.ndim(a) == 2 and isinstance(res, np.ndarray) and res.ndim == 1 and res.dtype == object \
            and all(isinstance(v, (SymBool, bool, np.bool_)) for v in res.reshape(-1)):
        return np.frompyfunc(lambda v: bool(v), 1, 1)(np.asarray(res).view(np.ndarray)).astype(np.bool_)
    return res


def _where(c, a=None, b=None):
    if a is None:
        raise Unsupported("np.where(cond) with a symbolic condition")
    return elementwise(sym_if, c, a, b)


def _np_max(a, axis=None, **kw):
    return sym_reduce(_maximum, a, axis)


def _np_min(a, axis=None, **kw):
    return sym_reduce(_minimum, a, axis)


def _np_round(a, decimals=0, out=None):
    return to_symarray(a).round(decimals)


def _np_cross(a, b, axis=-1, **kw):
    if axis is None:
        axis = -1
    a, b = _obj(a), _obj(b)
    a, b = np.broadcast_arrays(a, b)
    a = np.moveaxis(a, axis, -1)
    b = np.moveaxis(b, axis, -1)
    out = np.empty(a.shape, dtype=object)
    out[..., 0] = a[..., 1] * b[..., 2] - a[..., 2] * b[..., 1]
    out[..., 1] = a[..., 2] * b[..., 0] - a[..., 0] * b[..., 2]
    out[..., 2] = a[..., 0] * b[..., 1] - a[..., 1] * b[..., 0]
    return np.moveaxis(out, -1, axis).view(SymArray)


_FUNCS = {
    np.where: _where,
    np.max: _np_max,
    np.amax: _np_max,
    np.min: _np_min,
    np.amin: _np_min,
    np.argmax: lambda a, axis=None, **kw: to_symarray(a).argmax(axis),
    np.argmin: lambda a, axis=None, **kw: to_symarray(a).argmin(axis),
    np.dot: lambda a, b, out=None: _dot(a, b),
    np.round: _np_round,
    np.around: _np_round,
    np.cross: _np_cross,
    np.all: lambda a, axis=None, **kw: _row_mask(sym_reduce(_logical_and, a, axis), a, axis),
    np.any: lambda a, axis=None, **kw: _row_mask(sym_reduce(_logical_or, a, axis), a, axis),
    np.mean: lambda a, axis=None, **kw: to_symarray(a).mean(axis),
    np.sum: lambda a, axis=None, **kw: to_symarray(a).sum(axis, **{k: v for k, v in kw.items() if k == "keepdims"}),
    np.fix: lambda a, out=None: elementwise(_UNARY[np.trunc], a),
    np.real: lambda a: to_symarray(a).real,
    np.imag: lambda a: to_symarray(a).imag,
}
