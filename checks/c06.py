"""C06 -- rotation/template search returns the best candidate, correctly labelled.

Real code: RotationImplemented.__init__/_get_template_and_mask_input/align/fit,
BaseAlignmentModel._optimize_multiple (acryo/alignment/_base.py), normalize_rotations
(acryo/_rotation.py), LoaderBase._post_align_multi_templates / align_multi_templates,
LoaderGroup.align_multi_templates (label decoding).
"""
from __future__ import annotations

import itertools
from fractions import Fraction

import numpy as np
import z3

from symx import harness, load, rotation, stubs
from symx.arrays import SymArray, to_symarray, _obj
from symx.core import Sym, explore, integer, lift, real, _real, _coerce
from symx.plshim import PlShim

from .common import TRUSTED, fl, frac, quick, select

PID = "C06"
MODS = ["acryo._utils", "acryo._rotation", "acryo.backend._api", "acryo.molecules._rotation", "acryo.molecules.core",
        "acryo.alignment._base", "acryo.loader._misc", "acryo.loader._group", "acryo.loader._base", "acryo.loader._loader"]


def zr(x):
    return _real(lift(_coerce(x)))


def zi(x):
    return lift(_coerce(x))


def _load(patches=None):
    stubs.patch_dask_from_delayed()
    L = load.load(MODS, overrides={"Rotation": rotation.SymRotation, "da": stubs.DaStub(), "pl": PlShim()}, patches=patches)
    return L


class Tagged:
    """an opaque image-like token that survives `x * mask` etc."""

    _symx_passthrough = True

    def __init__(self, what, *parts):
        self.what = what
        self.parts = parts

    def __mul__(self, o):
        return Tagged("mul", self, o)

    __rmul__ = __mul__
    ndim = 3

    def __repr__(self):
        return f"Tagged({self.what})"


def _model_class(L, n_calls):
    B = L["acryo.alignment._base"]

    class Model(B.RotationImplemented):
        def pre_transform(self, image, backend):
            return Tagged("pre", image)

        def _optimize(self, subvolume, template, max_shifts, quaternion, pos, backend):
            # identify the candidate by the identity of its prepared template (dask may run tasks in any order)
            cached = self._template_mask_cache.get(backend)[0]
            cands = [cached] if isinstance(cached, Tagged) else list(cached)
            i = next((k for k, c in enumerate(cands) if c is template), None)
            if i is None:
                raise AssertionError("template passed to _optimize is not one of the prepared candidates")
            n_calls[0] += 1
            n_calls.append((i, subvolume, template, quaternion))
            return (to_symarray([real(f"sh{i}_{a}") for a in range(3)]), to_symarray([0, 0, 0, 1]), real(f"score{i}"))

        def _score(self, *a, **k):
            raise NotImplementedError

    return Model


def _templates(T, shape=(1, 1, 2)):
    out = []
    for j in range(T):
        a = SymArray(shape=shape)
        for idx in np.ndindex(shape):
            a[idx] = real(f"t{j}_" + "_".join(map(str, idx)))
        out.append(a)
    return out


def _template_index(arr, T, shape=(1, 1, 2)):
    """which template's voxels does this array hold (times mask 1)?"""
    a = _obj(arr)
    for j in range(T):
        if all(z3.eq(z3.simplify(zr(a[idx])), z3.simplify(z3.Real(f"t{j}_" + "_".join(map(str, idx))))) for idx in np.ndindex(shape)):
            return j
    return None


def _setup(L, T, K):
    B = L["acryo.alignment._base"]
    API = L["acryo.backend._api"]
    ndi = stubs.NdiStub()
    xp = stubs.make_backend(API, B.np, ndi)
    B.Backend = lambda *a, **k: xp
    return B, xp, ndi


QUATS = [rotation.R30[i] for i in (0, 9, 10, 12, 15)]


# ---------------------------------------------------------------------------------------
# replay helpers (public API, real libraries)


def replay_decode(T, K, nonid=False):
    """sub-volume = template j rotated by searched rotation k: the model must report (j, k).  nonid: K == 1 with a single non-identity rotation"""

    def run(cex):
        from acryo.alignment import ZNCCAlignment
        from scipy.spatial.transform import Rotation
        from scipy import ndimage as ndi

        rng = np.random.default_rng(5)
        size = 15
        zz, yy, xx = np.indices((size,) * 3) - size // 2
        temps = []
        for j in range(T):
            t = np.zeros((size,) * 3, dtype=np.float32)
            for _ in range(4):
                c = rng.uniform(-3.5, 3.5, size=3)
                t += np.exp(-((zz - c[0]) ** 2 + (yy - c[1]) ** 2 + (xx - c[2]) ** 2) / 3.0).astype(np.float32)
            temps.append(t)
        angles = [(0, 0, 0), (25, 0, 0), (0, 35, 0), (0, 0, 45), (30, 30, 0)][:K] if not nonid else [(25, 0, 0)]
        from acryo.molecules import from_euler_xyz_coords

        rots = Rotation.concatenate([from_euler_xyz_coords(np.array(a, dtype=float), "zyx", degrees=True) for a in angles]) if (K > 1 or nonid) else None
        model = ZNCCAlignment(temps if T > 1 else temps[0], rotations=rots)
        wrong = []
        quats = model.quaternions
        from acryo._utils import compose_matrices

        for j in range(T):
            for k in range(K):
                rot = Rotation.from_quat(quats[k])
                mtx = compose_matrices(np.array(temps[j].shape) / 2 - 0.5, [rot.inv()])[0]
                sub = ndi.affine_transform(temps[j], mtx, order=3, mode="constant", cval=0.0)
                res = model.align(sub, (1, 1, 1))
                ok_rot = np.allclose(res.quat, quats[k], atol=1e-6) or np.allclose(res.quat, -quats[k], atol=1e-6)
                # the sub-volume is the template turned about the box centre and not displaced: the reported shift is (close to) zero
                off = float(np.abs(np.asarray(res.shift, dtype=float)).max())
                if not ok_rot or (res.label % max(T, 1) if K > 1 else res.label) != j or (nonid and float(res.score) < 0.9) or off > 0.3:
                    wrong.append({"template": j, "rotation": k, "label": int(res.label), "quat_ok": bool(ok_rot), "score": float(res.score), "shift": np.asarray(res.shift, dtype=float).round(3).tolist()})
        return len(wrong) > 0, {"T": T, "K": K, "wrong": wrong[:6], "n_wrong": len(wrong), "of": T * K}

    return run


def replay_bruteforce(T, K, with_mask=True, invert=False):
    """the multi-candidate search must return the best of its candidates: compared with T*K single-candidate models (same template j, same mask, the single rotation k);
    invert: an inverted-contrast particle (every score negative)"""

    def run(cex):
        from acryo.alignment import ZNCCAlignment
        from scipy.spatial.transform import Rotation
        from scipy import ndimage as ndi
        from acryo._utils import compose_matrices

        rng = np.random.default_rng(11)
        size = 14
        zz, yy, xx = np.indices((size,) * 3) - (size - 1) / 2
        temps = []
        for j in range(T):
            t = np.zeros((size,) * 3, dtype=np.float32)
            for _ in range(4):
                c = rng.uniform(-3.0, 3.0, size=3)
                t += np.exp(-((zz - c[0]) ** 2 + (yy - c[1]) ** 2 + (xx - c[2]) ** 2) / 3.0).astype(np.float32)
            temps.append(t)
        mask = None
        if with_mask:
            mask = np.exp(-((zz - 1.5) ** 2 / 14.0 + (yy + 1.0) ** 2 / 20.0 + xx ** 2 / 9.0)).astype(np.float32)  # soft, off-centre, anisotropic: rotating it matters
        rots = Rotation.from_rotvec([[0, 0, 0], [0.6, 0, 0], [0, -0.7, 0.3]][:K]) if K > 1 else None
        multi = ZNCCAlignment(temps if T > 1 else temps[0], mask, rotations=rots)
        wrong = []
        for j in range(T):
            for k in range(K):
                rot = Rotation.from_rotvec([[0, 0, 0], [0.6, 0, 0], [0, -0.7, 0.3]][k])
                mtx = compose_matrices(np.array(temps[j].shape) / 2 - 0.5, [rot.inv()])[0]
                sub = ndi.affine_transform(temps[j], mtx, order=3, mode="constant", cval=0.0) + rng.normal(size=(size,) * 3).astype(np.float32) * 0.02
                if invert:
                    sub = -sub
                res = multi.align(sub, (1, 1, 1))
                best = None
                for jj in range(T):
                    for kk in range(K):
                        rk = Rotation.from_rotvec([[[0, 0, 0], [0.6, 0, 0], [0, -0.7, 0.3]][kk]])
                        single = ZNCCAlignment(temps[jj], mask, rotations=rk if (K > 1 or kk > 0) else None)
                        r1 = single.align(sub, (1, 1, 1))
                        if best is None or float(r1.score) > best[0]:
                            best = (float(r1.score), jj, kk)
                lab = int(res.label) % max(T, 1) if K > 1 else int(res.label)
                if abs(float(res.score) - best[0]) > 2e-3 or (lab != best[1] and T > 1):
                    wrong.append({"particle": [j, k], "multi": [round(float(res.score), 4), int(res.label)], "best_single": [round(best[0], 4), best[1], best[2]]})
        return len(wrong) > 0, {"T": T, "K": K, "mask": with_mask, "inverted": invert, "n_wrong": len(wrong), "examples": wrong[:3]}

    return run


# ---------------------------------------------------------------------------------------
# (a) ordering lemma


def sec_ordering(rec, T=2, K=2, nonid=False, patches=None):
    L = _load(patches)
    B, xp, ndi = _setup(L, T, K)
    U = L["acryo._utils"]
    rec.encodes("acryo/alignment/_base.py:RotationImplemented.__init__", "acryo/alignment/_base.py:RotationImplemented._get_template_and_mask_input",
                "acryo/alignment/_base.py:BaseAlignmentModel.__init__", "acryo/alignment/_base.py:RotationImplemented._transform_template",
                "acryo/alignment/_base.py:TemplateMaskCache", "acryo/_rotation.py:normalize_rotations", "acryo/_utils.py:compose_matrices")
    rec.assume("scipy.ndimage.spline_filter / affine_transform are recorded, not evaluated (which template and which matrix reach them is what is checked)")
    calls = [0]
    Model = _model_class(L, calls)
    quats = [list(q) for q in QUATS[:K]] if not nonid else [list(QUATS[1])]
    tag = f"ordering[T={T},K={K}{',single-non-identity-rotation' if nonid else ''}]"
    rotated = K > 1 or nonid  # the candidates must be rotated copies unless the only rotation is the identity

    def run():
        temps = _templates(T)
        rots = rotation.SymRotation(quats) if rotated else None
        m = Model(temps if T > 1 else temps[0], None, rots)
        tmpl, mask = m._template_mask_cache.get(xp)
        return m, tmpl, mask

    paths = explore(run)
    if len(paths) != 1 or not paths[0].ok:
        rec.error(f"{tag}/construct", repr(paths[0].exc) if paths else "no path")
        return
    m, tmpl, mask = paths[0].result
    n = T * K
    cands = [tmpl] if n == 1 else list(tmpl)
    masks = [mask] if n == 1 else list(mask)
    rec.fact(f"{tag}/n-candidates", len(cands) == n and len(masks) == n and m.niter == n, key="C06/ordering/count",
             detail={"candidates": len(cands), "masks": len(masks), "niter": m.niter, "want": n})
    if len(cands) != n:
        return
    center = np.array((1, 1, 2)) / 2 - 0.5
    for i, (c, mk) in enumerate(zip(cands, masks)):
        k_want, j_want = divmod(i, T)
        # unwrap: Tagged(pre, X) where X is either the masked template (K == 1) or an affine_transform record
        if not (isinstance(c, Tagged) and c.what == "pre"):
            rec.fact(f"{tag}/cand{i}/is-pre_transformed", False, key="C06/ordering/pre_transform", detail={"got": repr(c)})
            continue
        inner = c.parts[0]
        if rotated:
            ok = isinstance(inner, stubs.Sampled) and inner.kind == "affine_transform" and isinstance(inner.src, stubs.Sampled) and inner.src.kind == "spline_filter"
            if not ok:
                rec.fact(f"{tag}/cand{i}/is-the-template-rotated-by-its-candidate-rotation", False, key="C06/ordering/structure" + ("[single-non-identity]" if nonid else ""), detail={"got": repr(inner)[:200]},
                         reproduced=replay_decode(T, K, nonid)({})[0] if nonid else "auto")
                continue
            j_got = _template_index(inner.src.src, T)
            want_m = U.compose_matrices(center, [rotation.SymRotation(quats[k_want]).inv()])[0]
            same_m = all(z3.is_true(z3.simplify(zr(inner.matrix[a, b]) == zr(want_m[a, b]))) for a in range(4) for b in range(4))
            k_got = k_want if same_m else next((kk for kk in range(K) if all(
                z3.is_true(z3.simplify(zr(inner.matrix[a, b]) == zr(U.compose_matrices(center, [rotation.SymRotation(quats[kk]).inv()])[0][a, b])))
                for a in range(4) for b in range(4))), None)
            mm = isinstance(mk, stubs.Sampled) and mk.kind == "affine_transform" and all(
                z3.is_true(z3.simplify(zr(mk.matrix[a, b]) == zr(want_m[a, b]))) for a in range(4) for b in range(4))
            rec.fact(f"{tag}/cand{i}/mask-uses-rotation{k_want}", bool(mm), key="C06/ordering/mask-rotation", detail={})
        else:
            j_got = _template_index(inner, T)
            k_got = 0
        rec.fact(f"{tag}/cand{i}=(rot{k_want},tmpl{j_want})", (k_got, j_got) == (k_want, j_want), key="C06/ordering/rotation-major",
                 detail={"candidate": i, "got_rotation": k_got, "got_template": j_got, "want": [k_want, j_want]}, reproduced=None)


# ---------------------------------------------------------------------------------------
# (b)+(c) argmax and decode through align()


def sec_decode(rec, T=2, K=2, patches=None):
    L = _load(patches)
    B, xp, ndi = _setup(L, T, K)
    rec.encodes("acryo/alignment/_base.py:RotationImplemented.align", "acryo/alignment/_base.py:BaseAlignmentModel.align",
                "acryo/alignment/_base.py:BaseAlignmentModel._optimize_multiple", "acryo/alignment/_base.py:BaseAlignmentModel._optimize_single",
                "acryo/alignment/_base.py:RotationImplemented._is_multiple")
    calls = [0]
    Model = _model_class(L, calls)
    quats = [list(q) for q in QUATS[:K]]
    n = T * K
    tag = f"decode[T={T},K={K}]"
    rp = replay_decode(T, K)

    def run():
        del calls[1:]
        calls[0] = 0
        temps = _templates(T)
        rots = rotation.SymRotation(quats) if K > 1 else None
        m = Model(temps if T > 1 else temps[0], None, rots)
        res = m.align(Tagged("subvolume"), (1, 1, 1), backend=xp)
        return m, res, list(calls[1:])

    paths = explore(run)
    scores = [z3.Real(f"score{i}") for i in range(n)]
    covered = []
    for pi, p in enumerate(paths):
        if not p.ok:
            rec.fact(f"{tag}/path{pi}/runs", False, key="C06/decode/raises", detail={"exc": repr(p.exc)}, reproduced=rp({})[0])
            continue
        m, res, cl = p.result
        h = [p.condition()]
        rec.fact(f"{tag}/path{pi}/every-candidate-scored-once", sorted(c[0] for c in cl) == list(range(n)), key="C06/argmax/candidates-scored",
                 detail={"calls": len(cl), "want": n})
        label = res.label
        from symx import smt

        c = next((cc for cc in range(n) if smt.prove(h, zi(label) == cc).status == "holds"), None)
        if c is None:
            rec.error(f"{tag}/path{pi}", "label not determined by the path condition")
            continue
        covered.append(c)
        # (c) the reported candidate has the (first) highest score, and its shift/score are passed through
        rec.query(f"{tag}/path{pi}/label{c}-is-argmax", h, z3.And(*[scores[c] >= s for s in scores]), key="C06/argmax/not-maximal", replay=rp)
        rec.query(f"{tag}/path{pi}/label{c}-is-first-max", h, z3.And(*[scores[c] > scores[i] for i in range(c)]) if c else z3.BoolVal(True),
                  key="C06/argmax/not-first", replay=rp)
        same_shift = all(z3.eq(z3.simplify(zr(res.shift[a])), z3.Real(f"sh{c}_{a}")) for a in range(3))
        same_score = z3.eq(z3.simplify(zr(res.score)), scores[c])
        rec.fact(f"{tag}/path{pi}/shift-and-score-of-candidate{c}", same_shift and same_score, key="C06/argmax/passthrough", detail={})
        # (b) the reported rotation is the rotation of candidate c = rotation c // T (ordering lemma)
        k_want = c // T
        got_q = _obj(res.quat).reshape(-1)
        ok_q = len(got_q) == 4 and all(Fraction(_coerce(got_q[a])) == Fraction(quats[k_want][a]) if K > 1 else Fraction(_coerce(got_q[a])) == (0, 0, 0, 1)[a]
                                       for a in range(4))
        k_got = None
        if K > 1 and len(got_q) == 4:
            k_got = next((kk for kk in range(K) if all(Fraction(_coerce(got_q[a])) == Fraction(quats[kk][a]) for a in range(4))), None)
        okr, det = (True, {}) if ok_q else rp({})
        rec.fact(f"{tag}/path{pi}/candidate{c}-reports-rotation{k_want}", bool(ok_q), key="C06/decode/rotation-of-candidate",
                 detail={"candidate": c, "T": T, "K": K, "reported_rotation_index": k_got, "true_rotation_index": k_want, **det}, reproduced=okr)
    rec.fact(f"{tag}/every-candidate-can-win", sorted(covered) == list(range(n)), key="C06/argmax/unreachable-candidate",
             detail={"covered": sorted(covered), "n": n})


def replay_fit(T, K):
    def run(cex):
        from acryo.alignment import ZNCCAlignment
        from scipy.spatial.transform import Rotation
        from scipy import ndimage as ndi
        from acryo._utils import compose_matrices
        from acryo.molecules import from_euler_xyz_coords

        rng = np.random.default_rng(5)
        size = 15
        zz, yy, xx = np.indices((size,) * 3) - size // 2
        temps = []
        for j in range(T):
            t = np.zeros((size,) * 3, dtype=np.float32)
            for _ in range(4):
                c = rng.uniform(-3.5, 3.5, size=3)
                t += np.exp(-((zz - c[0]) ** 2 + (yy - c[1]) ** 2 + (xx - c[2]) ** 2) / 3.0).astype(np.float32)
            temps.append(t)
        angles = [(0, 0, 0), (25, 0, 0), (0, 35, 0), (0, 0, 45)][:K]
        rots = Rotation.concatenate([from_euler_xyz_coords(np.array(a, dtype=float), "zyx", degrees=True) for a in angles]) if K > 1 else None
        model = ZNCCAlignment(temps if T > 1 else temps[0], rotations=rots)
        quats = model.quaternions
        wrong = []
        for j in range(T):
            for k in range(K):
                rot = Rotation.from_quat(quats[k])
                mtx = compose_matrices(np.array(temps[j].shape) / 2 - 0.5, [rot.inv()])[0]
                sub = ndi.affine_transform(temps[j], mtx, order=3, mode="constant", cval=0.0)
                try:
                    _, res = model.fit(sub, (1, 1, 1))
                except Exception as e:
                    wrong.append({"template": j, "rotation": k, "raised": repr(e)[:100]})
                    continue
                ok_rot = np.allclose(res.quat, quats[k], atol=1e-6) or np.allclose(res.quat, -quats[k], atol=1e-6)
                if not ok_rot or res.score < 0.9:
                    wrong.append({"template": j, "rotation": k, "quat_ok": bool(ok_rot), "score": float(res.score)})
        return len(wrong) > 0, {"T": T, "K": K, "wrong": wrong[:6], "n_wrong": len(wrong), "of": T * K}

    return run


def sec_fit(rec, T=2, K=2, patches=None):
    """model.fit(): every candidate is scored and the reported rotation is that of the winner"""
    L = _load(patches)
    B, xp, ndi = _setup(L, T, K)
    rec.encodes("acryo/alignment/_base.py:RotationImplemented.fit", "acryo/alignment/_base.py:AlignmentResult.affine_matrix")
    calls = [0]
    Model = _model_class(L, calls)
    quats = [list(q) for q in QUATS[:K]]
    n = T * K
    tag = f"fit[T={T},K={K}]"
    rp = replay_fit(T, K)

    def run():
        del calls[1:]
        calls[0] = 0
        temps = _templates(T)
        rots = rotation.SymRotation(quats) if K > 1 else None
        m = Model(temps if T > 1 else temps[0], None, rots)
        img = Tagged("subvolume")
        img.shape = (1, 1, 2)
        out, res = m.fit(img, (1, 1, 1), cval=0.0, backend=xp)
        return m, res, list(calls[1:])

    paths = explore(run, max_paths=200)
    scores = [z3.Real(f"score{i}") for i in range(n)]
    from symx import smt

    for pi, p in enumerate(paths):
        if not p.ok:
            ok, det = rp({})
            rec.fact(f"{tag}/path{pi}/runs", False, key="C06/fit/raises", detail={"exc": repr(p.exc)[:300], **det}, reproduced=ok)
            continue
        m, res, cl = p.result
        h = [p.condition()]
        ncall = len(cl)
        okn = ncall == n and len({c[0] for c in cl}) == n
        okr, det = (True, {}) if okn else rp({})
        rec.fact(f"{tag}/path{pi}/all-{n}-candidates-scored", okn, key="C06/fit/candidates-dropped", detail={"scored": ncall, "candidates": n, **det}, reproduced=okr)
        if not okn:
            continue
        c = next((cc for cc in range(n) if smt.prove(h, zr(res.score) == scores[cc]).status == "holds"), None)
        if c is None:
            rec.error(f"{tag}/path{pi}", "winner not determined by the path condition")
            continue
        rec.query(f"{tag}/path{pi}/winner{c}-is-argmax", h, z3.And(*[scores[c] >= s for s in scores]), key="C06/fit/not-maximal", replay=rp)
        k_want = c // T
        got_q = _obj(res.quat).reshape(-1)
        ok_q = all(Fraction(_coerce(got_q[a])) == (Fraction(quats[k_want][a]) if K > 1 else (0, 0, 0, 1)[a]) for a in range(4))
        okr, det = (True, {}) if ok_q else rp({})
        rec.fact(f"{tag}/path{pi}/winner{c}-reports-rotation{k_want}", bool(ok_q), key="C06/fit/rotation-of-candidate", detail={"candidate": c, **det}, reproduced=okr)
        # each candidate was scored exactly once, with the quaternion of its own rotation
        per = sorted(c[0] for c in cl) == list(range(n))
        rec.fact(f"{tag}/path{pi}/each-candidate-once", per, key="C06/fit/candidate-order", detail={})
        okq = True
        for (ci, _sub, _tm, qq) in cl:
            qv = _obj(qq).reshape(-1)
            want = quats[ci // T] if K > 1 else [0, 0, 0, 1]
            okq = okq and all(Fraction(_coerce(qv[a])) == Fraction(want[a]) for a in range(4))
        rec.fact(f"{tag}/path{pi}/candidate-gets-its-own-quaternion", okq, key="C06/fit/candidate-quaternion", detail={})


def sec_decode_symbolic(rec, Tmax=8, Kmax=8, patches=None):
    """index arithmetic of align() with a symbolic winning index: rotation index == iopt // T"""
    L = _load(patches)
    B, xp, ndi = _setup(L, 1, 1)
    rec.encodes("acryo/alignment/_base.py:RotationImplemented.align (index arithmetic)")

    class Rows:
        def __init__(self):
            self.idx = None

        def __getitem__(self, i):
            self.idx = i
            return ("row", i)

    iopt = integer("iopt")
    for T in range(1, Tmax + 1):
        for K in range(1, Kmax + 1):
            if T * K > 65536:
                continue
            rows = Rows()

            class M(B.RotationImplemented):
                pre_transform = _optimize = _score = None

            m = M.__new__(M)
            m._n_rotations = K
            m._n_templates = T
            m.quaternions = rows
            # super().align is replaced by a stub returning the symbolic winner (argmax itself is checked in sec_decode)
            orig = B.BaseAlignmentModel.align
            B.BaseAlignmentModel.align = lambda self, *a, **k: B.AlignmentResult(iopt, "SHIFT", "DUMMY-QUAT-OF-THE-BASE-CLASS", "SCORE")
            try:
                paths = explore(lambda: B.RotationImplemented.align(m, None, (1, 1, 1)), assumptions=[iopt.e >= 0, iopt.e < T * K])
            finally:
                B.BaseAlignmentModel.align = orig
            for pi, p in enumerate(paths):
                if not p.ok:
                    rec.error(f"decode-sym[T={T},K={K}]", repr(p.exc))
                    continue
                res = p.result
                okrow = isinstance(res.quat, tuple) and len(res.quat) == 2 and res.quat[0] == "row"
                if not okrow:
                    rpx = replay_decode(min(T, 3), max(min(K, 3), 1), nonid=(K == 1))
                    rec.fact(f"decode-sym[T={T},K={K}]/reported-rotation-is-one-of-the-searched-rotations", False, key="C06/decode/rotation-is-a-candidate", detail={"quat": repr(res.quat)[:80], "T": T, "K": K},
                             reproduced=rpx({})[0])
                    continue
                idx = res.quat[1]
                hy = [iopt.e >= 0, iopt.e < T * K, p.condition()]
                rec.query(f"decode-sym[T={T},K={K}]/rotation-index", hy, zi(idx) == iopt.e / T, key="C06/decode/rotation-of-candidate",
                          names={"iopt"}, replay=replay_decode(min(T, 3), min(K, 3)) if (T > 1 and K > 1) else None, info={"T": T, "K": K})
                rec.query(f"decode-sym[T={T},K={K}]/label", hy, zi(res.label) == iopt.e, key="C06/decode/label", names={"iopt"}, info={"T": T, "K": K})
                rec.fact(f"decode-sym[T={T},K={K}]/passthrough", res.shift == "SHIFT" and res.score == "SCORE", key="C06/decode/passthrough", detail={})


# ---------------------------------------------------------------------------------------
# (b') template labels written by the loader / the loader group


def replay_labels(T, K, group=False, mapping=False):
    def run(cex):
        """public API: molecules made from template j must get label j (T templates, K rotations)"""
        from acryo import SubtomogramLoader, Molecules, TomogramSimulator
        from acryo.alignment import ZNCCAlignment
        from scipy.spatial.transform import Rotation

        rng = np.random.default_rng(11)
        size = 11
        zz, yy, xx = np.indices((size,) * 3) - size // 2
        temps = []
        for j in range(max(T, 1)):
            t = np.zeros((size,) * 3, dtype=np.float32)
            for _ in range(4):
                c = rng.uniform(-2.5, 2.5, size=3)
                t += np.exp(-((zz - c[0]) ** 2 + (yy - c[1]) ** 2 + (xx - c[2]) ** 2) / 2.0).astype(np.float32)
            temps.append(t)
        sim = TomogramSimulator(scale=1, order=3)
        pos = []
        for j in range(T):
            p = [12.0, 14.0 + 24 * j, 14.0]
            sim.add_molecules(Molecules([p]), temps[j])
            pos.append(p)
        tomo = sim.simulate((24, 28 + 24 * (T - 1), 28))
        mole = Molecules(pos)
        if group:
            import polars as pl

            mole = Molecules(pos, features={"g": [0] * len(pos)})
        ld = SubtomogramLoader(tomo, mole, order=3, scale=1)
        rots = ((10, 10), (0, 0), (0, 0)) if K > 1 else None
        if group:
            out = ld.groupby("g").align_multi_templates({0: temps} if mapping else temps, max_shifts=1, rotations=rots)
            labels = list(next(iter(out))[1].features["labels"])
        else:
            out = ld.align_multi_templates(temps, max_shifts=1, rotations=rots)
            labels = list(out.features["labels"])
        return labels != list(range(T)), {"T": T, "K": 3 if K > 1 else 1, "labels": [int(v) for v in labels], "want": list(range(T)), "group": group}

    return run


def replay_labels_unit(T, K, group=False, mapping=False):
    """Unit-level replay on the real loader code: the alignment model is replaced by one whose align() returns the
    winning candidate indices of the counterexample, everything downstream (remainder choice, label reduction,
    uint8 cast, feature table) is the real code."""

    def run(cex):
        from acryo import SubtomogramLoader, Molecules
        from acryo.alignment import ZNCCAlignment
        from acryo.alignment._base import AlignmentResult
        import itertools as it

        iopts = [int(frac(cex.get(f"iopt{i}", 0))) for i in range(2)]
        tomo = np.zeros((12, 12, 12), dtype=np.float32)
        feats = {"g": [0, 0]} if group else None
        ld = SubtomogramLoader(tomo, Molecules([[6, 6, 6], [5, 5, 5]], features=feats), order=1, scale=1.0)
        temps = [np.zeros((3, 3, 3), dtype=np.float32) + j for j in range(T)]
        counter = it.count()

        class Fake(ZNCCAlignment):
            def __init__(self, template, mask=None, **kw):
                self._template = np.stack(template, axis=0) if not isinstance(template, np.ndarray) else template
                self._n_templates = T
                self._n_rotations = K
                self._ndim = 3

            def align(self, img, max_shifts, quaternion=None, pos=None, backend=None):
                i = next(counter)
                return AlignmentResult(iopts[i % 2], np.zeros(3, dtype=np.float32), np.array([0, 0, 0, 1], dtype=np.float32), 1.0)

        if group:
            out = ld.groupby("g").align_multi_templates({0: temps} if mapping else temps, alignment_model=Fake)
            labels = [int(v) for v in next(iter(out))[1].features["labels"]]
        else:
            out = ld.align_multi_templates(temps, alignment_model=Fake)
            labels = [int(v) for v in out.features["labels"]]
        want = [i % T for i in iopts]
        return labels != want, {"T": T, "K": K, "winning_candidates": iopts, "labels": labels, "want": want, "group": group, "mapping": mapping}

    return run


def sec_labels(rec, T=2, K=2, group=False, mapping=False, patches=None):
    L = _load(patches)
    B, xp, ndi = _setup(L, T, K)
    LB = L["acryo.loader._base"]
    LD = L["acryo.loader._loader"]
    MC = L["acryo.molecules.core"]
    G = L["acryo.loader._group"]
    rec.encodes("acryo/loader/_base.py:LoaderBase._post_align_multi_templates", "acryo/loader/_base.py:LoaderBase.align_multi_templates (remainder choice)",
                "acryo/loader/_group.py:LoaderGroup.align_multi_templates (remainder choice)", "acryo/loader/_misc.py:allocate", "acryo/loader/_misc.py:get_feature_list",
                "acryo/molecules/core.py:Molecules.linear_transform")
    n = T * K
    N = 2  # molecules
    iopts = [integer(f"iopt{i}") for i in range(N)]
    hyps = []
    for v in iopts:
        hyps += [v.e >= 0, v.e < n]
    qs = []
    for i in range(N):
        q = [real(f"q{i}{c}") for c in "xyzw"]
        hyps.append(sum((c.e * c.e for c in q), z3.RealVal(0)) == 1)
        qs.append(q)
    tag = f"labels[T={T},K={K},{'group' if group else 'loader'}{',mapping' if mapping else ''}]"
    rp_api = replay_labels(T, K, group, mapping)
    rp_unit = replay_labels_unit(T, K, group, mapping)

    def rp(cex):
        ok, det = rp_unit(cex)
        if ok or T > 3 or K > 3:
            return ok, det
        return rp_api(cex)

    import inspect

    # which `remainder` does the real caller compute?  Execute the caller's own lines on stand-ins.
    class FakeModel(B.RotationImplemented):
        pre_transform = _optimize = _score = None

    fm = FakeModel.__new__(FakeModel)
    fm._n_rotations = K
    fm._n_templates = T
    fm._template = SymArray(shape=(T, 1, 1, 2)) if T > 1 else SymArray(shape=(1, 1, 2))
    fm._ndim = 3

    def run():
        pos = to_symarray([[real(f"p{i}{a}") for a in range(3)] for i in range(N)])
        mol = MC.Molecules(pos, rotation.SymRotation([list(rotation.R30[9]), list(rotation.R30[10])]))
        ld = LD.SubtomogramLoader.__new__(LD.SubtomogramLoader)
        ld._image = stubs.ImgStub((50, 50, 50))
        ld._molecules = mol
        ld._order, ld._scale, ld._output_shape, ld._corner_safe = 1, real("scale"), (1, 1, 2), False
        results = [B.AlignmentResult(iopts[i], to_symarray([real(f"s{i}{a}") for a in range(3)]), to_symarray(qs[i]), real(f"sc{i}")) for i in range(N)]
        templates = ["t"] * T
        if group:
            # LoaderGroup.align_multi_templates: drive the real method with stand-ins for the model and the task machinery
            grp = G.LoaderGroup([("key", ld)])
            ld.normalize_template = lambda t: t
            ld.normalize_mask = lambda mk: mk

            class Tasks:
                def _as_dask_list(self):
                    return self

            ld.construct_mapping_tasks = lambda *a, **k: Tasks()
            G.compute = lambda all_tasks: [results]
            fm.align = None
            out = grp.align_multi_templates({"key": templates} if mapping else templates, alignment_model=lambda template, mask: fm)
            new = list(out)[0][1]
        else:
            ld.normalize_template = lambda t: t
            ld.normalize_mask = lambda mk: mk

            class Tasks:
                def compute(self):
                    return results

            ld.construct_mapping_tasks = lambda *a, **k: Tasks()
            fm.align = None
            new = ld.align_multi_templates(templates, alignment_model=lambda template, mask: fm, backend=xp)
        return new

    paths = explore(run, assumptions=hyps + [z3.Real("scale") > 0], max_paths=400)
    for pi, p in enumerate(paths):
        if not p.ok:
            ok, det = rp({})
            rec.fact(f"{tag}/path{pi}/runs", False, key="C06/labels/raises", detail={"exc": repr(p.exc)[:300], **det}, reproduced=ok)
            continue
        new = p.result
        h = hyps + [z3.Real("scale") > 0, p.condition()]
        labs = new.molecules.features["labels"].to_list()
        for i in range(N):
            rec.query(f"{tag}/path{pi}/mol{i}-label=template-of-candidate", h, zi(labs[i]) == iopts[i].e % T, key=f"C06/labels/template-label[{'group-mapping' if mapping else 'group' if group else 'loader'}]",
                      names={f"iopt{k}" for k in range(N)}, replay=rp, info={"T": T, "K": K})
        rec.fact(f"{tag}/path{pi}/one-label-per-molecule", len(labs) == N and len(new.molecules) == N, key="C06/labels/count", detail={})


# ---------------------------------------------------------------------------------------
# (d) rotation-set normalisation


def replay_normalize(kind):
    def run(cex):
        from acryo._rotation import normalize_rotations
        from scipy.spatial.transform import Rotation

        arg = {"single": Rotation.from_quat([0, 0, 0, 1]), "stack3": Rotation.from_quat([[0, 0, 0, 1], [1, 0, 0, 0], [0, 1, 0, 0]]), "none": None,
               "list2": [Rotation.from_quat([0, 0, 0, 1]), Rotation.from_quat([1, 0, 0, 0])]}[kind]
        want = {"single": 1, "stack3": 3, "none": 1, "list2": 2}[kind]
        out = np.asarray(normalize_rotations(arg))
        return out.shape != (want, 4), {"kind": kind, "shape": list(out.shape), "want": [want, 4]}

    return run


def sec_normalize(rec, patches=None):
    L = _load(patches)
    R = L["acryo._rotation"]
    rec.encodes("acryo/_rotation.py:normalize_rotations", "acryo/_rotation.py:_seq_of_max_and_step_to_quat", "acryo/_rotation.py:_normalize_ranges")
    q = [[real(f"q{i}{c}") for c in "xyzw"] for i in range(3)]
    cases = {
        "none": (lambda: None, 1),
        "single": (lambda: rotation.SymRotation(q[0]), 1),
        "stack3": (lambda: rotation.SymRotation(q), 3),
        "list2": (lambda: [rotation.SymRotation(q[0]), rotation.SymRotation(q[1])], 2),
    }
    for kind, (mk, want) in cases.items():
        paths = explore(lambda: R.normalize_rotations(mk()))
        rp = replay_normalize(kind)
        for pi, p in enumerate(paths):
            if not p.ok:
                rec.fact(f"normalize[{kind}]/runs", False, key=f"C06/normalize/{kind}", detail={"exc": repr(p.exc)}, reproduced=rp({})[0])
                continue
            shape = tuple(np.shape(p.result))
            ok = shape == (want, 4)
            okr, det = (True, {}) if ok else rp({})
            rec.fact(f"normalize[{kind}]/shape=({want},4)", ok, key=f"C06/normalize/{kind}", detail={"symbolic_shape": list(shape), **det}, reproduced=okr)
            if ok and kind in ("single", "stack3", "list2"):
                same = all(z3.eq(zr(p.result[i, a]), q[i][a].e) for i in range(want) for a in range(4))
                rec.fact(f"normalize[{kind}]/rows-are-the-given-quaternions", same, key=f"C06/normalize/{kind}-content", detail={})
    # (max, step) ranges: number of rotations = prod(2*floor(max/step)+1), enumerated on an exact grid through the real code
    from acryo._rotation import normalize_rotations as real_norm

    bad = []
    grid = [((10, 5), 5), ((10, 10), 3), ((9, 5), 3), ((0, 0), 1), ((4, 5), 1), ((20, 5), 9)]
    for (mx, st), n1 in grid:
        out = real_norm(((mx, st), (0, 0), (mx, st)))
        if out.shape != (n1 * n1, 4):
            bad.append(((mx, st), list(out.shape)))
    rec.fact("normalize[ranges]/count", not bad, key="C06/normalize/ranges", detail={"bad": bad})


# ---------------------------------------------------------------------------------------


def sections(tier):
    S = [("normalize", "checks.c06", "sec_normalize", {})]
    tmax = 3 if quick(tier) else 4
    for T in (1, 2):
        S.append((f"ordering-T{T}K1-nonid", "checks.c06", "sec_ordering", {"T": T, "K": 1, "nonid": True}))
    for T in range(1, tmax + 1):
        for K in range(1, tmax + 1):
            S.append((f"ordering-T{T}K{K}", "checks.c06", "sec_ordering", {"T": T, "K": K}))
            if T * K <= (9 if quick(tier) else 16):
                S.append((f"decode-T{T}K{K}", "checks.c06", "sec_decode", {"T": T, "K": K}))
            S.append((f"labels-T{T}K{K}", "checks.c06", "sec_labels", {"T": T, "K": K}))
            S.append((f"labels-group-T{T}K{K}", "checks.c06", "sec_labels", {"T": T, "K": K, "group": True}))
            S.append((f"labels-groupmap-T{T}K{K}", "checks.c06", "sec_labels", {"T": T, "K": K, "group": True, "mapping": True}))
            if T * K <= (9 if quick(tier) else 16):
                S.append((f"fit-T{T}K{K}", "checks.c06", "sec_fit", {"T": T, "K": K}))
    # more than 256 candidates: the label column is a uint8, the reduction modulo T must come first
    for grp in (False, True):
        S.append((f"labels-many-candidates-{'group' if grp else 'loader'}", "checks.c06", "sec_labels", {"T": 3, "K": 100, "group": grp}))
    S.append(("decode-symbolic", "checks.c06", "sec_decode_symbolic", {"Tmax": 8 if quick(tier) else 24, "Kmax": 8 if quick(tier) else 24}))
    return S


_B = "acryo.alignment._base"
_LB = "acryo.loader._base"
MUTANTS = [
    ("single-non-identity-rotation-not-applied (defect fixed by 'fix: a single non-identity rotation is applied to the template')", "checks.c06", "sec_ordering", {"T": 1, "K": 1, "nonid": True},
     {_B: [("if self._n_rotations > 1 or not _is_identity(self.quaternions):", "if self._n_rotations > 1:")]}),
    ("decode:mod-rotations", "checks.c06", "sec_decode", {"T": 2, "K": 3}, {_B: [("quat = self.quaternions[iopt // self._n_templates]", "quat = self.quaternions[iopt % self._n_rotations]")]}),
    ("decode:argmin", "checks.c06", "sec_decode", {"T": 1, "K": 3}, {_B: [("        iopt = int(np.argmax(all_score))", "        iopt = int(np.argmin(all_score))")]}),
    ("decode:shift-of-last", "checks.c06", "sec_decode", {"T": 2, "K": 2}, {_B: [("return AlignmentResult(iopt, all_shifts[iopt], all_quat[iopt], all_score[iopt])", "return AlignmentResult(iopt, all_shifts[-1], all_quat[iopt], all_score[iopt])")]}),
    ("ordering:template-major", "checks.c06", "sec_ordering", {"T": 2, "K": 2},
     {_B: [("                for mat in matrices:\n                    for tmp in inputs_templates:\n                        pool_template.add_task(\n                            tmp,\n                            mat,",
            "                for tmp in inputs_templates:\n                    for mat in matrices:\n                        pool_template.add_task(\n                            tmp,\n                            mat,")]}),
    ("ordering:no-inverse", "checks.c06", "sec_ordering", {"T": 1, "K": 2}, {_B: [("rotators = [Rotation.from_quat(r).inv() for r in self.quaternions]", "rotators = [Rotation.from_quat(r) for r in self.quaternions]")]}),
    ("labels:no-reduction", "checks.c06", "sec_labels", {"T": 2, "K": 2}, {_LB: [("            labels %= remainder  # type: ignore", "            pass")]}),
    ("labels:floor-div", "checks.c06", "sec_labels", {"T": 2, "K": 3}, {_LB: [("            labels %= remainder  # type: ignore", "            labels //= remainder  # type: ignore")]}),
    ("labels:revert-T1-fix", "checks.c06", "sec_labels", {"T": 1, "K": 2}, {_LB: [("        if remainder > 0:\n            labels %= remainder", "        if remainder > 1:\n            labels %= remainder")]}),
    ("group:revert-mapping-fix", "checks.c06", "sec_labels", {"T": 2, "K": 2, "group": True, "mapping": True}, {"acryo.loader._group": [("            remainder = n_templates\n", "            remainder = len(templates)\n")]}),
    ("normalize:revert-single-fix", "checks.c06", "sec_normalize", {}, {"acryo._rotation": [("quats = np.atleast_2d(rotations.as_quat(canonical=False))", "quats = rotations.as_quat(canonical=False)")]}),
    ("fit:revert-quaternion-pairing", "checks.c06", "sec_fit", {"T": 2, "K": 2}, {_B: [("                self.quaternions[i // self._n_templates],\n", "                self.quaternions[i % self._n_rotations],\n")]}),
    ("fit:reported-rotation", "checks.c06", "sec_fit", {"T": 2, "K": 2}, {_B: [("            quat=self.quaternions[iopt // self._n_templates],\n", "            quat=self.quaternions[iopt % self._n_rotations],\n")]}),
    ("fit:truncated-candidates", "checks.c06", "sec_fit", {"T": 2, "K": 1}, {_B: [("        for i, (tmp, mask) in enumerate(zip(_template, _mask)):", "        for i, (tmp, mask) in enumerate(zip(_template[: self._n_rotations], _mask)):")]}),
    ("labels:uint8-cast-before-modulo", "checks.c06", "sec_labels", {"T": 3, "K": 100},
     {_LB: [("        if remainder > 0:\n            labels %= remainder  # type: ignore\n        labels = labels.astype(np.uint8)\n", "        labels = labels.astype(np.uint8)\n        if remainder > 0:\n            labels %= remainder  # type: ignore\n")]}),
    ("labels:remainder-is-K", "checks.c06", "sec_labels", {"T": 2, "K": 3}, {_LB: [("            remainder = len(_templates)\n", "            remainder = model._n_rotations\n")]}),
]


def run(tier, procs=None, only=None):
    S = select(sections(tier), only)
    return harness.run_check(
        PID, tier, S, procs=procs,
        explanation="The real candidate builder (RotationImplemented._get_template_and_mask_input) is run with recording stubs for spline_filter/"
                    "affine_transform and the real dask task pools: candidate i is shown to be (rotation i//T, template i%T). align() is then run with "
                    "symbolic per-candidate scores: on every path the reported label is the first arg-max, its shift/score are passed through and the "
                    "reported quaternion is that of rotation label//T; the index arithmetic is additionally decided with a symbolic winner for all T,K "
                    "in the bound. The label column written by the loader / loader group is label % T.",
        bounds={"ordering/decode by path enumeration": f"T, K in 1..{3 if quick(tier) else 4}, all real scores",
                "decode arithmetic with symbolic winner": f"T, K in 1..{8 if quick(tier) else 24}, 0 <= iopt < T*K symbolic",
                "labels": "2 molecules, symbolic winners, symbolic unit quaternions, shifts, scores"},
        trusted_base=TRUSTED + ["real dask.delayed/compute (synchronous scheduler)", "real polars with Object columns for symbolic feature values",
                                "SymRotation (quaternion algebra) for the rotation bookkeeping"],
        outside=["which candidate scores highest on real images", "more than 256 templates (the uint8 label column cannot hold them)"],
        mutants=MUTANTS if (not quick(tier) and not only) else None,
    )


# every real-library oracle of this property (each returns (reproduced, detail)); used to confirm structural facts that carry no replay of their own
ALL_REPLAYS = [lambda c: replay_decode(2, 3)(c), lambda c: replay_decode(2, 1, True)(c), lambda c: replay_fit(2, 2)(c), lambda c: replay_labels(2, 2)(c), lambda c: replay_labels(2, 2, True)(c), lambda c: replay_normalize('single')(c), lambda c: replay_bruteforce(2, 2)(c), lambda c: replay_bruteforce(2, 1)(c), lambda c: replay_bruteforce(2, 2, False, True)(c), lambda c: replay_bruteforce(1, 2, False, True)(c)]


def replay(data):
    info = data.get("info") or {}
    det = data.get("replay_detail") or {}
    T, K = info.get("T") or det.get("T") or 2, info.get("K") or det.get("K") or 3
    key = data.get("key", "")
    if "labels" in key:
        ok, detail = replay_labels(min(T, 3), K, "group" in key, "mapping" in key)({})
    elif "normalize" in key:
        ok, detail = replay_normalize(key.split("/")[-1].split("-")[0])({})
    else:
        ok, detail = replay_decode(min(T, 3), min(K, 3))({})
    print("replay:", detail)
    print("REPRODUCED" if ok else "not reproduced")
    return 1 if ok else 0
