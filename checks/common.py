"""Shared helpers for the per-property harness modules."""
from __future__ import annotations

import os
from fractions import Fraction

import z3

from symx import load, rotation, stubs
from symx.core import Sym, integer, real

TRUSTED = [
    "z3 5.1 (wheel) as the deciding solver",
    "symx engine (proxy scalars, path explorer, SymArray) -- validated per run by concrete translator tests",
    "CPython 3.12 semantics of the executed acryo source",
]


def quick(tier):
    return tier != "thorough"


def select(sections, only):
    if not only:
        return sections
    return [s for s in sections if any(s[0].startswith(o) for o in only)]


def frac(v):
    """cex value (possibly {'frac': 'a/b'} after json) -> Fraction/int"""
    if isinstance(v, dict) and "frac" in v:
        a, b = v["frac"].split("/")
        return Fraction(int(a), int(b))
    return v


def fl(v):
    v = frac(v)
    return float(v) if isinstance(v, Fraction) else v


def sym_vec(stem, n=3, kind=real):
    return [kind(f"{stem}{i}") for i in range(n)]


def sym_mat(stem):
    return [[real(f"{stem}{i}{j}") for j in range(3)] for i in range(3)]


def unit_quat(stem):
    q = [real(f"{stem}{c}") for c in "xyzw"]
    hyp = sum((c.e * c.e for c in q), z3.RealVal(0)) == 1
    return q, hyp


def zsum(terms):
    out = z3.RealVal(0)
    for t in terms:
        out = out + t
    return out


import z3 as _z3
from fractions import Fraction as _Fraction


def ratz(t):
    """exact-real reading of a term computed by the real code in float32/float64: every rational numeral with a huge denominator
    (a rounded k/20 mesh constant or a max_shifts literal such as 1.3) is replaced by the nearest fraction with denominator <= 10^4"""
    t = t if isinstance(t, _z3.ExprRef) else _zr(t)
    subs, seen, stack = [], set(), [t]
    while stack:
        u = stack.pop()
        if u.get_id() in seen:
            continue
        seen.add(u.get_id())
        if _z3.is_rational_value(u):
            f = _Fraction(u.as_fraction())
            if f.denominator > 10 ** 6:
                g = f.limit_denominator(10 ** 4)
                if abs(float(g) - float(f)) < 1e-6:
                    subs.append((u, _z3.RealVal(g)))
        else:
            stack.extend(u.children())
    return _z3.substitute(t, *subs) if subs else t




def _zr(x):
    from symx.core import lift, _real, _coerce

    return _real(lift(_coerce(x)))
