"""C18 -- PCA classification: the arithmetic acryo's own Python code wraps around the SVD / k-means kernels, and the label write-back.

What is decided here (bounded, by z3 over symbolic data):
 (A) DaskPCA (real source of acryo/classification/_dask_pca.py) on a symbolic N x F data matrix, with `da.linalg.svd` replaced by a
     *contract stub* (returns symbolic U, S, Vt; the contract A = U diag(S) Vt, Vt Vt^T = I is available as a hypothesis): the matrix handed
     to the SVD is the column-centred data, mean_ is the column mean, components_/singular_values_/explained_variance_ are the leading rows /
     entries of what the SVD returned, transform(Y) = (Y - mean_) Vt[:n]^T, and under the contract transform(X) = U[:, :n] S[:n] = fit_transform(X).
 (B) PcaClassifier (real source) with recording PCA / k-means stand-ins: what is fitted and transformed is image_i * mask flattened in C order,
     row i <-> image i; labels, split_clusters, predict, get_transform(labels=...), get_bases follow the row order.
 (C) LoaderBase.classify on the stand-in loader of C03: row i of the stack is masked_difference(sub-tomogram of molecule i, quaternion of
     molecule i) of a ZNCC model built from (template or average, mask, cutoff, tilt); label i is written to row i of a new feature column;
     positions, orientations, other features and the original loader are untouched.
 (D) TomographyInput.masked_difference on a tiny symbolic box: ifftn((F(image*mask) - F(template*mask)) * wedge) voxel by voxel.
NOT decided (stated in MANIFEST/evidence): that LAPACK/dask's tall-skinny QR return the SVD, the randomized solver (selected by the real
code for stacks with more than 500 features), sign conventions of the singular vectors, k-means itself ("clearly separated groups get
distinct clusters").
"""
from __future__ import annotations

import itertools
import sys
import types
from fractions import Fraction

import numpy as np
import z3

from symx import harness, load, rotation, stubs, smt
from symx.arrays import SymArray, to_symarray, _obj
from symx.core import Sym, explore, integer, lift, real, _real, _coerce
from symx.plshim import PlShim

from .common import TRUSTED, fl, quick, select

PID = "C18"


def zr(x):
    return _real(lift(_coerce(x)))


# ---------------------------------------------------------------------------------------
# eager stand-in for dask.array (numpy meaning, object arrays of symbolic entries)


class EA:
    """eager 'dask array': every operation has its numpy meaning and returns a new array (dask arrays are immutable)"""

    def __init__(self, a):
        self.a = _obj(a.a if isinstance(a, EA) else a)

    shape = property(lambda self: self.a.shape)
    ndim = property(lambda self: self.a.ndim)
    dtype = np.dtype(np.float32)

    @staticmethod
    def _u(x):
        return x.a if isinstance(x, EA) else x

    def _new(self, a):
        return EA(np.asarray(a, dtype=object))

    def mean(self, axis=None, **k):
        a = self.a
        n = a.shape[axis] if axis is not None else a.size
        return self._new(a.sum(axis=axis) / n) if axis is not None else a.sum() / n

    def sum(self, axis=None, **k):
        r = self.a.sum(axis=axis)
        return self._new(r) if isinstance(r, np.ndarray) else r

    def var(self, *a, **k):
        raise NotImplementedError("var")

    def __sub__(self, o):
        return self._new(self.a - self._u(o))

    def __rsub__(self, o):
        return self._new(self._u(o) - self.a)

    __isub__ = __sub__

    def __add__(self, o):
        return self._new(self.a + self._u(o))

    __radd__ = __add__
    __iadd__ = __add__

    def __mul__(self, o):
        return self._new(self.a * self._u(o))

    __rmul__ = __mul__
    __imul__ = __mul__

    def __truediv__(self, o):
        return self._new(self.a / self._u(o))

    __itruediv__ = __truediv__

    def __pow__(self, k):
        return self._new(self.a ** k)

    def __eq__(self, o):
        return np.asarray(self.a == self._u(o))

    __hash__ = None

    def __getitem__(self, key):
        key = self._u(key)
        if isinstance(key, tuple):
            key = tuple(self._u(k) for k in key)
        r = self.a[key]
        return self._new(r) if isinstance(r, np.ndarray) else r

    def __len__(self):
        return self.a.shape[0]

    @property
    def T(self):
        return self._new(self.a.T)

    def reshape(self, *shape):
        return self._new(self.a.reshape(*shape))

    def rechunk(self, *a, **k):
        return self

    def astype(self, *a, **k):
        return self

    def compute(self, **k):
        return self.a.view(SymArray) if self.a.dtype == object else self.a

    def __array__(self, *a, **k):
        return self.a


class _Delayed:
    def __init__(self, v):
        self.v = v

    def compute(self):
        return self.v


def _delayed(fn):
    return lambda *a, **k: _Delayed(fn(*a, **k))


class _Linalg:
    def __init__(self, owner):
        self.owner = owner

    def svd(self, X):
        return self.owner.svd(X)

    def svd_compressed(self, X, k, **kw):
        raise NotImplementedError("randomized solver is outside the claim")


class DaShim:
    """dask.array for the PCA modules"""

    Array = EA

    def __init__(self):
        self.linalg = _Linalg(self)
        self.svd_calls = []
        self.svd_result = None

    def svd(self, X):
        A = EA(X).a
        n, f = A.shape
        r = min(n, f)
        U = np.empty((n, r), dtype=object)
        S = np.empty((r,), dtype=object)
        V = np.empty((r, f), dtype=object)
        k = len(self.svd_calls)
        for i in range(n):
            for j in range(r):
                U[i, j] = real(f"U{k}_{i}_{j}")
        for j in range(r):
            S[j] = real(f"S{k}_{j}")
            for c in range(f):
                V[j, c] = real(f"V{k}_{j}_{c}")
        self.svd_calls.append((A, U, S, V))
        return EA(U), EA(S), EA(V)

    @staticmethod
    def from_array(x, *a, **k):
        return x if isinstance(x, EA) else EA(x)

    @staticmethod
    def dot(a, b):
        A, B = _obj(EA._u(a)), _obj(EA._u(b))
        out = np.empty((A.shape[0], B.shape[1]), dtype=object)
        for i in range(A.shape[0]):
            for j in range(B.shape[1]):
                acc = 0
                for k in range(A.shape[1]):
                    acc = acc + A[i, k] * B[k, j]
                out[i, j] = acc
        return EA(out)

    @staticmethod
    def compute(*args, **k):
        return tuple(a.compute() if hasattr(a, "compute") else a for a in args)

    @staticmethod
    def mean(x, **k):
        return x.mean(**k)

    @staticmethod
    def log(x):
        return np.log(x)


class _DaskMod:
    @staticmethod
    def is_dask_collection(x):
        return isinstance(x, EA)


def _load_pca(patches=None):
    da = DaShim()
    L = load.load(["acryo.classification._dask_pca", "acryo.classification.pca"], overrides={"da": da, "dask": _DaskMod, "delayed": _delayed, "np": np}, patches=patches)
    L.da = da
    return L


def contract(call):
    """the SVD contract for one recorded call: A = U diag(S) Vt, rows of Vt orthonormal, S descending and non-negative"""
    A, U, S, V = call
    n, f = A.shape
    r = len(S)
    out = []
    for i in range(n):
        for c in range(f):
            out.append(zr(A[i, c]) == sum((zr(U[i, j]) * zr(S[j]) * zr(V[j, c]) for j in range(r)), z3.RealVal(0)))
    for j in range(r):
        for k in range(j, r):
            out.append(sum((zr(V[j, c]) * zr(V[k, c]) for c in range(f)), z3.RealVal(0)) == (1 if j == k else 0))
    for j in range(r):
        out.append(zr(S[j]) >= (zr(S[j + 1]) if j + 1 < r else 0))
    return out


# ---------------------------------------------------------------------------------------
# replay on the installed library


def replay_pca(cex):
    """installed library: DaskPCA / PcaClassifier against numpy's exact SVD of the centred (masked) data, several chunkings"""
    import dask.array as da
    from acryo.classification import PcaClassifier
    from acryo.classification._dask_pca import DaskPCA

    rng = np.random.default_rng(0)
    bad = {}
    for (n, f, k) in ((7, 5, 2), (6, 12, 3), (9, 4, 4)):
        X = rng.normal(size=(n, f)) * np.linspace(3, 0.5, f) + rng.normal(size=f) * 2
        Xc = X - X.mean(axis=0)
        U, S, Vt = np.linalg.svd(Xc, full_matrices=False)
        for chunks in ((n, f), (max(n // 2, f), f), (n, f)):
            p = DaskPCA(n_components=k)
            p.fit(da.from_array(X.copy(), chunks=chunks))
            tag = f"n={n},f={f},k={k},chunks={chunks}"
            if p.components_.shape != (k, f) or not np.allclose(np.abs(np.sum(p.components_ * Vt[:k], axis=1)), 1, atol=1e-6):
                bad[tag + " components"] = True
            if not np.allclose(p.singular_values_, S[:k], atol=1e-6):
                bad[tag + " singular values"] = [p.singular_values_.tolist(), S[:k].tolist()]
            if not np.allclose(p.mean_, X.mean(axis=0), atol=1e-9):
                bad[tag + " mean"] = True
            if not np.allclose(p.explained_variance_, S[:k] ** 2 / (n - 1), atol=1e-6):
                bad[tag + " explained variance"] = True
            T = np.asarray(p.transform(da.from_array(X, chunks=chunks)))
            if T.shape != (n, k) or not np.allclose(np.abs(T), np.abs(U[:, :k] * S[:k]), atol=1e-6):
                bad[tag + " projections"] = True
            FT = np.asarray(DaskPCA(n_components=k).fit_transform(da.from_array(X.copy(), chunks=chunks)))
            if FT.shape != (n, k) or not np.allclose(np.abs(FT), np.abs(U[:, :k] * S[:k]), atol=1e-6):
                bad[tag + " fit_transform"] = True
    # a stack with exactly 500 voxels per image (the last size for which the exact solver is promised)
    for (n, f, k) in ((30, 500, 2), (500, 20, 2)):
        X = rng.normal(size=(n, f)) * np.linspace(2, 0.5, f)
        Xc = X - X.mean(axis=0)
        S = np.linalg.svd(Xc, compute_uv=False)
        p = DaskPCA(n_components=k)
        p.fit(da.from_array(X.copy(), chunks=(n, f)))
        if not np.allclose(p.singular_values_, S[:k], rtol=1e-6):
            bad[f"n={n},f={f},k={k} singular values (exact solver expected)"] = [p.singular_values_.tolist(), S[:k].tolist()]
    # classifier: masked, flattened, row i <-> image i; two separated groups
    shape = (3, 2, 4)
    n = 8
    base = rng.normal(size=shape)
    grp = np.array([0, 1, 1, 0, 1, 0, 0, 1])
    imgs = np.stack([base * (1 if g else -1) * 5 + rng.normal(size=shape) * 0.05 for g in grp]).astype(np.float32)
    mask = (rng.uniform(size=shape) > 0.3).astype(np.float32)
    soft = rng.uniform(0.05, 1.0, size=shape).astype(np.float32)  # a soft mask: 0 < m < 1 almost everywhere
    for m in (None, mask, soft):
        clf = PcaClassifier(imgs, m, n_components=2, n_clusters=2, seed=0).run()
        lab = np.asarray(clf.labels)
        if len(lab) != n or len(set(lab[grp == 0])) != 1 or len(set(lab[grp == 1])) != 1 or lab[0] == lab[1]:
            bad[f"classifier labels (mask={'no' if m is None else 'binary' if m is mask else 'soft'})"] = lab.tolist()
        flat = (imgs * (1 if m is None else m)).reshape(n, -1).astype(np.float64)
        fc = flat - flat.mean(axis=0)
        U, S, Vt = np.linalg.svd(fc, full_matrices=False)
        T = np.asarray(clf.get_transform())
        if T.shape != (n, 2) or not np.allclose(np.abs(T), np.abs(U[:, :2] * S[:2]), atol=1e-3):
            bad[f"classifier projections (mask={'no' if m is None else 'binary' if m is mask else 'soft'})"] = True
        parts = clf.split_clusters()
        for c, part in enumerate(parts):
            got = np.asarray(part)
            if got.shape[0] != int((lab == c).sum()) or not np.allclose(got, imgs[lab == c]):
                bad[f"split_clusters[{c}]"] = True
        sel = np.asarray(clf.get_transform(labels=[5, 2]))
        if not np.allclose(sel, T[[5, 2]], atol=1e-6):
            bad["get_transform(labels=[5,2])"] = True
        pred = np.asarray(clf.predict(__import__("dask.array", fromlist=["x"]).from_array(imgs[[3, 4]])))
        if pred.tolist() != lab[[3, 4]].tolist():
            bad["predict"] = [pred.tolist(), lab[[3, 4]].tolist()]
        if np.asarray(clf.get_bases()).shape != (2,) + shape:
            bad["get_bases shape"] = list(np.asarray(clf.get_bases()).shape)
    return len(bad) > 0, {"problems": bad}


# ---------------------------------------------------------------------------------------
# (A) the arithmetic around the SVD


def sec_pca(rec, N=3, F=2, n=1, patches=None):
    L = _load_pca(patches)
    P = L["acryo.classification._dask_pca"]
    da = L.da
    rec.encodes("acryo/classification/_dask_pca.py:DaskPCA.fit", "acryo/classification/_dask_pca.py:DaskPCA._fit", "acryo/classification/_dask_pca.py:DaskPCA._get_solver",
                "acryo/classification/_dask_pca.py:DaskPCA.transform", "acryo/classification/_dask_pca.py:DaskPCA.fit_transform", "acryo/classification/_dask_pca.py:DaskPCA.inverse_transform")
    rec.assume("dask.array has its numpy meaning (eager stand-in, every operation returns a new array); da.linalg.svd is a contract stub: it returns symbolic U (N x r), S (r), Vt (r x F), r = min(N, F); "
               "where stated, the contract A = U diag(S) Vt, Vt Vt^T = I, S descending >= 0 is a hypothesis (that LAPACK / tsqr satisfy it is NOT decided here); the 'full' solver (max(N, F) <= 500)")
    X = [[real(f"x{i}_{c}") for c in range(F)] for i in range(N)]
    Y = [[real(f"y{i}_{c}") for c in range(F)] for i in range(2)]
    tag = f"pca[N={N},F={F},n={n}]"

    def run():
        del da.svd_calls[:]
        xin = EA(to_symarray(X))
        p = P.DaskPCA(n_components=n)
        p.fit(xin)
        t_same = p.transform(EA(to_symarray(X)))
        t_new = p.transform(EA(to_symarray(Y)))
        inv = p.inverse_transform(t_new)
        call_fit = da.svd_calls[0]
        p2 = P.DaskPCA(n_components=n)
        ft = p2.fit_transform(EA(to_symarray(X)))
        return p, xin, t_same, t_new, inv, call_fit, ft, da.svd_calls[1], p2

    for pi, pth in enumerate(explore(run, max_paths=10)):
        if not pth.ok:
            ok, det = replay_pca({})
            rec.fact(f"{tag}/path{pi}/runs", False, key="C18/pca/raises", detail={"exc": repr(pth.exc)[:300], **det}, reproduced=ok)
            continue
        p, xin, t_same, t_new, inv, call, ft, call2, p2 = pth.result
        h = [pth.condition()]
        A, U, S, V = call
        mean = [sum((X[i][c].e for i in range(N)), z3.RealVal(0)) / N for c in range(F)]
        kw = dict(replay=replay_pca, twin=False)
        # the data handed to the SVD is the centred data; the input is not modified
        okA = A.shape == (N, F)
        rec.fact(f"{tag}/svd-input-shape", okA, key="C18/pca/svd-input", detail={"shape": list(A.shape)}, reproduced=True if okA else replay_pca({})[0])
        if okA:
            for i in range(N):
                for c in range(F):
                    rec.query(f"{tag}/svd-input[{i},{c}]=x-mean", h, zr(A[i, c]) == X[i][c].e - mean[c], key="C18/pca/svd-input", **kw)
        same_in = all(z3.eq(zr(xin.a[i, c]), X[i][c].e) for i in range(N) for c in range(F))
        rec.fact(f"{tag}/input-not-modified", bool(same_in), key="C18/pca/input-modified", detail={}, reproduced=True if same_in else replay_pca({})[0])
        m_ = _obj(EA._u(p.mean_))
        for c in range(F):
            rec.query(f"{tag}/mean_[{c}]", h, zr(m_[c]) == mean[c], key="C18/pca/mean", **kw)
        comp, sv, ev, evr = _obj(p.components_), _obj(p.singular_values_), _obj(p.explained_variance_), _obj(p.explained_variance_ratio_)
        oks = comp.shape == (n, F) and sv.shape == (n,) and ev.shape == (n,) and evr.shape == (n,) and p.n_components_ == n
        rec.fact(f"{tag}/attribute-shapes", bool(oks), key="C18/pca/shapes", detail={"components": list(comp.shape), "singular_values": list(sv.shape)}, reproduced=True if oks else replay_pca({})[0])
        if oks:
            r = len(S)
            tot = sum((zr(S[j]) * zr(S[j]) / (N - 1) for j in range(r)), z3.RealVal(0))
            for j in range(n):
                rec.query(f"{tag}/components_[{j}]=Vt[{j}]", h, z3.And(*[zr(comp[j, c]) == zr(V[j, c]) for c in range(F)]), key="C18/pca/components", **kw)
                rec.query(f"{tag}/singular_values_[{j}]=S[{j}]", h, zr(sv[j]) == zr(S[j]), key="C18/pca/singular-values", **kw)
                rec.query(f"{tag}/explained_variance_[{j}]=S^2/(N-1)", h, zr(ev[j]) == zr(S[j]) * zr(S[j]) / (N - 1), key="C18/pca/explained-variance", nonlinear=True, **kw)
                rec.query(f"{tag}/explained_variance_ratio_[{j}]", h + [tot > 0], zr(evr[j]) * tot == zr(S[j]) * zr(S[j]) / (N - 1), key="C18/pca/explained-variance", nonlinear=True, **kw)
        # projection formula
        for name, T, D in (("transform(X)", t_same, X), ("transform(Y)", t_new, Y)):
            Tm = _obj(EA._u(T))
            okt = Tm.shape == (len(D), n)
            rec.fact(f"{tag}/{name}-shape", okt, key="C18/pca/transform", detail={"shape": list(Tm.shape)}, reproduced=True if okt else replay_pca({})[0])
            if okt:
                for i in range(len(D)):
                    for j in range(n):
                        want = sum(((D[i][c].e - mean[c]) * zr(V[j, c]) for c in range(F)), z3.RealVal(0))
                        rec.query(f"{tag}/{name}[{i},{j}]=(d-mean).Vt[{j}]", h, zr(Tm[i, j]) == want, key="C18/pca/transform", nonlinear=True, **kw)
        # inverse_transform(t) = t components_ + mean_
        Im, Tn = _obj(EA._u(inv)), _obj(EA._u(t_new))
        if Im.shape == (2, F) and Tn.shape == (2, n):
            for i in range(2):
                for c in range(F):
                    want = sum((zr(Tn[i, j]) * zr(V[j, c]) for j in range(n)), z3.RealVal(0)) + mean[c]
                    rec.query(f"{tag}/inverse_transform[{i},{c}]", h, zr(Im[i, c]) == want, key="C18/pca/inverse-transform", nonlinear=True, **kw)
        else:
            rec.fact(f"{tag}/inverse_transform-shape", False, key="C18/pca/inverse-transform", detail={"shape": list(Im.shape)}, reproduced=replay_pca({})[0])
        # under the SVD contract the projections of the training data are U S (what an exact SVD of the centred data gives).  Decided in two steps:
        #   lemma (ring identity, no hypothesis):  T[i,j] = sum_c E[i,c] Vt[j,c] + sum_k U[i,k] S[k] G[k,j],  E = A - U S Vt,  G = Vt Vt^T
        #   contract (E = 0, G = identity) instantiated in the lemma:  T[i,j] = U[i,j] S[j]
        Ts = _obj(EA._u(t_same))
        r = len(S)
        if Ts.shape == (N, n) and A.shape == (N, F):
            for i in range(N):
                for j in range(n):
                    E = [zr(A[i, c]) - sum((zr(U[i, k]) * zr(S[k]) * zr(V[k, c]) for k in range(r)), z3.RealVal(0)) for c in range(F)]
                    G = [sum((zr(V[k, c]) * zr(V[j, c]) for c in range(F)), z3.RealVal(0)) for k in range(r)]
                    lemma = zr(Ts[i, j]) == sum((E[c] * zr(V[j, c]) for c in range(F)), z3.RealVal(0)) + sum((zr(U[i, k]) * zr(S[k]) * G[k] for k in range(r)), z3.RealVal(0))
                    rec.query(f"{tag}/transform(X)[{i},{j}]: decomposition lemma (ring identity)", h, lemma, key="C18/pca/projection=US", nonlinear=True, timeout_ms=60000, **kw)
                    e = [z3.Real(f"e!{c}") for c in range(F)]
                    g = [z3.Real(f"g!{k}") for k in range(r)]
                    inst = [x == 0 for x in e] + [g[k] == (1 if k == j else 0) for k in range(r)]
                    rec.query(f"{tag}/transform(X)[{i},{j}]: contract instantiated => U S", inst,
                              sum((e[c] * zr(V[j, c]) for c in range(F)), z3.RealVal(0)) + sum((zr(U[i, k]) * zr(S[k]) * g[k] for k in range(r)), z3.RealVal(0)) == zr(U[i, j]) * zr(S[j]),
                              key="C18/pca/projection=US", nonlinear=True, **kw)
        A2, U2, S2, V2 = call2
        Fm = _obj(EA._u(ft))
        okf = Fm.shape == (N, n)
        rec.fact(f"{tag}/fit_transform-shape", okf, key="C18/pca/fit-transform", detail={"shape": list(Fm.shape)}, reproduced=True if okf else replay_pca({})[0])
        if okf:
            for i in range(N):
                for j in range(n):
                    rec.query(f"{tag}/fit_transform[{i},{j}]=U S", h, zr(Fm[i, j]) == zr(U2[i, j]) * zr(S2[j]), key="C18/pca/fit-transform", nonlinear=True, **kw)
            for i in range(N):
                for c in range(F):
                    rec.query(f"{tag}/fit_transform svd-input[{i},{c}]=x-mean", h, zr(A2[i, c]) == X[i][c].e - mean[c], key="C18/pca/svd-input", **kw)
    rec.extra[tag] = {"svd_calls": len(da.svd_calls)}


def sec_solver(rec, patches=None):
    """which SVD is used: the exact one ('full') for every stack with max(n_images, n_voxels) <= 500, and whenever n_components >= 0.8 min(n_images, n_voxels);
    the randomized (approximate, outside the claim) one only for larger stacks -- decided for symbolic sizes"""
    L = _load_pca(patches)
    P = L["acryo.classification._dask_pca"]
    rec.encodes("acryo/classification/_dask_pca.py:DaskPCA._get_solver")
    N, F, k = integer("n_images"), integer("n_voxels"), integer("n_components")
    hyps = [N.e >= 1, F.e >= 1, k.e >= 1, k.e <= N.e, k.e <= F.e, N.e <= 10 ** 6, F.e <= 10 ** 9]  # bound: below these sizes the float 0.8 decides like 4/5 (up to equality)

    class X:
        shape = (N, F)

    L["acryo.classification._dask_pca"]._known_shape = lambda shape: True

    def replay(cex):
        return replay_pca({"__solver__": True})

    for pi, pth in enumerate(explore(lambda: P.DaskPCA(n_components=k)._get_solver(X(), k), assumptions=hyps, max_paths=40)):
        h = hyps + [pth.condition()]
        if not pth.ok:
            rec.query(f"solver/path{pi}/does-not-raise ({type(pth.exc).__name__})", h, z3.BoolVal(False), key="C18/solver/raises", replay=replay, twin=False, names={"n_images", "n_voxels", "n_components"})
            continue
        mx = z3.If(N.e >= F.e, N.e, F.e)
        mn = z3.If(N.e <= F.e, N.e, F.e)
        small = z3.Or(mx <= 500, 10 * z3.ToReal(k.e) >= 8 * z3.ToReal(mn))
        if pth.result == "full":
            rec.query(f"solver/path{pi}/full=>small-or-many-components", h, small, key="C18/solver/exact-for-small-stacks", replay=replay, twin=False, names={"n_images", "n_voxels", "n_components"})
        elif pth.result == "randomized":
            # (exactly 80 %: the code compares with the float 0.8, either answer is accepted there)
            rec.query(f"solver/path{pi}/randomized=>large-stack-and-few-components", h, z3.And(mx > 500, 10 * z3.ToReal(k.e) <= 8 * z3.ToReal(mn)), key="C18/solver/exact-for-small-stacks", replay=replay, twin=False, names={"n_images", "n_voxels", "n_components"})
        else:
            rec.fact(f"solver/path{pi}/known-solver", False, key="C18/solver/unknown", detail={"solver": repr(pth.result)}, reproduced=replay({})[0])


# ---------------------------------------------------------------------------------------
# (B) PcaClassifier: what is fitted / transformed / labelled, row by row


def _img_index(term):
    """index i of the image whose voxel variables v<i>_... occur in the term (None if mixed / none)"""
    seen, stack, out = set(), [term], set()
    while stack:
        u = stack.pop()
        if u.get_id() in seen:
            continue
        seen.add(u.get_id())
        if z3.is_const(u) and u.decl().kind() == z3.Z3_OP_UNINTERPRETED:
            nm = u.decl().name()
            if nm.startswith("v") and "_" in nm and nm[1:nm.index("_")].isdigit():
                out.add(int(nm[1:nm.index("_")]))
        stack.extend(u.children())
    return out.pop() if len(out) == 1 else None


LABELS = [1, 0, 1, 1, 0, 2, 0, 2]


def sec_classifier(rec, N=4, shape=(2, 1, 2), n_components=2, n_clusters=3, with_mask=True, patches=None):
    import sklearn.cluster as skc

    L = _load_pca(patches)
    PM, DP = L["acryo.classification.pca"], L["acryo.classification._dask_pca"]
    rec.encodes("acryo/classification/pca.py:PcaClassifier.__init__", "acryo/classification/pca.py:PcaClassifier.run", "acryo/classification/pca.py:PcaClassifier._image_flat",
                "acryo/classification/pca.py:PcaClassifier.get_transform", "acryo/classification/pca.py:PcaClassifier.transform", "acryo/classification/pca.py:PcaClassifier.predict",
                "acryo/classification/pca.py:PcaClassifier.split_clusters", "acryo/classification/pca.py:PcaClassifier.get_bases")
    rec.assume("PCA and k-means are recording stand-ins: transform is an uninterpreted function of a row (proj_j(row)), components_ are symbolic, the label of a row is a fixed function of the image the row was built from "
               "(so a row permutation anywhere becomes visible); dask.array has its numpy meaning")
    F = int(np.prod(shape))
    proj = [z3.Function(f"proj{j}", *([z3.RealSort()] * F), z3.RealSort()) for j in range(n_components)]
    log = {}

    class StubPCA:
        def __init__(self, n_components=None, **k):
            self.n_components = n_components

        def fit(self, X, y=None):
            log["fit"] = _obj(EA._u(X)).copy()
            self.components_ = np.array([[real(f"c{j}_{k}") for k in range(F)] for j in range(self.n_components)], dtype=object).view(SymArray)
            self.mean_ = None
            return self

        def transform(self, X):
            A = _obj(EA._u(X))
            log.setdefault("transform", []).append(A.copy())
            out = np.empty((A.shape[0], self.n_components), dtype=object)
            for i in range(A.shape[0]):
                for j in range(self.n_components):
                    out[i, j] = Sym(proj[j](*[zr(A[i, k]) for k in range(F)]))
            return EA(out)

    def labels_of(T):
        T = _obj(T)
        out = []
        for i in range(T.shape[0]):
            k = _img_index(zr(T[i, 0]))
            out.append(LABELS[k] if k is not None else -1)
        return np.array(out, dtype=np.int32)

    class StubKMeans:
        def __init__(self, n_clusters=8, random_state=None, n_init=10, **k):
            self.n_clusters, self.random_state = n_clusters, random_state

        def fit_predict(self, T):
            log["kmeans_fit"] = _obj(T).copy()
            return labels_of(T)

        def predict(self, T):
            log.setdefault("kmeans_predict", []).append(_obj(T).copy())
            return labels_of(T)

    DP.DaskPCA = StubPCA
    vox = [[real(f"v{i}_{k}") for k in range(F)] for i in range(N)]
    msk = [real(f"m_{k}") for k in range(F)]
    tag = f"classifier[N={N},shape={shape},mask={int(with_mask)}]"
    old_km = skc.KMeans
    skc.KMeans = StubKMeans
    try:
        with L.installed():
            def run():
                log.clear()
                imgs = to_symarray(vox).reshape((N,) + tuple(shape))
                mask = to_symarray(msk).reshape(tuple(shape)) if with_mask else None
                clf = PM.PcaClassifier(imgs, mask, n_components=n_components, n_clusters=n_clusters, seed=5).run()
                labels = np.asarray(clf.labels).tolist()
                parts = [np.asarray(_obj(EA._u(p_))) for p_ in clf.split_clusters()]
                sel = [N - 1, 0]
                gt_all = _obj(clf.get_transform())
                gt_sel = _obj(clf.get_transform(labels=sel))
                other = EA(to_symarray([vox[2], vox[0]]).reshape((2,) + tuple(shape)))
                pred = np.asarray(clf.predict(other)).tolist()
                t_unmasked = _obj(clf.transform(other, mask=False))
                bases = _obj(clf.get_bases())
                return clf, labels, parts, gt_all, gt_sel, sel, pred, t_unmasked, bases, dict(log), imgs

            paths = explore(run, max_paths=10)
    finally:
        skc.KMeans = old_km
    rp = replay_pca
    for pi, pth in enumerate(paths):
        if not pth.ok:
            ok, det = rp({})
            rec.fact(f"{tag}/path{pi}/runs", False, key="C18/classifier/raises", detail={"exc": repr(pth.exc)[:300], **det}, reproduced=ok)
            continue
        clf, labels, parts, gt_all, gt_sel, sel, pred, t_unmasked, bases, lg, imgs = pth.result
        h = [pth.condition()]
        mk = [m.e if with_mask else z3.RealVal(1) for m in msk]
        kw = dict(replay=rp, twin=False)

        def fact(name, ok, key, **det):
            rec.fact(f"{tag}/{name}", bool(ok), key=key, detail=det, reproduced=True if ok else rp({})[0])

        # what PCA is fitted on: image_i * mask, flattened in C order, row i <-> image i
        X = lg.get("fit")
        okx = X is not None and X.shape == (N, F)
        fact("fitted-matrix-shape", okx, "C18/classifier/fitted-matrix", shape=list(X.shape) if X is not None else None)
        if okx:
            for i in range(N):
                rec.query(f"{tag}/fitted-row{i}=image{i}*mask (C order)", h, z3.And(*[zr(X[i, k]) == vox[i][k].e * mk[k] for k in range(F)]), key="C18/classifier/fitted-matrix", nonlinear=True, **kw)
        # what k-means sees: the projections of exactly those rows, in order
        T = lg.get("kmeans_fit")
        okt = T is not None and T.shape == (N, n_components)
        fact("kmeans-input-shape", okt, "C18/classifier/kmeans-input", shape=list(T.shape) if T is not None else None)
        if okt:
            for i in range(N):
                want = [proj[j](*[vox[i][k].e * mk[k] for k in range(F)]) for j in range(n_components)]
                rec.query(f"{tag}/kmeans-row{i}=proj(image{i}*mask)", h, z3.And(*[zr(T[i, j]) == want[j] for j in range(n_components)]), key="C18/classifier/kmeans-input", nonlinear=True, **kw)
        fact("labels-in-image-order", labels == LABELS[:N], "C18/classifier/labels", got=labels, want=LABELS[:N])
        # split_clusters: cluster c holds the (unmasked) images with label c, in order
        okp = len(parts) == n_clusters
        fact("split_clusters-count", okp, "C18/classifier/split", n=len(parts))
        if okp:
            for c in range(n_clusters):
                want_idx = [i for i in range(N) if LABELS[i] == c]
                got = parts[c]
                oks = got.shape == (len(want_idx),) + tuple(shape)
                same = oks and all(z3.eq(z3.simplify(zr(got[r].reshape(-1)[k])), vox[i][k].e) for r, i in enumerate(want_idx) for k in range(F))
                fact(f"split_clusters[{c}]=images-with-label-{c}", same, "C18/classifier/split", want=want_idx, shape=list(got.shape))
        # get_transform: all rows / selected rows
        for name, G, idx in (("get_transform()", gt_all, list(range(N))), (f"get_transform(labels={sel})", gt_sel, sel)):
            okg = G.shape == (len(idx), n_components)
            fact(f"{name}-shape", okg, "C18/classifier/get-transform", shape=list(G.shape))
            if okg:
                for r, i in enumerate(idx):
                    want = [proj[j](*[vox[i][k].e * mk[k] for k in range(F)]) for j in range(n_components)]
                    rec.query(f"{tag}/{name}-row{r}=proj(image{i}*mask)", h, z3.And(*[zr(G[r, j]) == want[j] for j in range(n_components)]), key="C18/classifier/get-transform", nonlinear=True, **kw)
        fact("predict([image2, image0])", pred == [LABELS[2], LABELS[0]], "C18/classifier/predict", got=pred, want=[LABELS[2], LABELS[0]])
        kp = lg.get("kmeans_predict", [None])[-1]
        if kp is not None and kp.shape == (2, n_components):
            for r, i in enumerate((2, 0)):
                want = [proj[j](*[vox[i][k].e * mk[k] for k in range(F)]) for j in range(n_components)]
                rec.query(f"{tag}/predict-row{r}=proj(image{i}*mask)", h, z3.And(*[zr(kp[r, j]) == want[j] for j in range(n_components)]), key="C18/classifier/predict", nonlinear=True, **kw)
        else:
            fact("predict-input-shape", False, "C18/classifier/predict", shape=None if kp is None else list(kp.shape))
        okm = t_unmasked.shape == (2, n_components)
        fact("transform(mask=False)-shape", okm, "C18/classifier/transform", shape=list(t_unmasked.shape))
        if okm:
            for r, i in enumerate((2, 0)):
                want = [proj[j](*[vox[i][k].e for k in range(F)]) for j in range(n_components)]
                rec.query(f"{tag}/transform(mask=False)-row{r}=proj(image{i})", h, z3.And(*[zr(t_unmasked[r, j]) == want[j] for j in range(n_components)]), key="C18/classifier/transform", **kw)
        comp = _obj(clf.pca.components_)
        okb = bases.shape == (n_components,) + tuple(shape) and all(z3.eq(zr(bases[j].reshape(-1)[k]), zr(comp[j, k])) for j in range(n_components) for k in range(F))
        fact("get_bases=components-reshaped", okb, "C18/classifier/bases", shape=list(bases.shape))
        same_in = all(z3.eq(zr(_obj(imgs)[i].reshape(-1)[k]), vox[i][k].e) for i in range(N) for k in range(F))
        fact("input-stack-not-modified", same_in, "C18/classifier/input-modified")


# ---------------------------------------------------------------------------------------
# (C) LoaderBase.classify: stack row i <-> molecule i, labels written back in molecule order, nothing else changes


def replay_classify(cex):
    """installed library: two well separated groups of molecules (tomogram with two kinds of blobs); label per molecule, molecules otherwise unchanged"""
    from acryo import SubtomogramLoader, Molecules

    rng = np.random.default_rng(1)
    tomo = rng.normal(size=(40, 40, 40)).astype(np.float32) * 0.01
    zz, yy, xx = np.indices((7, 7, 7)) - 3
    kinds = [0, 1, 1, 0, 1, 0]
    pos = []
    for i, k in enumerate(kinds):
        c = np.array([8 + 5 * i, 10 + 4 * (i % 3), 28 - 4 * (i % 2)])
        blob = np.exp(-(zz ** 2 + yy ** 2 + xx ** 2) / 4.0) if k == 0 else np.exp(-((zz - 1.5) ** 2 + yy ** 2 + xx ** 2) / 2.0) - np.exp(-((zz + 1.5) ** 2 + yy ** 2 + xx ** 2) / 2.0)
        tomo[c[0] - 3:c[0] + 4, c[1] - 3:c[1] + 4, c[2] - 3:c[2] + 4] += blob.astype(np.float32)
        pos.append(c)
    mole = Molecules(np.array(pos, dtype=np.float64), features={"tag": np.arange(len(kinds)) * 10})
    ld = SubtomogramLoader(tomo, mole, order=1, output_shape=(7, 7, 7))
    bad = {}
    try:
        res = ld.classify(n_components=2, n_clusters=2, label_name="cls", seed=0)
    except Exception as e:
        return True, {"raised": repr(e)[:200]}
    out = res.loader.molecules
    lab = out.features["cls"].to_list() if "cls" in out.features.columns else None
    if lab is None or len(lab) != len(kinds):
        bad["label-column"] = lab
    else:
        g0 = {lab[i] for i, k in enumerate(kinds) if k == 0}
        g1 = {lab[i] for i, k in enumerate(kinds) if k == 1}
        if len(g0) != 1 or len(g1) != 1 or g0 == g1:
            bad["labels-do-not-follow-the-molecules"] = {"labels": lab, "kinds": kinds}
        if lab != np.asarray(res.classifier.labels).tolist():
            bad["labels-differ-from-classifier"] = True
    if not np.allclose(out.pos, mole.pos) or not np.allclose(out.quaternion(), mole.quaternion()) or out.features["tag"].to_list() != mole.features["tag"].to_list():
        bad["molecules-changed"] = True
    if "cls" in ld.molecules.features.columns or len(ld.molecules.features.columns) != 1:
        bad["original-loader-modified"] = ld.molecules.features.columns
    if set(out.features.columns) != {"tag", "cls"}:
        bad["columns"] = out.features.columns
    return len(bad) > 0, {"problems": bad}


def sec_classify(rec, patches=None):
    from . import c03
    import acryo.classification as real_pkg

    L = c03._load(patches)
    LB, MC = L["acryo.loader._base"], L["acryo.molecules.core"]
    xp = L.xp
    rec.encodes("acryo/loader/_base.py:LoaderBase.classify", "acryo/loader/_base.py:LoaderBase.iter_mapping_tasks", "acryo/_dask.py:DaskTaskList.tostack")
    rec.assume("ZNCCAlignment and PcaClassifier are recording stand-ins (their own code is decided in sections A, B, D and in C07/C08/C16); masked_difference returns an image filled with the index of the call, "
               "so that the row order of the stack is observable after the real dask stack/rechunk; the classifier's labels are a fixed list in row order")
    tags = ["m0", "m1", "m2", "m3"]
    hyps = c03._hyps(tags)
    calls, made, clf_args = [], [], []
    SH = c03.SHAPE
    MASK = np.ones(SH, dtype=np.float32) * 0.5
    TEMPLATE = np.arange(int(np.prod(SH)), dtype=np.float32).reshape(SH)
    LAB = [1, 0, 1, 2]

    class RecModel:
        def __init__(self, template, mask=None, **kw):
            made.append((template, mask, kw))
            self.mask = ("MODEL-MASK", mask)

        def masked_difference(self, sub, quaternion=None, **kw):
            calls.append((sub, quaternion, kw))
            return np.full(SH, float(len(calls) - 1), dtype=np.float32)

    class StubClf:
        # the constructor signature and the public surface of the real PcaClassifier (positional or keyword calls, `labels` or `_labels`)
        def __init__(self, image_stack, mask_image=None, n_components=2, n_clusters=2, seed=0):
            clf_args.append((image_stack, mask_image, n_components, n_clusters, seed))
            self._labels = None

        @property
        def labels(self):
            return self._labels

        def run(self):
            self._labels = np.array(LAB, dtype=np.int32)
            return self

    LB.ZNCCAlignment = RecModel
    old = real_pkg.PcaClassifier
    real_pkg.PcaClassifier = StubClf
    try:
        with L.installed():
            def run():
                del calls[:], made[:], clf_args[:]
                ld = c03._single_loader(L, xp, tags, {"v": [3, 1, 2, 5]})
                res = ld.classify(TEMPLATE, MASK, cutoff=0.3, n_components=3, n_clusters=4, tilt=(-50, 40), seed=11, label_name="klass")
                stack = np.asarray(clf_args[0][0].compute()) if clf_args else None
                return ld, res, stack, list(calls), list(made), list(clf_args)

            paths = explore(run, assumptions=hyps, max_paths=20)
    finally:
        real_pkg.PcaClassifier = old
    tag = "classify"
    for pi, pth in enumerate(paths):
        if not pth.ok:
            ok, det = replay_classify({})
            rec.fact(f"{tag}/path{pi}/runs", False, key="C18/classify/raises", detail={"exc": repr(pth.exc)[:300], **det}, reproduced=ok)
            continue
        ld, res, stack, cl, md, ca = pth.result

        def fact(name, ok, key, **det):
            rec.fact(f"{tag}/path{pi}/{name}", bool(ok), key=key, detail=det, reproduced=True if ok else replay_classify({})[0])

        okm = len(md) == 1 and md[0][0] is TEMPLATE and md[0][1] is MASK and md[0][2].get("cutoff") == 0.3 and md[0][2].get("tilt") == (-50, 40)
        fact("model=ZNCC(template, mask, cutoff, tilt)", okm, "C18/classify/model", kwargs=repr(md[0][2]) if md else None)
        okc = len(ca) == 1 and ca[0][1] == ("MODEL-MASK", MASK) and ca[0][2:] == (3, 4, 11)
        fact("classifier(stack, model.mask, n_components, n_clusters, seed)", okc, "C18/classify/classifier-args", args=repr(ca[0][1:])[:200] if ca else None)
        oks = stack is not None and stack.shape == (len(tags),) + SH
        fact("stack-shape", oks, "C18/classify/stack", shape=None if stack is None else list(stack.shape))
        if oks:
            rows = []
            for i in range(len(tags)):
                k = int(round(float(stack[i].reshape(-1)[0])))
                uniform = bool(np.all(stack[i] == stack[i].reshape(-1)[0]))
                if not uniform or not (0 <= k < len(cl)):
                    rows.append((None, None))
                    continue
                sub, quat, _ = cl[k]
                root, coord = c03._task_identity(sub, hyps)
                rows.append((c03._mol_of_coord(coord, tags, hyps, pth.condition()), c03._tag_of_quat(quat)))
            ok_rows = rows == [(t, t) for t in tags]
            fact("stack-row-i=masked_difference(subtomogram i, quaternion i)", ok_rows, "C18/classify/row-order", rows=[list(map(str, r)) for r in rows])
        out = res.loader.molecules
        cols = out.features.columns
        lab = out.features["klass"].to_list() if "klass" in cols else None
        fact("one-label-per-molecule-in-molecule-order", lab == LAB, "C18/classify/labels", got=lab, want=LAB)
        same = out.features["row"].to_list() == tags and out.features["v"].to_list() == [3, 1, 2, 5] and [c03._tag_of_pos(out.pos[i]) for i in range(len(tags))] == tags \
            and [c03._tag_of_quat(out.quaternion()[i]) for i in range(len(tags))] == tags and sorted(cols) == sorted(["row", "v", "klass"])
        fact("nothing-else-changes", same, "C18/classify/molecules-changed", columns=cols)
        src = ld.molecules
        fact("original-loader-untouched", "klass" not in src.features.columns and src.features["row"].to_list() == tags, "C18/classify/source-modified", columns=src.features.columns)
        fact("same-tomogram-and-parameters", res.loader.image is ld.image and res.loader.order == ld.order and res.loader.scale is ld.scale or res.loader.scale == ld.scale, "C18/classify/loader")
        fact("result.classifier-is-the-classifier", isinstance(res.classifier, StubClf), "C18/classify/result")


# ---------------------------------------------------------------------------------------
# (D) masked_difference: ifftn((F(image*mask) - F(template*mask)) * wedge), voxel by voxel


def _dft(a, inverse=False):
    """exact DFT of an object array whose axes have length 1 or 2 (butterflies; returns (re, im) object arrays -- purely real here)"""
    out = np.array(a, dtype=object)
    for ax, n in enumerate(out.shape):
        if n == 1:
            continue
        assert n == 2
        lo, hi = np.take(out, 0, axis=ax), np.take(out, 1, axis=ax)
        out = np.stack([lo + hi, lo - hi], axis=ax)
        if inverse:
            out = out / 2
    return out


def sec_masked_difference(rec, shape=(1, 2, 2), patches=None):
    from . import c07

    L = c07._load(patches)
    CC = L["acryo.alignment._concrete"]
    xp = L.xp
    rec.encodes("acryo/alignment/_base.py:TomographyInput.masked_difference", "acryo/alignment/_base.py:TomographyInput.pre_transform", "acryo/alignment/_base.py:TomographyInput._get_template_and_mask_input")
    rec.assume("exact DFT (sides 1, 2: all spectra real); the missing-wedge weights are symbolic (their geometry is C08); no low-pass (cutoff outside the filtered range; C16)")
    t, a, mk = c07.img("t", shape), c07.img("a", shape), c07.img("m", shape)
    W = c07.img("w", shape)
    tag = f"masked_difference[{shape}]"
    quat = np.array([0.0, 0.0, 0.0, 1.0])

    def replay(cex):
        from acryo.alignment import ZNCCAlignment
        import scipy.fft as sf

        rng = np.random.default_rng(4)
        tm, im, ms = (rng.normal(size=(6, 5, 4)).astype(np.float32) for _ in range(3))
        ms = np.abs(ms)
        bad = {}
        for tilt in (None, (-50, 50)):
            m = ZNCCAlignment(tm, ms, tilt=tilt)
            got = np.asarray(m.masked_difference(im, quat))
            mw = 1 if tilt is None else np.asarray(m._get_missing_wedge_mask(quat, __import__("acryo").backend.Backend()))
            want = sf.ifftn((sf.fftn(im * ms) - sf.fftn(tm * ms)) * mw).real
            if got.shape != want.shape or not np.allclose(got, want, atol=1e-4):
                bad[str(tilt)] = float(np.abs(got - want).max()) if got.shape == want.shape else "shape"
        return len(bad) > 0, {"max_abs_err": bad}

    for with_mask in (True, False):
        def run():
            m = CC.ZNCCAlignment(t, mk if with_mask else None)
            m._get_missing_wedge_mask = stubs.like(m._get_missing_wedge_mask, lambda q, backend=None, *a, **k: W)
            return m.masked_difference(a, quat, backend=xp)

        for pi, pth in enumerate(explore(run, max_paths=10)):
            lab = f"{tag}/mask={int(with_mask)}/path{pi}"
            if not pth.ok:
                ok, det = replay({})
                rec.fact(f"{lab}/runs", False, key="C18/masked-difference/raises", detail={"exc": repr(pth.exc)[:300], **det}, reproduced=ok)
                continue
            out = _obj(pth.result)
            ok = out.shape == tuple(shape)
            rec.fact(f"{lab}/shape", ok, key="C18/masked-difference/shape", detail={"shape": list(out.shape)}, reproduced=True if ok else replay({})[0])
            if not ok:
                continue
            am = _obj(a) * _obj(mk) if with_mask else _obj(a)
            tm = _obj(t) * _obj(mk) if with_mask else _obj(t)
            want = _dft((_dft(am) - _dft(tm)) * _obj(W), inverse=True)
            for idx in np.ndindex(tuple(shape)):
                rec.query(f"{lab}/voxel{idx}", [pth.condition()], zr(out[idx]) == zr(want[idx]), key="C18/masked-difference/formula", replay=replay, nonlinear=True, twin=False)


def sections(tier):
    S = [("solver", "checks.c18", "sec_solver", {}), ("pca-3x2-1", "checks.c18", "sec_pca", {"N": 3, "F": 2, "n": 1}), ("pca-3x2-2", "checks.c18", "sec_pca", {"N": 3, "F": 2, "n": 2}), ("pca-2x3-1", "checks.c18", "sec_pca", {"N": 2, "F": 3, "n": 1})]
    S += [("classifier-mask", "checks.c18", "sec_classifier", {"N": 4, "with_mask": True}), ("classifier-nomask", "checks.c18", "sec_classifier", {"N": 3, "with_mask": False, "n_components": 1, "n_clusters": 2}),
          ("classify", "checks.c18", "sec_classify", {}), ("masked-difference-(1,2,2)", "checks.c18", "sec_masked_difference", {"shape": (1, 2, 2)})]
    if not quick(tier):
        S += [("classifier-8", "checks.c18", "sec_classifier", {"N": 8, "shape": (1, 2, 3), "with_mask": True, "n_components": 3}), ("masked-difference-(2,2,2)", "checks.c18", "sec_masked_difference", {"shape": (2, 2, 2)})]
        S += [("pca-4x3-2", "checks.c18", "sec_pca", {"N": 4, "F": 3, "n": 2}), ("pca-3x4-3", "checks.c18", "sec_pca", {"N": 3, "F": 4, "n": 3})]
    return S


_DP, _PC, _LB, _AB = "acryo.classification._dask_pca", "acryo.classification.pca", "acryo.loader._base", "acryo.alignment._base"
_A1 = {"N": 3, "F": 2, "n": 1}
MUTANTS = [
    ("pca:transform-without-centring", "checks.c18", "sec_pca", _A1, {_DP: [("        if self.mean_ is not None:\n            X = X - self.mean_\n        X_transformed", "        X_transformed")]}),
    ("pca:fit-without-centring", "checks.c18", "sec_pca", _A1, {_DP: [("        X -= self.mean_\n", "")]}),
    ("pca:last-components-kept", "checks.c18", "sec_pca", _A1, {_DP: [("        self.components_ = self.components_[:n_components]", "        self.components_ = self.components_[-n_components:]")]}),
    ("pca:variance-over-n", "checks.c18", "sec_pca", _A1, {_DP: [("self.singular_values_**2 / (self.n_samples_ - 1)", "self.singular_values_**2 / self.n_samples_")]}),
    ("pca:fit_transform-scales-by-wrong-singular-values", "checks.c18", "sec_pca", {"N": 3, "F": 2, "n": 1}, {_DP: [("            U *= S[: self.n_components_]", "            U *= S[-self.n_components_ :]")]}),
    ("pca:mean-over-features", "checks.c18", "sec_pca", {"N": 2, "F": 3, "n": 1}, {_DP: [("        self.mean_ = X.mean(0)\n        X -= self.mean_", "        self.mean_ = X.mean(0)\n        X = X - X.mean(1)[:, None]")]}),
    ("classifier:get_transform-unmasked", "checks.c18", "sec_classifier", {"N": 4, "with_mask": True}, {_PC: [("        if labels is None:\n            flat = self._image_flat(mask=True)", "        if labels is None:\n            flat = self._image_flat(mask=False)")]}),
    ("classifier:fit-unmasked", "checks.c18", "sec_classifier", {"N": 4, "with_mask": True}, {_PC: [("        _flat_image = self._image_flat(mask=True)\n        self._pca.fit(_flat_image)", "        _flat_image = self._image_flat(mask=False)\n        self._pca.fit(_flat_image)")]}),
    ("classifier:flatten-transposed", "checks.c18", "sec_classifier", {"N": 4, "with_mask": True}, {_PC: [("        _flat_images = _input.reshape(self._n_image, -1)", "        _flat_images = _input.reshape(-1, self._n_image).T")]}),
    ("classifier:split-complement", "checks.c18", "sec_classifier", {"N": 4, "with_mask": True}, {_PC: [("            img0 = self._image[self._labels == i]", "            img0 = self._image[self._labels != i]")]}),
    ("classifier:selected-rows-sorted", "checks.c18", "sec_classifier", {"N": 4, "with_mask": True}, {_PC: [("            flat = self._image_flat(mask=True)[labels]", "            flat = self._image_flat(mask=True)[sorted(labels)]")]}),
    ("classifier:transform-ignores-mask-flag", "checks.c18", "sec_classifier", {"N": 4, "with_mask": True}, {_PC: [("        if mask:\n            input = input * self._mask\n        flat = input.reshape(input.shape[0], -1)", "        input = input * self._mask\n        flat = input.reshape(input.shape[0], -1)")]}),
    ("classify:labels-reversed", "checks.c18", "sec_classify", {}, {_LB: [("pl.Series(label_name, clf._labels))", "pl.Series(label_name, clf._labels[::-1]))")]}),
    ("classify:quaternions-reversed", "checks.c18", "sec_classify", {}, {_LB: [("                model.masked_difference,\n                output_shape=shape,\n                var_kwarg=dict(quaternion=self.molecules.quaternion()),", "                model.masked_difference,\n                output_shape=shape,\n                var_kwarg=dict(quaternion=self.molecules.quaternion()[::-1]),")]}),
    ("classify:molecules-not-copied", "checks.c18", "sec_classify", {}, {_LB: [("        mole = self.molecules.copy()\n        mole.features = mole.features.with_columns(pl.Series(label_name, clf._labels))", "        mole = self.molecules\n        mole.features = mole.features.with_columns(pl.Series(label_name, clf._labels))")]}),
    ("classify:cutoff-dropped", "checks.c18", "sec_classify", {}, {_LB: [("        model = ZNCCAlignment(template, _mask, cutoff=cutoff, tilt=tilt)\n\n        # PCA requires", "        model = ZNCCAlignment(template, _mask, tilt=tilt)\n\n        # PCA requires")]}),
    ("classify:seed-dropped", "checks.c18", "sec_classify", {}, {_LB: [("            n_clusters=n_clusters,\n            seed=seed,\n        )\n        clf.run()", "            n_clusters=n_clusters,\n        )\n        clf.run()")]}),
    ("masked-difference:template-without-wedge", "checks.c18", "sec_masked_difference", {"shape": (1, 2, 2)}, {_AB: [("        template_masked = xp.ifftn(_template * mw).real", "        template_masked = xp.ifftn(_template).real")]}),
    ("masked-difference:image-unmasked", "checks.c18", "sec_masked_difference", {"shape": (1, 2, 2)}, {_AB: [("        image_input = self.pre_transform(xp.asarray(image) * _mask, xp)\n        mw = self._get_missing_wedge_mask(quaternion, xp)\n        template_masked", "        image_input = self.pre_transform(xp.asarray(image), xp)\n        mw = self._get_missing_wedge_mask(quaternion, xp)\n        template_masked")]}),
    ("masked-difference:sign", "checks.c18", "sec_masked_difference", {"shape": (1, 2, 2)}, {_AB: [("        return xp.asnumpy(img_input - template_masked)", "        return xp.asnumpy(template_masked - img_input)")]}),
    ("pca:inverse-transform-forgets-mean", "checks.c18", "sec_pca", _A1, {_DP: [("            return da.dot(X, self.components_) + self.mean_", "            return da.dot(X, self.components_)")]}),
]


def run(tier, procs=None, only=None):
    S = select(sections(tier), only)
    return harness.run_check(
        PID, tier, S, procs=procs,
        explanation="PARTIAL claim. The Python code acryo wraps around the SVD and k-means kernels is executed on symbolic data: (A) the real DaskPCA with da.linalg.svd as a contract stub: the matrix handed to the SVD "
                    "is the column-centred data, mean_/components_/singular_values_/explained_variance_(ratio) are what the SVD returned (leading n), transform = (Y - mean) Vt^T, and -- the SVD contract instantiated in a "
                    "solver-checked ring identity -- the projections of the training data are U S; (B) the real PcaClassifier with recording PCA/k-means stand-ins: rows = image_i * mask flattened in C order, labels, "
                    "split_clusters, predict, get_transform(labels=), transform(mask=False), get_bases follow the row order; (C) the real LoaderBase.classify on the stand-in loader: stack row i = "
                    "masked_difference(sub-tomogram i, quaternion i) of ZNCC(template, mask, cutoff, tilt), one label per molecule in molecule order, nothing else changes, source untouched; "
                    "(D) the real masked_difference over an exact DFT with symbolic wedge weights.",
        bounds={"pca": "N x F in {3x2, 2x3} quick, + {4x3, 3x4} thorough; n_components 1..3; 'full' solver branch only", "classifier": "3-4 images of 2x1x2 voxels (8 images of 1x2x3 thorough), symbolic voxels and mask",
                "classify": "4 molecules, box 3^3, symbolic positions/orientations", "masked_difference": "boxes (1,2,2) / (2,2,2)"},
        trusted_base=TRUSTED + ["SVD contract stub (A = U diag(S) Vt, Vt Vt^T = I): that LAPACK / dask tsqr satisfy it is assumed, not decided", "recording PCA / k-means / ZNCC stand-ins in (B), (C)",
                                "eager numpy meaning of dask.array", "real dask stack/from_delayed and real polars in (C)", "FFTStub exact DFT in (D)"],
        outside=["numerical SVD (LAPACK, dask tall-skinny QR) and its equality across chunkings; the randomized solver that the real code selects for stacks with > 500 features per image; sign of the components",
                 "k-means: 'clearly separated groups are assigned to distinct clusters' (scikit-learn; exercised only by the replay oracle on the installed library)", "whitening, score/score_samples"],
        mutants=MUTANTS if (not quick(tier) and not only) else None,
    )


# every real-library oracle of this property (each returns (reproduced, detail)); used to confirm structural facts that carry no replay of their own
ALL_REPLAYS = [replay_pca, replay_classify]


def replay(data):
    key = data.get("key", "")
    ok, detail = (replay_classify if "classify" in key else replay_pca)(data.get("cex") or {})
    print("replay:", detail)
    print("REPRODUCED" if ok else "not reproduced")
    return 1 if ok else 0
