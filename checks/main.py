"""Entry point: python -m checks.main <ID> [--tier quick|thorough] [--replay path]"""
from __future__ import annotations

import argparse
import importlib
import json
import os
import sys


def main():
    ap = argparse.ArgumentParser()
    ap.add_argument("pid")
    ap.add_argument("--tier", default=os.environ.get("VERIF_TIER", "quick"), choices=["quick", "thorough"])
    ap.add_argument("--replay", default=None)
    ap.add_argument("--procs", type=int, default=None)
    ap.add_argument("--only", default=None, help="comma-separated section name prefixes (debugging)")
    a = ap.parse_args()
    pid = a.pid.upper()
    try:
        mod = importlib.import_module(f"checks.{pid.lower()}")
    except ModuleNotFoundError as e:
        print(f"HARNESS-ERROR no check module for {pid}: {e}")
        sys.exit(3)
    if a.replay:
        with open(a.replay) as f:
            data = json.load(f)
        sys.exit(mod.replay(data))
    try:
        code = mod.run(a.tier, procs=a.procs, only=a.only.split(",") if a.only else None)
    except BaseException as e:  # noqa: BLE001
        import traceback

        traceback.print_exc()
        print(f"HARNESS-ERROR {pid}: {type(e).__name__}: {e}")
        code = 3
    sys.exit(code)


if __name__ == "__main__":
    main()
