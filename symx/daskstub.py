"""symx.daskstub -- contract-level stand-in for the handful of dask.array operations acryo applies to the stack of
loaded subtomograms: stack, boolean indexing, rechunk (identity), mean(axis=0), compute.  Items are tiny symbolic
images (SymArray) so that the arithmetic mean stays an exact z3 term.  An empty selection has no mean (numpy/dask
return NaN with a warning): the stub records it as `EmptyMean`."""
from __future__ import annotations

import numpy as np

from . import arrays as A
from .core import Unsupported


class EmptyMean:
    """mean over zero images (NaN in numpy/dask)"""

    _symx_passthrough = True

    def __repr__(self):
        return "EmptyMean(NaN)"


class LazyMean:
    _symx_passthrough = True

    def __init__(self, items):
        self.items = list(items)

    def compute(self, **kw):
        if not self.items:
            return EmptyMean()
        vals = [it.compute() if hasattr(it, "compute") else it for it in self.items]
        acc = vals[0]
        for v in vals[1:]:
            acc = acc + v
        return acc / len(vals)


class LazyStack:
    _symx_passthrough = True

    def __init__(self, items):
        self.items = list(items)

    @property
    def shape(self):
        first = self.items[0] if self.items else None
        inner = tuple(getattr(first, "shape", ())) if first is not None else ()
        return (len(self.items),) + inner

    def __len__(self):
        return len(self.items)

    def __getitem__(self, key):
        if isinstance(key, np.ndarray) and key.dtype == bool:
            if key.shape != (len(self.items),):
                raise IndexError("boolean index did not match")
            return LazyStack([it for it, k in zip(self.items, key) if k])
        if isinstance(key, (int, np.integer)):
            return self.items[int(key)]
        if isinstance(key, slice):
            return LazyStack(self.items[key])
        if isinstance(key, (list, tuple, np.ndarray)) and len(np.shape(key)) == 1:
            # integer fancy index along the molecule axis (dask semantics: out-of-range raises, negative counts from the end)
            import operator

            idx = [operator.index(k) for k in list(key)]
            n = len(self.items)
            if any(k < -n or k >= n for k in idx):
                raise IndexError("index out of bounds")
            return LazyStack([self.items[k] for k in idx])
        raise Unsupported(f"LazyStack index {key!r}")

    # chunk layout along the molecule axis: one chunk unless a section installs a splitter (dask's "auto" rechunk cuts the stack into pieces of
    # <= 128 MiB: n molecules -> e.g. (n - 1, 1)); a reduction must not depend on it
    AUTO_SPLIT = None
    _chunks0 = None

    def rechunk(self, *a, **k):
        out = LazyStack(self.items)
        n = len(self.items)
        split = LazyStack.AUTO_SPLIT(n) if (LazyStack.AUTO_SPLIT is not None and n) else (n,)
        out._chunks0 = tuple(int(c) for c in split)
        return out

    @property
    def chunks(self):
        c0 = self._chunks0 if self._chunks0 is not None else (len(self.items),)
        return (tuple(c0),) + tuple((s,) for s in self.shape[1:])

    @property
    def numblocks(self):
        return tuple(len(c) for c in self.chunks)

    @property
    def dtype(self):
        return np.dtype(np.float32)

    def map_blocks(self, func, *args, chunks=None, dtype=None, **kw):
        """apply func to every block along the molecule axis (inner axes are never split here) and concatenate the results along that axis"""
        out, start = [], 0
        for c in self.chunks[0]:
            blk = A.to_symarray(np.stack([A._obj(it.compute() if hasattr(it, "compute") else it) for it in self.items[start:start + c]], axis=0))
            res = func(blk, *args, **kw)
            res = A._obj(res)
            for r in range(res.shape[0]):
                out.append(res[r].view(A.SymArray))
            start += c
        new = LazyStack(out)
        return new

    def mean(self, axis=0):
        if axis != 0:
            raise Unsupported("mean over an axis other than the molecule axis")
        return LazyMean(self.items)

    def compute(self, **kw):
        vals = [it.compute() if hasattr(it, "compute") else it for it in self.items]
        if any(isinstance(v, EmptyMean) for v in vals):
            return vals
        return A.to_symarray(np.stack([A._obj(v) for v in vals], axis=0))


def _eval(x):
    if isinstance(x, (list, tuple)):
        return type(x)(_eval(v) for v in x) if not isinstance(x, tuple) else tuple(_eval(v) for v in x)
    if isinstance(x, dict):
        return {k: _eval(v) for k, v in x.items()}
    if hasattr(x, "compute"):
        return x.compute()
    return x


class DaskArrayStub:
    """stands for `dask.array` (name `da`) in loaded loader modules"""

    class Array:
        pass

    @staticmethod
    def stack(items, axis=0):
        if axis != 0:
            raise Unsupported("da.stack along an axis other than 0")
        return LazyStack(list(items))

    @staticmethod
    def mean(x, axis=0):
        return x.mean(axis=axis)

    @staticmethod
    def compute(*args, **kw):
        return tuple(_eval(a) for a in args)

    @staticmethod
    def from_array(x, **kw):
        return x
