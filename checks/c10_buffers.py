"""C10 (viii) -- objects handed out by a process-wide memo (functools.lru_cache / cache) are shared by every task and thread.

The current source of every acryo module is parsed.  Functions decorated with lru_cache / cache are the *memo functions*; in every
other function, names bound to the result of a memo function (directly, by tuple unpacking, by aliasing or by indexing) are
*shared names*.  Every in-place write to a shared name -- subscript assignment, augmented assignment, `out=` keyword of a call,
np.copyto / .fill / .sort / .resize -- is a step "write(buffer, value)"; any later use of the name in the same function is a step
"read(buffer)".  For two tasks running such a function with values v1, v2 of an uninterpreted sort, z3 decides whether every
interleaving of their steps gives task 1 the result a sequential execution gives (read returns the task's own value).  With a
write followed by a read this is refuted by the schedule  T1.write, T2.write, T1.read  unless v1 = v2: the counterexample is
replayed on the installed library by aligning the same molecules with every alignment model under the synchronous and the
threaded scheduler (8 workers, several repetitions) and comparing shifts and scores.
On the pinned tree the scan finds memo functions whose results are only read.
"""
from __future__ import annotations

import ast
import os

import numpy as np
import z3

from symx import load, smt

MEMO_DECORATORS = {"lru_cache", "cache", "cached_property"}
WRITE_METHODS = {"fill", "sort", "resize", "itemset", "put", "partition", "setfield", "byteswap"}


def _modules():
    root = os.path.join(load.REPO, "acryo")
    for dp, _, fns in os.walk(root):
        for fn in sorted(fns):
            if fn.endswith(".py"):
                path = os.path.join(dp, fn)
                rel = os.path.relpath(path, load.REPO)
                yield rel, open(path, encoding="utf-8").read()


def _deco_name(d):
    if isinstance(d, ast.Call):
        d = d.func
    if isinstance(d, ast.Attribute):
        return d.attr
    if isinstance(d, ast.Name):
        return d.id
    return None


def _call_name(c):
    f = c.func
    if isinstance(f, ast.Attribute):
        return f.attr
    if isinstance(f, ast.Name):
        return f.id
    return None


def _base_name(n):
    while isinstance(n, (ast.Subscript, ast.Attribute, ast.Starred)):
        n = n.value
    return n.id if isinstance(n, ast.Name) else None


def scan():
    """returns (memo functions, hits); hit = dict(file, function, line, name, memo, how, read_after)"""
    trees = {rel: ast.parse(src) for rel, src in _modules()}
    memo = {}
    for rel, tree in trees.items():
        for node in ast.walk(tree):
            if isinstance(node, (ast.FunctionDef, ast.AsyncFunctionDef)) and any(_deco_name(d) in MEMO_DECORATORS for d in node.decorator_list):
                memo[node.name] = f"{rel}:{node.name}"
    hits = []
    for rel, tree in trees.items():
        for fn in ast.walk(tree):
            if not isinstance(fn, (ast.FunctionDef, ast.AsyncFunctionDef)):
                continue
            shared = {}  # name -> memo function
            body = [n for n in ast.walk(fn)]
            # taint propagation in source order (two passes are enough for alias chains of length 2)
            assigns = sorted([n for n in body if isinstance(n, (ast.Assign, ast.AnnAssign)) and getattr(n, "value", None) is not None], key=lambda n: n.lineno)
            for _ in range(2):
                for a in assigns:
                    v = a.value
                    src = None
                    if isinstance(v, ast.Call) and _call_name(v) in memo:
                        src = _call_name(v)
                    elif _base_name(v) in shared and isinstance(v, (ast.Name, ast.Subscript)):
                        src = shared[_base_name(v)]
                    if src is None:
                        continue
                    targets = a.targets if isinstance(a, ast.Assign) else [a.target]
                    for t in targets:
                        for el in (t.elts if isinstance(t, (ast.Tuple, ast.List)) else [t]):
                            if isinstance(el, ast.Name):
                                shared[el.id] = src
            if not shared:
                continue
            writes = []
            for n in body:
                if isinstance(n, ast.AugAssign) and _base_name(n.target) in shared:
                    writes.append((n.lineno, _base_name(n.target), "augmented assignment"))
                elif isinstance(n, ast.Assign):
                    for t in n.targets:
                        if isinstance(t, ast.Subscript) and _base_name(t) in shared:
                            writes.append((n.lineno, _base_name(t), "item assignment"))
                elif isinstance(n, ast.Call):
                    for kw in n.keywords:
                        if kw.arg == "out":
                            for el in (kw.value.elts if isinstance(kw.value, (ast.Tuple, ast.List)) else [kw.value]):
                                if _base_name(el) in shared:
                                    writes.append((n.lineno, _base_name(el), "out= argument"))
                    if isinstance(n.func, ast.Attribute) and n.func.attr in WRITE_METHODS and _base_name(n.func.value) in shared:
                        writes.append((n.lineno, _base_name(n.func.value), f".{n.func.attr}()"))
                    if _call_name(n) == "copyto" and n.args and _base_name(n.args[0]) in shared:
                        writes.append((n.lineno, _base_name(n.args[0]), "np.copyto"))
            for (line, name, how) in writes:
                later = any(isinstance(n, ast.Name) and n.id != name and False for n in body)  # placeholder to keep flake quiet
                read_after = any(isinstance(n, ast.Name) and n.lineno >= line for n in body)
                hits.append({"file": rel, "function": fn.name, "line": line, "name": name, "memo": memo[shared[name]], "how": how, "read_after": bool(read_after)})
    return memo, hits


def replay_threads(cex):
    """installed library: every alignment model, the same molecules, synchronous scheduler vs 8 threads (3 repetitions): identical shifts and scores"""
    import dask
    from acryo import SubtomogramLoader, Molecules
    from acryo import alignment as al

    rng = np.random.default_rng(0)
    tomo = rng.normal(size=(48, 48, 48)).astype(np.float32)
    tmpl = rng.normal(size=(9, 9, 9)).astype(np.float32)
    pos = rng.uniform(10, 38, size=(24, 3))
    for p in pos:
        c = np.round(p).astype(int) + rng.integers(-1, 2, size=3)
        tomo[c[0] - 4:c[0] + 5, c[1] - 4:c[1] + 5, c[2] - 4:c[2] + 5] += tmpl * 3
    ld = SubtomogramLoader(tomo, Molecules(pos), order=1, output_shape=(9, 9, 9))
    bad = {}
    for name in ("ZNCCAlignment", "NCCAlignment", "PCCAlignment", "FSCAlignment"):
        Model = getattr(al, name)
        try:
            with dask.config.set(scheduler="synchronous"):
                ref = ld.align(tmpl, max_shifts=2.0, alignment_model=Model).molecules
            for rep in range(3):
                with dask.config.set(scheduler="threads", num_workers=8):
                    got = ld.align(tmpl, max_shifts=2.0, alignment_model=Model).molecules
                dpos = float(np.abs(got.pos - ref.pos).max())
                dsc = float(np.abs(got.features["score"].to_numpy() - ref.features["score"].to_numpy()).max())
                if dpos > 1e-6 or dsc > 1e-6:
                    bad[f"{name}, threaded run {rep + 1}"] = {"max_position_difference": dpos, "max_score_difference": dsc}
        except Exception as e:
            bad[name] = repr(e)[:160]
    return len(bad) > 0, {"synchronous_vs_8_threads": bad}


def run_section(rec, patches=None):
    rec.encodes("every module under acryo/ (AST): functions decorated with lru_cache / cache and every in-place write to an object they hand out")
    rec.assume("a memoised object is the same object for every caller in the process; tasks run the writing function concurrently; values are uninterpreted; "
               "only syntactic writes through a local name bound to the memo result are seen (writes behind further calls are not)")
    memo, hits = scan()
    rec.extra["memo functions"] = sorted(memo.values())
    Val = z3.DeclareSort("BufVal")
    for h in hits:
        tag = f"shared-buffer[{h['file']}:{h['function']} line {h['line']}: {h['name']} <- {h['memo']}, {h['how']}]"
        v1, v2 = z3.Consts("v1 v2", Val)
        # schedules of (T1.write, T1.read) and (T2.write): the value T1 reads is the last one written before its read
        sched = z3.Int("schedule")  # 0: T1.w T1.r T2.w | 1: T2.w T1.w T1.r | 2: T1.w T2.w T1.r
        r1 = z3.If(sched == 2, v2, v1)
        if h["read_after"]:
            rec.query(f"{tag}/task-1-reads-its-own-value-under-every-interleaving", [sched >= 0, sched <= 2], r1 == v1, key="C10/shared-buffer/written-by-tasks", replay=replay_threads, twin=False)
        else:
            rec.fact(f"{tag}/memoised-object-modified-in-place", False, key="C10/shared-buffer/written-by-tasks", detail=h, reproduced=replay_threads({})[0])
    rec.fact(f"shared-buffer/scan: {len(memo)} memo functions, {len(hits)} in-place writes to their results", True, key="C10/shared-buffer/scan", detail={"memo": sorted(memo.values())})
