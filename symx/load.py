"""symx.load -- execute the *unmodified source text* of acryo modules from /repo into fresh
module objects whose global names are then rebound to the symbolic shims.

* the genuine `acryo` is imported once first (third-party imports get cached; class
  hierarchies of modules we do not reload stay available);
* `functools.lru_cache` is neutralised while the source is exec'd (memoisation would key
  on proxy objects and leak results between paths);
* modules are loaded in the order given; while loading, already loaded shim modules are
  visible in `sys.modules` under their real dotted names so that `from acryo.x import Y`
  and class inheritance bind to the shim versions;
* afterwards names that refer to objects of other loaded modules are re-wired, and the
  explicit `overrides` (np, Rotation, int, round, ...) are applied.
Nothing in /repo is modified.  `patches` applies in-memory textual edits (mutants / trial
repairs): {module: [(old, new), ...]}.
"""
from __future__ import annotations

import functools
import hashlib
import importlib
import os
import sys
import types

REPO = os.environ.get("ACRYO_REPO", "/repo")

from .core import SymMath, symabs, symfloat, symint, symmax, symmin, symround
from .npshim import SymNP


_MISSING = object()
_ACTIVE: list = []


def _restore(saved, saved_attr):
    for name, old in saved.items():
        if old is not None:
            sys.modules[name] = old
        else:
            sys.modules.pop(name, None)
    for (parent, leaf), (pmod, old) in saved_attr.items():
        if old is _MISSING:
            pmod.__dict__.pop(leaf, None)
        else:
            setattr(pmod, leaf, old)


def real_modules():
    """context manager for replays: temporarily put the genuine acryo modules back while loaded shims are installed"""
    import contextlib

    @contextlib.contextmanager
    def cm():
        stack = list(_ACTIVE)
        for (_, saved, saved_attr) in reversed(stack):
            _restore(saved, saved_attr)
        try:
            yield
        finally:
            for (loaded, saved, saved_attr) in stack:
                for name, mod in loaded.items():
                    sys.modules[name] = mod
                for (parent, leaf), (pmod, old) in saved_attr.items():
                    setattr(pmod, leaf, loaded[parent + "." + leaf])

    return cm()


def _identity_lru_cache(*a, **kw):
    if len(a) == 1 and callable(a[0]) and not kw:
        return a[0]

    def deco(f):
        return f

    return deco


def module_path(modname: str) -> str:
    rel = modname.replace(".", "/")
    p = os.path.join(REPO, rel + ".py")
    if os.path.exists(p):
        return p
    return os.path.join(REPO, rel, "__init__.py")


def source_of(modname: str) -> str:
    with open(module_path(modname), encoding="utf-8") as f:
        return f.read()


def source_hash(modname: str) -> str:
    return hashlib.sha256(source_of(modname).encode()).hexdigest()[:16]


def default_overrides():
    return {
        "np": SymNP(),
        "int": symint,
        "float": symfloat,
        "round": symround,
        "max": symmax,
        "min": symmin,
        "abs": symabs,
        "math": SymMath(),
    }


class Loaded(dict):
    """dict modname -> module, with attribute-style access by last component."""

    def installed(self):
        """context manager: make the loaded modules visible in sys.modules (and as attributes of their parent
        packages) while symbolic code runs, so that imports executed at call time (`from .core import Molecules`
        inside a method) bind to the shim versions"""
        import contextlib

        @contextlib.contextmanager
        def cm():
            saved, saved_attr = {}, {}
            _ACTIVE.append((self, saved, saved_attr))
            try:
                for name, mod in self.items():
                    saved[name] = sys.modules.get(name)
                    sys.modules[name] = mod
                    parent, _, leaf = name.rpartition(".")
                    pmod = saved.get(parent) or sys.modules.get(parent)
                    if pmod is not None and leaf and parent not in self:
                        saved_attr[(parent, leaf)] = (pmod, pmod.__dict__.get(leaf, _MISSING))
                        setattr(pmod, leaf, mod)
                yield self
            finally:
                _ACTIVE.pop()
                _restore(saved, saved_attr)

        return cm()

    def __getattr__(self, name):
        for k, v in self.items():
            if k.split(".")[-1] == name or k.replace(".", "_") == name:
                return v
        raise AttributeError(name)


def load(modnames, overrides=None, patches=None, extra=None, keep=("np",), keep_cache=False) -> Loaded:
    """Load acryo modules from source.  Returns Loaded{modname: module}."""
    import acryo  # noqa: F401  (genuine import first)
    import acryo.alignment, acryo.loader, acryo.molecules, acryo.pipe, acryo.pick  # noqa
    import acryo.simulator, acryo.tilt, acryo.backend, acryo.classification  # noqa

    ov = default_overrides()
    if overrides:
        ov.update(overrides)
    patches = patches or {}
    loaded = Loaded()
    saved = {}
    saved_attr = {}
    real_lru = functools.lru_cache
    if not keep_cache:
        functools.lru_cache = _identity_lru_cache
    try:
        for name in modnames:
            src = source_of(name)
            for old, new in patches.get(name, []):
                if old not in src:
                    raise KeyError(f"patch target not found in {name}: {old!r}")
                src = src.replace(old, new)
            path = module_path(name)
            mod = types.ModuleType(name)
            mod.__file__ = path
            is_pkg = path.endswith("__init__.py")
            mod.__package__ = name if is_pkg else name.rpartition(".")[0]
            if is_pkg:
                mod.__path__ = [os.path.dirname(path)]
            code = compile(src, path, "exec")
            saved[name] = sys.modules.get(name)
            sys.modules[name] = mod
            parent, _, leaf = name.rpartition(".")
            pmod = sys.modules.get(parent)
            if pmod is not None and leaf:
                if (parent, leaf) not in saved_attr:
                    saved_attr[(parent, leaf)] = pmod.__dict__.get(leaf, _MISSING)
                setattr(pmod, leaf, mod)
            if not keep_cache:
                mod.__dict__["lru_cache"] = _identity_lru_cache
            exec(code, mod.__dict__)
            loaded[name] = mod
    finally:
        functools.lru_cache = real_lru
        for name, old in saved.items():
            if old is not None:
                sys.modules[name] = old
            else:
                sys.modules.pop(name, None)
        for (parent, leaf), old in saved_attr.items():
            pmod = sys.modules.get(parent)
            if pmod is None:
                continue
            if old is _MISSING:
                pmod.__dict__.pop(leaf, None)
            else:
                setattr(pmod, leaf, old)
    _rewire(loaded)
    for mod in loaded.values():
        for k, v in ov.items():
            if k in mod.__dict__ or k in ("int", "float", "round", "max", "min", "abs"):
                mod.__dict__[k] = v
        if extra:
            for k, v in extra.items():
                if k in mod.__dict__:
                    mod.__dict__[k] = v
    return loaded


def _rewire(loaded: Loaded):
    by_real = {}
    for name in loaded:
        real = sys.modules.get(name)
        if real is None:
            try:
                real = importlib.import_module(name)
            except Exception:
                real = None
        if real is not None:
            by_real[id(real)] = loaded[name]
    for mod in loaded.values():
        for k, v in list(mod.__dict__.items()):
            if k.startswith("__"):
                continue
            if isinstance(v, types.ModuleType):
                tgt = by_real.get(id(v))
                if tgt is not None and tgt is not mod:
                    mod.__dict__[k] = tgt
                continue
            owner = getattr(v, "__module__", None)
            if owner in loaded and owner != mod.__name__ and isinstance(v, (types.FunctionType, type)):
                qn = getattr(v, "__qualname__", None)
                if qn and "." not in qn and hasattr(loaded[owner], qn):
                    new = getattr(loaded[owner], qn)
                    if new is not v:
                        mod.__dict__[k] = new
