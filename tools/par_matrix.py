#!/usr/bin/env python3
"""tools/par_matrix.py [-j N] NAME:PROP ...  -- like seed_matrix.sh, but every pair runs against its own scratch worktree of /repo (under /tmp/wt/pm_*),
so several pairs run in parallel and /repo itself is never touched.  Prints one line per pair.  Evidence files written by these runs are scratch:
re-run tools/run_all.sh afterwards."""
import concurrent.futures as cf, os, subprocess, sys

args = sys.argv[1:]
jobs = 4
if args and args[0] == "-j":
    jobs = int(args[1]); args = args[2:]


def one(pair):
    name, prop = pair.split(":")
    patch = f"/tmp/seeded_out/{name}/patch.diff"
    if not os.path.exists(patch):
        patch = f"/verif/refactors/{name}/patch.diff"
    if not os.path.exists(patch):
        patch = f"/verif/seeded/{name}/patch.diff"
    wt = f"/tmp/wt/pm_{name}_{prop}"
    subprocess.run(["git", "-C", "/repo", "worktree", "remove", "--force", wt], capture_output=True)
    r = subprocess.run(["git", "-C", "/repo", "worktree", "add", "-q", "--detach", wt, "HEAD"], capture_output=True, text=True)
    if r.returncode:
        return f"{name} vs {prop}: WORKTREE FAILED {r.stderr[:100]}"
    try:
        r = subprocess.run(["git", "-C", wt, "apply", patch], capture_output=True, text=True)
        if r.returncode:
            return f"{name} vs {prop}: PATCH DOES NOT APPLY"
        env = dict(os.environ, ACRYO_REPO=wt, PYTHONPATH=f"/verif:{wt}", PYTHONDONTWRITEBYTECODE="1", OMP_NUM_THREADS="1", OPENBLAS_NUM_THREADS="1", MKL_NUM_THREADS="1", POLARS_MAX_THREADS="2")
        try:
            r = subprocess.run(["/verif/.venv/bin/python", "-u", "-W", "ignore", "-m", "checks.main", prop, "--procs", str(max(2, 16 // jobs))], cwd="/verif", env=env, capture_output=True, text=True, timeout=1500)
            rc = r.returncode
        except subprocess.TimeoutExpired:
            rc = 124
        return f"{name} vs {prop}: exit={rc}"
    finally:
        subprocess.run(["git", "-C", "/repo", "worktree", "remove", "--force", wt], capture_output=True)


with cf.ThreadPoolExecutor(max_workers=jobs) as ex:
    for line in ex.map(one, args):
        print(line, flush=True)
