import os, sys, importlib
os.environ["SYMX_MUTANT_RUN"]="1"
from symx import harness
mod = importlib.import_module("checks."+sys.argv[1])
ms = [m for m in mod.MUTANTS if sys.argv[2] in m[0]]
print(harness.run_mutants(sys.argv[1].upper(), ms))
