"""C19 -- image pipelines compose like functions and are parameterised in physical units.

Real code: acryo/pipe/_classes.py (ImageProvider, ImageConverter, _Pipeline), _curry.py (provider_function, converter_function),
_masking.py (_get_radius_px, _get_structure, dilation, closing, gaussian_smooth), _transform.py (gaussian_filter, shift,
lowpass_filter), _imread.py (from_array, from_arrays, from_gaussian), LoaderBase.normalize_template / normalize_mask.
Images are 1x1x2 arrays of symbolic voxels; converters are voxel-wise uninterpreted functions; scipy.ndimage calls are recorded.
"""
from __future__ import annotations

import itertools
import operator
from fractions import Fraction

import numpy as np
import z3

from symx import harness, load, stubs, smt
from symx import core as C
from symx.arrays import SymArray, to_symarray, _obj, elementwise
from symx.core import Sym, SymBool, explore, lift, real, _real, _coerce

from .common import TRUSTED, fl, frac, quick, select

PID = "C19"
MODS = ["acryo.pipe._classes", "acryo.pipe._curry", "acryo.pipe._masking", "acryo.pipe._transform", "acryo.pipe._imread"]
SHAPE = (1, 1, 2)


def zr(x):
    if isinstance(x, SymBool):
        return z3.If(x.e, z3.RealVal(1), z3.RealVal(0))
    if isinstance(x, (bool, np.bool_)):
        return z3.RealVal(int(x))
    return _real(lift(_coerce(x)))


class TagArr(np.ndarray):
    """result of a recorded scipy.ndimage call: a real (3-D) ndarray that remembers how it was made"""

    def __new__(cls, shape, rec):
        obj = np.zeros(shape, dtype=np.float32).view(cls)
        obj.rec = rec
        return obj


class NdiRec:
    def __init__(self):
        self.calls = []

    PRIMARY = {"sigma", "shift", "zoom"}  # the pixel-unit argument of each call: always reported positionally, whatever the call syntax was

    def _mk(self, name, *args, **kwargs):
        """the call is bound against scipy.ndimage's real signature, so positional and keyword spellings of the same call are recorded identically:
        (name, input image, (primary pixel argument,)?, every other argument by name)"""
        import inspect

        import scipy.ndimage as real_ndi

        fn = getattr(real_ndi, name, None)
        try:
            bound = inspect.signature(fn).bind(*args, **kwargs) if fn is not None else None
        except TypeError:
            raise
        if bound is None:
            img, a, k = args[0], tuple(args[1:]), dict(kwargs)
        else:
            names = list(bound.arguments)
            img = bound.arguments[names[0]]
            a = tuple(bound.arguments[n] for n in names[1:] if n in self.PRIMARY)
            k = {n: bound.arguments[n] for n in names[1:] if n not in self.PRIMARY}
        r = (name, img, a, k)
        self.calls.append(r)
        return TagArr(np.shape(img) if np.ndim(img) == 3 else (1, 1, 2), r)

    def __getattr__(self, name):
        if name.startswith("_"):
            raise AttributeError(name)
        return lambda *a, **k: self._mk(name, *a, **k)


def _load(patches=None, keep_cache=False):
    L = load.load(MODS, patches=patches, keep_cache=keep_cache)
    rec = NdiRec()
    L["acryo.pipe._masking"].ndi = rec
    L["acryo.pipe._transform"].ndi = rec
    L["acryo.pipe._transform"].ndi_shift = lambda *a, **k: rec._mk("shift", *a, **k)
    L["acryo.pipe._imread"].zoom = lambda *a, **k: rec._mk("zoom", *a, **k)
    L.ndi = rec
    return L


def image(stem):
    a = SymArray(shape=SHAPE)
    for idx in np.ndindex(SHAPE):
        a[idx] = real(f"{stem}_" + "_".join(map(str, idx)))
    return a


def provider(P, stem):
    """a provider whose image depends on the scale through an uninterpreted function of (voxel tag, scale)"""
    f = z3.Function(f"prov_{stem}", z3.IntSort(), z3.RealSort(), z3.RealSort())

    def fn(scale):
        a = SymArray(shape=SHAPE)
        for n, idx in enumerate(np.ndindex(SHAPE)):
            a[idx] = Sym(f(n, zr(scale)))
        return a

    fn.__name__ = stem
    return P.ImageProvider(fn)


def converter(P, stem):
    """a voxel-wise converter: out[v] = F(in[v], scale) with F uninterpreted"""
    F = z3.Function(f"conv_{stem}", z3.RealSort(), z3.RealSort(), z3.RealSort())

    def fn(img, scale):
        return elementwise(lambda v: Sym(F(zr(v), zr(scale))), img)

    fn.__name__ = stem
    return P.ImageConverter(fn), F


# ---------------------------------------------------------------------------------------


def replay_ops(cex):
    from acryo.pipe import from_array, from_gaussian
    from acryo.pipe._classes import ImageProvider, ImageConverter

    a = np.arange(8, dtype=np.float32).reshape(2, 2, 2) + 1
    p = ImageProvider(lambda scale: a * scale)
    bad = {}
    if not np.allclose((10 - p)(2.0), 10 - a * 2):
        bad["scalar - provider"] = (10 - p)(2.0).ravel()[:3].tolist()
    if not np.allclose((10 / p)(2.0), 10 / (a * 2)):
        bad["scalar / provider"] = (10 / p)(2.0).ravel()[:3].tolist()
    c = ImageConverter(lambda img, scale: img * scale)
    if not np.allclose((10 - c)(a, 2.0), 10 - a * 2):
        bad["scalar - converter"] = True
    if not np.allclose((10 / c)(a, 2.0), 10 / (a * 2)):
        bad["scalar / converter"] = True
    b = a[::-1].copy() * 1.5
    q = ImageProvider(lambda scale: b * scale)
    c2 = ImageConverter(lambda img, scale: (img + 1) * scale)
    ops = {"+": operator.add, "-": operator.sub, "*": operator.mul, "/": operator.truediv, "==": operator.eq, "!=": operator.ne, "<": operator.lt, "<=": operator.le, ">": operator.gt, ">=": operator.ge}
    for nm, op in ops.items():
        for form, build, want in (("provider", lambda: op(p, q)(2.0), op(a * 2, b * 2)), ("converter", lambda: op(c, c2)(a, 2.0), op(a * 2, (a + 1) * 2)),
                                  ("converter-op-provider", lambda: op(c, q)(a, 2.0), op(a * 2, b * 2)), ("provider-scalar", lambda: op(p, 6.0)(2.0), op(a * 2, 6.0))):
            try:
                got = build()
                if not np.allclose(np.asarray(got, dtype=np.float64), np.asarray(want, dtype=np.float64)):
                    bad[f"{form} {nm}"] = "wrong values"
            except Exception as e:
                bad[f"{form} {nm}"] = repr(e)[:120]
    # comparisons on images with equal voxels (ties): integer-valued images, an image compared with itself
    ti = (np.arange(8).reshape(2, 2, 2) % 3).astype(np.float32)
    tj = ((np.arange(8).reshape(2, 2, 2) + 1) % 3).astype(np.float32)
    pi_, pj_ = ImageProvider(lambda scale: ti), ImageProvider(lambda scale: tj)
    ci_, cj_ = ImageConverter(lambda img, scale: ti + 0 * img), ImageConverter(lambda img, scale: tj + 0 * img)
    for nm in ("==", "!=", "<", "<=", ">", ">="):
        op = ops[nm]
        for form, got in (("provider", lambda: op(pi_, pj_)(1.0)), ("provider-self", lambda: op(pi_, pi_)(1.0)), ("converter", lambda: op(ci_, cj_)(a, 1.0))):
            want = op(ti, tj if form != "provider-self" else ti)
            try:
                if not np.array_equal(np.asarray(got(), dtype=np.float64), np.asarray(want, dtype=np.float64)):
                    bad[f"ties: {form} {nm}"] = "wrong values"
            except Exception as e:
                bad[f"ties: {form} {nm}"] = repr(e)[:120]
    for n in (5, 6):
        g = from_gaussian(shape=(n * 0.5 + 0.15, n * 0.5 - 0.15, n * 0.5), sigma=0.8, shift=(0.25, 0.0, -0.5))(0.5)
        zz, yy, xx = np.indices((n,) * 3)
        ctr = (n - 1) / 2
        ref = np.exp(-0.5 * (((zz - ctr - 0.5) / 1.6) ** 2 + ((yy - ctr) / 1.6) ** 2 + ((xx - ctr + 1.0) / 1.6) ** 2))
        if g.shape != ref.shape or not np.allclose(g, ref, atol=1e-5):
            bad[f"from_gaussian(n={n})"] = {"argmax": [int(v) for v in np.unravel_index(np.argmax(g), g.shape)], "want_argmax": [int(v) for v in np.unravel_index(np.argmax(ref), ref.shape)]}
    return len(bad) > 0, {"problems": {k: (v if not isinstance(v, np.ndarray) else v.tolist()) for k, v in bad.items()}}


def sec_operators(rec, patches=None):
    L = _load(patches)
    P = L["acryo.pipe._classes"]
    rec.encodes("acryo/pipe/_classes.py:ImageProvider (operators)", "acryo/pipe/_classes.py:ImageConverter (operators)", "acryo/pipe/_classes.py:_Pipeline.__radd__/__rsub__/__rmul__/__rtruediv__")
    s, scale = real("s"), real("scale")
    hyps = [scale.e > 0, s.e != 0]
    x = image("x")
    arith = {"+": operator.add, "-": operator.sub, "*": operator.mul, "/": operator.truediv}
    cmps = {"==": operator.eq, "!=": operator.ne, "<": operator.lt, "<=": operator.le, ">": operator.gt, ">=": operator.ge}

    def ev_p(p):
        return _obj(p(scale))

    def ev_c(c):
        return _obj(c(x, scale))

    for kind in ("provider", "converter"):
        def run():
            pa, pb = provider(P, "a"), provider(P, "b")
            ca, Fa = converter(P, "ca")
            cb, Fb = converter(P, "cb")
            A_, B_ = (pa, pb) if kind == "provider" else (ca, cb)
            ev = ev_p if kind == "provider" else ev_c
            out = {}
            base_a, base_b = ev(A_), ev(B_)

            def tryev(build):
                try:
                    return ev(build())
                except Exception as e:  # a program result: reported per operator
                    return e

            for nm, op in {**arith, **cmps}.items():
                out[("obj", nm)] = (tryev(lambda: op(A_, B_)), base_a, base_b)
                out[("scalar-right", nm)] = (tryev(lambda: op(A_, s)), base_a, s)
            for nm, op in arith.items():
                out[("scalar-left", nm)] = (tryev(lambda: op(s, A_)), s, base_a)
            out[("neg", "-")] = (tryev(lambda: -A_), base_a, None)
            if kind == "converter":
                pb_img = _obj(pb(scale))
                for nm, op in {**arith, **cmps}.items():
                    out[("converter-op-provider", nm)] = (tryev(lambda: op(ca, pb)), base_a, pb_img)
            return out

        for pth in explore(run, assumptions=hyps, max_paths=20):
            if not pth.ok:
                rec.fact(f"operators[{kind}]/runs", False, key="C19/operators/raises", detail={"exc": repr(pth.exc)[:300]}, reproduced=replay_ops({})[0])
                continue
            h = hyps + [pth.condition()]
            for (form, nm), (got, l, r) in pth.result.items():
                op = {**arith, **cmps}.get(nm)
                if isinstance(got, Exception):
                    rec.fact(f"operators[{kind}]/{form} {nm}/evaluates", False, key=f"C19/operators/{form}[{nm}]-raises", detail={"exc": repr(got)[:200], **replay_ops({})[1]}, reproduced=replay_ops({})[0])
                    continue
                for idx in np.ndindex(SHAPE):
                    lv = l[idx] if isinstance(l, np.ndarray) else l
                    if form == "neg":
                        want = -zr(lv)
                    else:
                        rv = r[idx] if isinstance(r, np.ndarray) else r
                        lz, rz = zr(lv), zr(rv)
                        if nm in arith:
                            want = {"+": lz + rz, "-": lz - rz, "*": lz * rz, "/": lz / rz}[nm]
                        else:
                            c = {"==": lz == rz, "!=": lz != rz, "<": lz < rz, "<=": lz <= rz, ">": lz > rz, ">=": lz >= rz}[nm]
                            want = z3.If(c, z3.RealVal(1), z3.RealVal(0))
                    rec.query(f"operators[{kind}]/{form} {nm}/voxel{idx}", h, zr(got[idx]) == want, key=f"C19/operators/{form}[{nm}]", replay=replay_ops, twin=False, nonlinear=True)


def sec_compose(rec, patches=None):
    L = _load(patches)
    P, CU = L["acryo.pipe._classes"], L["acryo.pipe._curry"]
    rec.encodes("acryo/pipe/_classes.py:ImageConverter.compose/__matmul__", "acryo/pipe/_classes.py:ImageConverter.with_scale", "acryo/pipe/_curry.py:provider_function",
                "acryo/pipe/_curry.py:converter_function", "acryo/pipe/_curry.py:_assert_1_arg/_assert_2_args")
    scale = real("scale")
    x = image("x")

    def run():
        f, F = converter(P, "f")
        g, G = converter(P, "g")
        h_, H = converter(P, "h")
        p = provider(P, "p")
        return {
            "(f@g)@h": _obj(((f @ g) @ h_)(x, scale)), "f@(g@h)": _obj((f @ (g @ h_))(x, scale)), "nested": _obj(f(g(h_(x, scale), scale), scale)),
            "(f@g)@p": _obj(((f @ g) @ p)(scale)), "f@(g@p)": _obj((f @ (g @ p))(scale)), "nested-p": _obj(f(g(p(scale), scale), scale)),
            "with_scale": _obj(f.with_scale(scale)(x)), "direct": _obj(f(x, scale)), "types": (type(f @ g).__name__, type(f @ p).__name__),
        }

    for pth in explore(run, assumptions=[scale.e > 0]):
        if not pth.ok:
            rec.fact("compose/runs", False, key="C19/compose/raises", detail={"exc": repr(pth.exc)[:300]})
            continue
        r = pth.result
        for a, b in (("(f@g)@h", "nested"), ("f@(g@h)", "nested"), ("(f@g)@p", "nested-p"), ("f@(g@p)", "nested-p"), ("with_scale", "direct")):
            for idx in np.ndindex(SHAPE):
                rec.query(f"compose/{a} = {b}/voxel{idx}", [], zr(r[a][idx]) == zr(r[b][idx]), key="C19/compose/associative-nested", twin=False)
        rec.fact("compose/result-types", r["types"] == ("ImageConverter", "ImageProvider"), key="C19/compose/types", detail={"types": r["types"]})
    bad = []
    try:
        converter(P, "f")[0] @ 3
        bad.append("compose with a number accepted")
    except TypeError:
        pass
    rec.fact("compose/non-pipeline-rejected", not bad, key="C19/compose/rejects", detail={"bad": bad})
    # currying: the wrapped function is called with (scale | img, scale, *args, **kwargs)
    seen = []
    tokS, tokI = real("scaleval"), image("img")

    def p0():
        seen.append(("p0",))
        return tokI

    def p1(scale):
        seen.append(("p1", scale))
        return tokI

    def p3(scale, a, b=2):
        seen.append(("p3", scale, a, b))
        return tokI

    def c0():
        seen.append(("c0",))
        return tokI

    def c1(img):
        seen.append(("c1", img))
        return tokI

    def c2(img, scale):
        seen.append(("c2", img, scale))
        return tokI

    def c4(img, scale, a, b=2):
        seen.append(("c4", img, scale, a, b))
        return tokI

    CU.provider_function(p0)()(tokS)
    CU.provider_function(p1)()(tokS)
    CU.provider_function(p3)(7, b=9)(tokS)
    CU.converter_function(c0)()(tokI, tokS)
    CU.converter_function(c1)()(tokI, tokS)
    CU.converter_function(c2)()(tokI, tokS)
    CU.converter_function(c4)(7, b=9)(tokI, tokS)
    want = [("p0",), ("p1", tokS), ("p3", tokS, 7, 9), ("c0",), ("c1", tokI), ("c2", tokI, tokS), ("c4", tokI, tokS, 7, 9)]
    ok = len(seen) == len(want) and all(len(a) == len(b) and all(u is v or (not isinstance(u, (Sym, np.ndarray)) and u == v) for u, v in zip(a, b)) for a, b in zip(seen, want))
    rec.fact("curry/wrapped-function-receives-(scale|img,scale,*args)", ok, key="C19/curry/arguments", detail={"seen": [s[0] for s in seen]})
    rec.fact("curry/names", CU.provider_function(p3).__name__ == "p3" and CU.converter_function(c4)(1).__name__.startswith("c4("), key="C19/curry/names", detail={})


def sec_units(rec, patches=None):
    """nm parameters enter only through param/scale: scaling parameters and scale by the same factor changes nothing"""
    L = _load(patches)
    M, T, I = L["acryo.pipe._masking"], L["acryo.pipe._transform"], L["acryo.pipe._imread"]
    ndi = L.ndi
    rec.encodes("acryo/pipe/_masking.py:_get_radius_px", "acryo/pipe/_masking.py:dilation", "acryo/pipe/_masking.py:closing", "acryo/pipe/_masking.py:gaussian_smooth",
                "acryo/pipe/_masking.py:_get_structure", "acryo/pipe/_transform.py:gaussian_filter", "acryo/pipe/_transform.py:shift", "acryo/pipe/_imread.py:from_array", "acryo/pipe/_imread.py:from_arrays")
    rec.assume("scipy.ndimage calls (gaussian_filter, shift, zoom, binary_* morphology, distance_transform_edt) are recorded, not evaluated: only their pixel-unit arguments are checked")
    r, scale, lam = real("r"), real("scale"), real("lam")
    hyps = [scale.e > 0, lam.e > 0]
    # _get_radius_px
    for pth in explore(lambda: (M._get_radius_px(r, scale), M._get_radius_px(r * lam, scale * lam)), assumptions=hyps, max_paths=40):
        if not pth.ok:
            rec.fact("units/_get_radius_px/runs", False, key="C19/units/raises", detail={"exc": repr(pth.exc)[:200]})
            continue
        a, b = pth.result
        h = hyps + [pth.condition()]
        rec.query("units/_get_radius_px/scale-covariant", h, zr(a) == zr(b), key="C19/units/radius_px", names={"r", "scale", "lam"}, nonlinear=True)
        rpx = z3.If(r.e / scale.e >= 0, r.e / scale.e, -r.e / scale.e)
        rec.query("units/_get_radius_px/value", h, zr(a) == z3.If(rpx < 1, 0, z3.ToReal(-z3.ToInt(-rpx))), key="C19/units/radius_px-value", names={"r", "scale"}, nonlinear=True)
    # dilation / closing dispatch
    img = np.zeros((3, 3, 3), dtype=bool)
    for fname, pos, neg in (("dilation", "binary_dilation", "binary_erosion"), ("closing", "binary_closing", "binary_opening")):
        def run():
            del ndi.calls[:]
            out = getattr(M, fname)(r)(img, scale)
            return out, list(ndi.calls)

        for pi, pth in enumerate(explore(run, assumptions=hyps + [r.e / scale.e <= 3, r.e / scale.e >= -3], max_paths=80)):
            if not pth.ok:
                rec.fact(f"units/{fname}/path{pi}/runs", False, key=f"C19/mask/{fname}-raises", detail={"exc": repr(pth.exc)[:200]})
                continue
            out, calls = pth.result
            h = hyps + [pth.condition()]
            rpx = z3.If(r.e / scale.e >= 0, r.e / scale.e, -r.e / scale.e)
            if out is img:
                rec.query(f"units/{fname}/path{pi}/identity<=>radius_px<1", h, rpx < 1, key=f"C19/mask/{fname}-identity", names={"r", "scale"}, nonlinear=True)
                continue
            ok_one = len(calls) == 1 and calls[0][1] is img
            rec.fact(f"units/{fname}/path{pi}/one-morphology-call-on-the-input", ok_one, key=f"C19/mask/{fname}-call", detail={"calls": [c[0] for c in calls]})
            if not ok_one:
                continue
            name, _, a_, kw = calls[0]
            rec.query(f"units/{fname}/path{pi}/{name}<=>sign", h, (r.e > 0) if name == pos else (r.e < 0) if name == neg else z3.BoolVal(False), key=f"C19/mask/{fname}-dispatch",
                      names={"r", "scale"}, nonlinear=True)
            st = kw.get("structure")
            okshape = st is not None and np.ndim(st) == 3 and len(set(st.shape)) == 1 and st.shape[0] % 2 == 1 and kw.get("border_value") is False
            rec.fact(f"units/{fname}/path{pi}/structure-is-an-odd-cube,border_value=False", bool(okshape), key=f"C19/mask/{fname}-structure", detail={})
            if okshape:
                rr = (st.shape[0] - 1) // 2
                rec.query(f"units/{fname}/path{pi}/structure-radius=ceil(radius_px)", h + [rpx >= 1], z3.ToReal(-z3.ToInt(-rpx)) == rr, key=f"C19/mask/{fname}-structure-radius",
                          names={"r", "scale"}, nonlinear=True)
                goal = z3.And(*[zr(st[idx]) == (1 if sum((i - rr) ** 2 for i in idx) <= rr * rr else 0) for idx in np.ndindex(st.shape)])
                rec.query(f"units/{fname}/path{pi}/structure-is-the-ball-of-that-radius", h, goal, key=f"C19/mask/{fname}-structure-ball", names={"r", "scale"}, nonlinear=True)
    # gaussian_filter / shift: pixel arguments
    sig = real("sigma")
    sh = [real(f"sh{a}") for a in range(3)]
    im3 = np.zeros((2, 2, 2), dtype=np.float32)

    def run2():
        del ndi.calls[:]
        T.gaussian_filter(sigma=sig)(im3, scale)
        T.shift(tuple(sh))(im3, scale)
        return list(ndi.calls)

    for pth in explore(run2, assumptions=hyps):
        if not pth.ok:
            rec.fact("units/transform/runs", False, key="C19/units/raises", detail={"exc": repr(pth.exc)[:200]})
            continue
        calls = pth.result
        gf = next((c for c in calls if c[0] == "gaussian_filter"), None)
        shc = next((c for c in calls if c[0] == "shift"), None)
        rec.query("units/gaussian_filter/sigma_px", hyps, zr(gf[2][0]) == sig.e / scale.e, key="C19/units/gaussian_filter", nonlinear=True) if gf else rec.fact("units/gaussian_filter/called", False, key="C19/units/gaussian_filter", detail={})
        if shc:
            for a in range(3):
                rec.query(f"units/shift/px{a}", hyps, zr(shc[2][0][a]) == sh[a].e / scale.e, key="C19/units/shift", nonlinear=True)
        else:
            rec.fact("units/shift/called", False, key="C19/units/shift", detail={})
    # gaussian_smooth: exp(-d^2 / 2 sigma_px^2), 0 -> 1
    mimg = np.zeros((1, 1, 2), dtype=bool)
    mimg[0, 0, 0] = True
    dsym = [real("d0"), real("d1")]

    def fake_edt(x):
        return to_symarray([[dsym]])

    ndi.distance_transform_edt = fake_edt

    def run3():
        return M.gaussian_smooth(sig)(mimg, scale)

    for pth in explore(run3, assumptions=hyps + [sig.e > 0], max_paths=20):
        if not pth.ok:
            rec.fact("units/gaussian_smooth/runs", False, key="C19/mask/gaussian_smooth-raises", detail={"exc": repr(pth.exc)[:300]})
            continue
        out = _obj(pth.result)
        for k in range(2):
            t = zr(out[0, 0, k])
            ok = z3.is_app(t) and t.decl().name() == "Exp"
            rec.fact(f"units/gaussian_smooth/voxel{k}-is-exp", ok, key="C19/mask/gaussian_smooth-form", detail={"term": str(t)[:120]})
            if ok:
                arg = t.children()[0]
                rec.query(f"units/gaussian_smooth/voxel{k}-exponent", hyps + [sig.e > 0], arg == -(dsym[k].e * dsym[k].e) / (2 * (sig.e / scale.e) * (sig.e / scale.e)), key="C19/mask/gaussian_smooth-exponent",
                          nonlinear=True)
    # from_array: unchanged iff |orig/scale - 1| < tol, else zoom by orig/scale
    orig, tol = real("orig"), real("tol")
    arr = np.zeros((2, 2, 2), dtype=np.float32)

    def run4():
        del ndi.calls[:]
        out = I.from_array(arr, orig, tol)(scale)
        return out, list(ndi.calls)

    h4 = hyps + [orig.e > 0, tol.e > 0]
    for pi, pth in enumerate(explore(run4, assumptions=h4, max_paths=20)):
        if not pth.ok:
            rec.fact(f"units/from_array/path{pi}/runs", False, key="C19/units/from_array-raises", detail={"exc": repr(pth.exc)[:200]})
            continue
        out, calls = pth.result
        h = h4 + [pth.condition()]
        ratio = orig.e / scale.e
        within = z3.And(ratio - 1 < tol.e, 1 - ratio < tol.e)
        if out is arr:
            rec.query(f"units/from_array/path{pi}/unchanged=>within-tolerance", h, within, key="C19/units/from_array-tolerance", nonlinear=True)
        else:
            rec.query(f"units/from_array/path{pi}/resampled=>outside-tolerance", h, z3.Not(within), key="C19/units/from_array-tolerance", nonlinear=True)
            z = next((c for c in calls if c[0] == "zoom"), None)
            if z is None:
                rec.fact(f"units/from_array/path{pi}/zoom-called", False, key="C19/units/from_array-zoom", detail={})
            else:
                rec.query(f"units/from_array/path{pi}/zoom-factor=orig/scale", h, zr(z[2][0]) == ratio, key="C19/units/from_array-zoom", nonlinear=True)


def replay_readers(cex):
    """installed library: from_arrays / from_files honour tol and original_scale like a list of single providers; from_file returns what the file holds now"""
    import os
    import tempfile
    from acryo import pipe
    from acryo._reader import REG

    rng = np.random.default_rng(0)
    bad = []
    imgs = [rng.normal(size=(24, 20, 18)).astype(np.float32), rng.normal(size=(12, 12, 12)).astype(np.float32)]
    for tol in (0.01, 0.1, 0.3):
        for sc in (1.0, 1.08, 0.8, 1.25):
            a = pipe.from_arrays(imgs, original_scale=1.0, tol=tol)(sc)
            b = [pipe.from_array(im, original_scale=1.0, tol=tol)(sc) for im in imgs]
            if len(a) != len(b) or any(x.shape != y.shape or not np.allclose(x, y) for x, y in zip(a, b)):
                bad.append({"from_arrays": {"tol": tol, "scale": sc, "shapes": [list(x.shape) for x in a], "single": [list(y.shape) for y in b]}})
    with tempfile.TemporaryDirectory() as d:
        path = os.path.join(d, "t.mrc")
        try:
            import mrcfile

            prov_old = None
            for k, im in enumerate((imgs[1], imgs[1][::-1].copy() * 2)):
                with mrcfile.new(path, overwrite=True) as mrc:
                    mrc.set_data(im)
                    mrc.voxel_size = 10.0  # 1 nm
                prov_old = prov_old or pipe.from_file(path)
                old = prov_old(1.0)
                if old.shape != im.shape or not np.allclose(old, im, atol=1e-5):
                    bad.append({"from_file": f"provider created before write #{k + 1}: the provided image is not the image in the file"})
                got = pipe.from_file(path)(1.0)
                if got.shape != im.shape or not np.allclose(got, im, atol=1e-5):
                    bad.append({"from_file": f"after write #{k + 1} the provided image is not the image in the file"})
                got2 = pipe.from_files([path])(1.0)[0]
                if got2.shape != im.shape or not np.allclose(got2, im, atol=1e-5):
                    bad.append({"from_files": f"after write #{k + 1} the provided image is not the image in the file"})
                # an explicit original_scale that differs from the voxel size in the header (1 nm): it is the override that sets the zoom
                ov = pipe.from_file(path, original_scale=2.0)(1.0)
                ref = pipe.from_array(im, original_scale=2.0)(1.0)
                if ov.shape != ref.shape or not np.allclose(ov, ref, atol=1e-5):
                    bad.append({"from_file(original_scale=2.0)(1.0) on a file with a 1 nm header": {"shape": list(ov.shape), "want": list(ref.shape)}})
                ov = pipe.from_file(path, original_scale=0.5)(0.5)
                if ov.shape != im.shape or not np.allclose(ov, im, atol=1e-5):
                    bad.append({"from_file(original_scale=0.5)(0.5)": {"shape": list(ov.shape), "want": list(im.shape)}})
        except Exception as e:
            bad.append({"from_file": "raised " + repr(e)[:120]})
    return len(bad) > 0, {"n": len(bad), "examples": bad[:4]}


def sec_readers(rec, patches=None):
    """from_file / from_files / from_arrays: the file is read at every call, the batch variants forward original_scale and tol to the single providers"""
    L = _load(patches, keep_cache=True)  # functools.lru_cache stays active: memoising a reader by path would go stale
    I = L["acryo.pipe._imread"]
    ndi = L.ndi
    rec.encodes("acryo/pipe/_imread.py:from_file", "acryo/pipe/_imread.py:from_files", "acryo/pipe/_imread.py:from_arrays", "acryo/pipe/_imread.py:from_array")
    rec.assume("the image reader is replaced by a stand-in that returns (image #k, voxel size) for the k-th read of a path: a file may be rewritten between two calls; zoom is recorded")
    reads = []

    class Reader:
        def imread_array(self, path):
            reads.append(path)
            im = np.zeros((2, 2, 2), dtype=np.float32)
            im[0, 0, 0] = len(reads)
            return im, fscale

    fscale = real("file_scale")
    scale, tol, orig = real("scale"), real("tol"), real("orig")
    I.REG = Reader()
    hyps = [scale.e > 0, tol.e > 0, orig.e > 0, fscale.e > 0]
    arr = [np.zeros((2, 2, 2), dtype=np.float32), np.ones((2, 2, 2), dtype=np.float32)]

    def run():
        del reads[:]
        del ndi.calls[:]
        prov = I.from_file("p.mrc", orig, tol)
        out1 = prov(scale)
        out2 = prov(scale)
        out3 = I.from_file("p.mrc", orig, tol)(scale)
        n_reads = len(reads)
        calls_file = list(ndi.calls)
        del ndi.calls[:]
        outs = I.from_arrays(arr, orig, tol)(scale)
        calls_arrs = list(ndi.calls)
        del ndi.calls[:]
        single = [I.from_array(a_, orig, tol)(scale) for a_ in arr]
        return (out1, out2, out3, n_reads, calls_file), (outs, calls_arrs, single, list(ndi.calls))

    for pi, p in enumerate(explore(run, assumptions=hyps, max_paths=40)):
        if not p.ok:
            ok, det = replay_readers({})
            rec.fact(f"readers/path{pi}/runs", False, key="C19/readers/raises", detail={"exc": repr(p.exc)[:300], **det}, reproduced=ok)
            continue
        (o1, o2, o3, n_reads, cf), (outs, ca, single, cs) = p.result
        h = hyps + [p.condition()]
        rec.fact(f"readers/path{pi}/the-file-is-read-at-every-call", n_reads == 3, key="C19/readers/file-read-each-call", detail={"reads": n_reads}, reproduced=True if n_reads == 3 else replay_readers({})[0])

        def version(o):
            src = o.rec[1] if isinstance(o, TagArr) else o
            return float(np.asarray(src)[0, 0, 0])

        vs = [version(o) for o in (o1, o2, o3)]
        rec.fact(f"readers/path{pi}/each-call-provides-the-image-read-at-that-call", vs == [1.0, 2.0, 3.0], key="C19/readers/stale-file", detail={"versions": vs}, reproduced=True if vs == [1.0, 2.0, 3.0] else replay_readers({})[0])
        # the explicit original_scale (not the voxel size stored in the file) decides whether and by how much the image is resampled
        ratio = orig.e / scale.e
        within = z3.And(ratio - 1 < tol.e, 1 - ratio < tol.e)
        zooms = [c for c in cf if c[0] == "zoom"]
        if zooms:
            rec.query(f"readers/path{pi}/from_file(original_scale=s0): resampled=>s0 outside the tolerance", h, z3.Not(within), key="C19/readers/from_file-scale", replay=replay_readers, nonlinear=True, twin=False)
            for zi_, zc in enumerate(zooms):
                rec.query(f"readers/path{pi}/from_file(original_scale=s0): zoom#{zi_}=s0/scale", h, zr(zc[2][0]) == ratio, key="C19/readers/from_file-scale", replay=replay_readers, nonlinear=True, twin=False)
        else:
            rec.query(f"readers/path{pi}/from_file(original_scale=s0): unchanged=>s0 within the tolerance", h, within, key="C19/readers/from_file-scale", replay=replay_readers, nonlinear=True, twin=False)
        # batch provider == list of single providers (same zoom decisions and factors)
        same_n = len(outs) == len(single) == 2 and len(ca) == len(cs)
        rec.fact(f"readers/path{pi}/from_arrays-makes-the-same-resampling-decisions-as-single-providers", bool(same_n), key="C19/readers/from_arrays", detail={"zoom_calls": [len(ca), len(cs)]},
                 reproduced=True if same_n else replay_readers({})[0])
        if same_n:
            for k, (x, y) in enumerate(zip(ca, cs)):
                rec.query(f"readers/path{pi}/from_arrays/zoom{k}-factor", h, zr(x[2][0]) == zr(y[2][0]), key="C19/readers/from_arrays", replay=replay_readers, twin=False, nonlinear=True)
            for k, (x, y) in enumerate(zip(outs, single)):
                okk = (isinstance(x, TagArr) == isinstance(y, TagArr)) and (isinstance(x, TagArr) or x is arr[k])
                rec.fact(f"readers/path{pi}/from_arrays/image{k}-unchanged-iff-single-provider-leaves-it-unchanged", bool(okk), key="C19/readers/from_arrays", detail={}, reproduced=True if okk else replay_readers({})[0])


def sec_gaussian(rec, patches=None):
    """from_gaussian: exponent = -1/2 sum_i ((x_i - c_i)/sigma_i)^2 with c = (n-1)/2 + shift/scale"""
    L = _load(patches)
    I = L["acryo.pipe._imread"]
    rec.encodes("acryo/pipe/_imread.py:from_gaussian", "acryo/pipe/_imread.py:_as_3_array")
    rec.assume("exp is an uninterpreted injective function: the Gaussian is identified by its exponent")
    scale = real("scale")
    sg = [real(f"sg{a}") for a in range(3)]
    sh = [real(f"shift{a}") for a in range(3)]
    dl = [real(f"dl{a}") for a in range(3)]
    hyps = [scale.e > 0] + [s.e > 0 for s in sg] + [z3.And(d.e >= Fraction(-2, 5), d.e <= Fraction(2, 5)) for d in dl]
    for n in ((2, 3, 2), (3, 2, 4)):
        # shape in nm = (n + dl) * scale with |dl| <= 0.4: shape/scale rounds to n, and is in general not an integer
        def run():
            return I.from_gaussian(shape=tuple((k + d) * scale for k, d in zip(n, dl)), sigma=tuple(sg), shift=tuple(sh))(scale)

        for pi, pth in enumerate(explore(run, assumptions=hyps, max_paths=30)):
            tag = f"from_gaussian[n={n}]/path{pi}"
            if not pth.ok:
                ok, det = replay_ops({})
                rec.fact(f"{tag}/runs", False, key="C19/from_gaussian/raises", detail={"exc": repr(pth.exc)[:300], **det}, reproduced=ok)
                continue
            out = _obj(pth.result)
            h = hyps + [pth.condition()]
            oksh = out.shape == tuple(n)
            rec.fact(f"{tag}/shape", oksh, key="C19/from_gaussian/shape", detail={"shape": list(out.shape)})
            if not oksh:
                continue
            for idx in np.ndindex(tuple(n)):
                t = zr(out[idx])
                if not (z3.is_app(t) and t.decl().name() == "Exp"):
                    rec.fact(f"{tag}/voxel{idx}-is-exp", False, key="C19/from_gaussian/form", detail={"term": str(t)[:100]})
                    continue
                arg = t.children()[0]
                want = z3.RealVal(0)
                for a in range(3):
                    c = Fraction(n[a] - 1, 2) + sh[a].e / scale.e
                    want = want + ((idx[a] - c) / (sg[a].e / scale.e)) * ((idx[a] - c) / (sg[a].e / scale.e))
                rec.query(f"{tag}/voxel{idx}-exponent", h, arg == -want / 2, key="C19/from_gaussian/centre-and-exponent", names={"scale"} | {f"sg{a}" for a in range(3)} | {f"shift{a}" for a in range(3)} | {f"dl{a}" for a in range(3)},
                          replay=replay_ops, nonlinear=True, twin=False)


def replay_purity(cex):
    """installed library: no converter modifies the image it is given; operators of converters therefore equal the operators of their results"""
    from acryo import pipe

    rng = np.random.default_rng(2)
    img = rng.normal(size=(9, 10, 8)).astype(np.float32)
    img[3:6, 3:7, 2:6] += 4
    mask = img > 2
    bad = {}
    convs = {"threshold_otsu": (pipe.threshold_otsu(), img), "dilation(+)": (pipe.dilation(1.2), mask), "dilation(-)": (pipe.dilation(-1.2), mask), "closing": (pipe.closing(1.2), mask),
             "gaussian_smooth": (pipe.gaussian_smooth(1.5), mask), "soft_otsu": (pipe.soft_otsu(1.0, 1.0), img), "center_by_mass": (pipe.center_by_mass(), img),
             "gaussian_filter": (pipe.gaussian_filter(sigma=1.0), img), "lowpass_filter": (pipe.lowpass_filter(0.3), img), "highpass_filter": (pipe.highpass_filter(0.1), img), "shift": (pipe.shift((0.5, 0, 1)), img)}
    for name, (cv, x) in convs.items():
        x0 = x.copy()
        try:
            first = np.asarray(cv(x, 1.0)).copy()
            if not np.array_equal(x, x0):
                bad[name] = "input modified in place"
                x[...] = x0
                continue
            again = np.asarray(cv(x, 1.0))
            if first.shape != again.shape or not np.allclose(first, again, equal_nan=True):
                bad[name] = "second call on the same image differs"
        except Exception as e:
            bad[name] = repr(e)[:120]
    wide, narrow = pipe.gaussian_smooth(2.0), pipe.gaussian_smooth(1.0)
    m0 = mask.copy()
    d = (wide - narrow)(mask, 1.0)
    ref = wide(m0.copy(), 1.0) - narrow(m0.copy(), 1.0)
    if not np.allclose(d, ref, atol=1e-6):
        bad["(wide - narrow)(mask) vs wide(mask) - narrow(mask)"] = float(np.abs(d - ref).max())
    return len(bad) > 0, {"problems": bad}


def sec_purity(rec, patches=None):
    """converters do not modify the image they are given (an operator of converters evaluates both operands on the same image object)"""
    L = _load(patches)
    M, T = L["acryo.pipe._masking"], L["acryo.pipe._transform"]
    ndi = L.ndi
    rec.encodes("acryo/pipe/_masking.py:threshold_otsu/dilation/closing/gaussian_smooth/soft_otsu (input not modified)", "acryo/pipe/_transform.py:center_by_mass/gaussian_filter/lowpass_filter/highpass_filter/shift (input not modified)",
                "acryo/pipe/_classes.py:ImageConverter.__sub__ (operands share the input)")
    rec.assume("scipy.ndimage calls are recorded and return new arrays (scipy's own purity is not the subject); the distance transform returns symbolic distances")
    sig, scale, r = real("sigma"), real("scale"), real("r")
    hyps = [scale.e > 0, sig.e > 0]
    dsym = [real(f"d{k}") for k in range(4)]
    ndi.distance_transform_edt = lambda x, *a, **k: to_symarray(dsym).reshape(np.shape(x))
    masks = [np.array([[[True, False], [False, True]]]), np.array([[[False, True], [True, True]]])]
    cases = []
    for mk in masks:
        cases.append(("gaussian_smooth", lambda m: M.gaussian_smooth(sig)(m, scale), mk, hyps))
        cases.append(("dilation", lambda m: M.dilation(r)(m, scale), mk, hyps + [r.e / scale.e <= 2, r.e / scale.e >= -2]))
        cases.append(("closing", lambda m: M.closing(r)(m, scale), mk, hyps + [r.e / scale.e <= 2, r.e / scale.e >= -2]))
        cases.append(("gaussian_smooth(wide) - gaussian_smooth(narrow)", lambda m: (M.gaussian_smooth(sig * 2) - M.gaussian_smooth(sig))(m, scale), mk, hyps))
    fimg = np.arange(8, dtype=np.float32).reshape(2, 2, 2)
    cases.append(("gaussian_filter", lambda m: T.gaussian_filter(sigma=sig)(m, scale), fimg, hyps))
    cases.append(("shift", lambda m: T.shift((sig, 0, sig))(m, scale), fimg, hyps))
    for ci, (name, fn, arr, hy) in enumerate(cases):
        def run():
            x = arr.copy()
            out = fn(x)
            return x, out

        for pi, pth in enumerate(explore(run, assumptions=hy, max_paths=60)):
            tag = f"purity/{name}#{ci}/path{pi}"
            if not pth.ok:
                rec.fact(f"{tag}/runs", False, key="C19/purity/raises", detail={"exc": repr(pth.exc)[:300]}, reproduced=replay_purity({})[0])
                continue
            x, out = pth.result
            same = isinstance(x, np.ndarray) and x.dtype == arr.dtype and np.array_equal(x, arr)
            rec.fact(f"{tag}/input-not-modified", bool(same), key="C19/purity/input-modified", detail={"before": arr.astype(float).ravel().tolist(), "after": np.asarray(x, dtype=object).ravel().tolist().__repr__()[:200]},
                     reproduced=True if same else replay_purity({})[0])
            if " - " in name and same:
                # the difference of two converters is the difference of their results on the same mask: exp(-d^2/2(2s)^2) - exp(-d^2/2s^2), voxel by voxel
                o = _obj(out)
                flat = o.reshape(-1)
                for k in range(flat.size):
                    t = zr(flat[k])
                    s2 = (sig.e / scale.e) * (sig.e / scale.e)
                    want_w = -(dsym[k].e * dsym[k].e) / (2 * 4 * s2)
                    want_n = -(dsym[k].e * dsym[k].e) / (2 * s2)
                    exps = _exp_args(t)
                    ok = len(exps) == 2
                    rec.fact(f"{tag}/voxel{k}-is-a-difference-of-two-gaussians", ok, key="C19/purity/operator-form", detail={"term": str(t)[:160]}, reproduced=True if ok else replay_purity({})[0])
                    if ok:
                        rec.query(f"{tag}/voxel{k}-exponents", hy + [pth.condition()], z3.Or(z3.And(exps[0] == want_w, exps[1] == want_n), z3.And(exps[0] == want_n, exps[1] == want_w)),
                                  key="C19/purity/operator-exponents", replay=replay_purity, nonlinear=True, twin=False)


def sec_provider_purity(rec, patches=None):
    """a provider is a function of the scale alone: evaluating it does not modify the parameter arrays it was built from (float64 arrays are the risky case: np.asarray returns the
    caller's own array), so a second evaluation equals the first"""
    # numpy with its own aliasing semantics (np.asarray of a float64 array IS that array); concrete scales: the claim is about object identity, not about values
    from symx.npshim import SymNP

    L = load.load(MODS, overrides={"np": SymNP(symbolic_float_arrays=False)}, patches=patches)
    I = L["acryo.pipe._imread"]
    rec.encodes("acryo/pipe/_imread.py:from_gaussian (parameters not modified)", "acryo/pipe/_imread.py:_as_3_array", "acryo/pipe/_imread.py:from_array")
    for sc in (0.5, 2.0):
        for dt in (np.float64, np.float32, "tuple"):
            def mk(v):
                return tuple(v) if dt == "tuple" else np.array(v, dtype=dt)

            params = {"shape": mk([3.0, 2.0, 4.0]), "sigma": mk([1.0, 1.5, 0.5]), "shift": mk([0.5, 0.0, -0.5])}
            before = {k: (np.array(v, dtype=float).copy()) for k, v in params.items()}
            tag = f"provider-purity/from_gaussian[scale={sc},{dt if isinstance(dt, str) else np.dtype(dt).name}]"

            def run():
                p = I.from_gaussian(shape=params["shape"], sigma=params["sigma"], shift=params["shift"])
                a = p(sc)
                b = p(sc)
                return a, b

            for pi, pth in enumerate(explore(run, max_paths=10)):
                if not pth.ok:
                    rec.fact(f"{tag}/path{pi}/runs", False, key="C19/provider-purity/raises", detail={"exc": repr(pth.exc)[:300]}, reproduced=replay_provider_purity({})[0])
                    for k, v in params.items():
                        if not isinstance(v, tuple):
                            v[...] = before[k]
                    continue
                a, b = (_obj(x) for x in pth.result)
                okp = all(np.array_equal(np.array(params[k], dtype=float), before[k]) for k in params)
                rec.fact(f"{tag}/path{pi}/parameters-not-modified", bool(okp), key="C19/provider-purity/parameters-modified", detail={k: np.array(v, dtype=float).tolist() for k, v in params.items()},
                         reproduced=True if okp else replay_provider_purity({})[0])
                same = a.shape == b.shape and np.allclose(np.asarray(a, dtype=float), np.asarray(b, dtype=float))
                rec.fact(f"{tag}/path{pi}/second-evaluation-equals-the-first", bool(same), key="C19/provider-purity/not-repeatable", detail={"shapes": [list(a.shape), list(b.shape)]},
                         reproduced=True if same else replay_provider_purity({})[0])
                for k, v in params.items():
                    if not isinstance(v, tuple):
                        v[...] = before[k]


def replay_provider_purity(cex):
    from acryo import pipe

    bad = {}
    for dt in (np.float64, np.float32):
        shape, sigma, shift = (np.array(v, dtype=dt) for v in ([6.0, 7.0, 8.0], [1.0, 1.5, 0.8], [0.5, 0.0, -0.5]))
        keep = [x.copy() for x in (shape, sigma, shift)]
        p = pipe.from_gaussian(shape=shape, sigma=sigma, shift=shift)
        try:
            a = np.asarray(p(0.5))
            b = np.asarray(p(0.5))
            q = (p + p)(0.5)
        except Exception as e:
            bad[np.dtype(dt).name] = repr(e)[:160]
            continue
        if a.shape != b.shape or not np.allclose(a, b) or not all(np.array_equal(x, k) for x, k in zip((shape, sigma, shift), keep)) or not np.allclose(q, 2 * a):
            bad[np.dtype(dt).name] = {"first_shape": list(a.shape), "second_shape": list(b.shape), "shape_parameter_now": shape.tolist()}
    return len(bad) > 0, {"problems": bad}


def _exp_args(t):
    out, stack, seen = [], [t], set()
    while stack:
        u = stack.pop()
        if u.get_id() in seen:
            continue
        seen.add(u.get_id())
        if z3.is_app(u) and u.decl().name() == "Exp":
            out.append(u.children()[0])
            continue
        stack.extend(u.children())
    return out


def sec_normalize(rec, patches=None):
    """LoaderBase.normalize_template / normalize_mask / normalize_input call providers/converters with the loader's scale"""
    L = load.load(MODS + ["acryo.loader._base"], patches=patches)
    P, LB = L["acryo.pipe._classes"], L["acryo.loader._base"]
    rec.encodes("acryo/loader/_base.py:LoaderBase.normalize_template", "acryo/loader/_base.py:LoaderBase.normalize_mask", "acryo/loader/_base.py:LoaderBase.normalize_input")
    scale = real("scale")

    class Ld(LB.LoaderBase):
        molecules = None

        def construct_loading_tasks(self, *a, **k):
            raise NotImplementedError

        def replace(self, **k):
            raise NotImplementedError

    ld = Ld.__new__(Ld)
    ld._scale = scale
    seen = []
    t = image("t")
    prov = P.ImageProvider(lambda s: seen.append(("p", s)) or t)
    conv = P.ImageConverter(lambda img, s: seen.append(("c", img, s)) or img)
    out_t = ld.normalize_template(prov)
    m = ld.normalize_mask(conv)
    out_m = m(t)
    tt, mm = ld.normalize_input(prov, conv)
    ok = out_t is t and seen[0][0] == "p" and seen[0][1] is scale and out_m is t and seen[1][0] == "c" and seen[1][1] is t and seen[1][2] is scale and tt is t and mm is t
    rec.fact("normalize/providers-and-converters-get-the-loader-scale", bool(ok), key="C19/loader/normalize", detail={"seen": [s[0] for s in seen]})
    arr4 = np.zeros((2, 1, 1, 2), dtype=np.float32)
    lst = ld.normalize_template(arr4, allow_multiple=True)
    rec.fact("normalize/4d-template-is-a-list", isinstance(lst, list) and len(lst) == 2, key="C19/loader/normalize-multi", detail={})


def sections(tier):
    return [("operators", "checks.c19", "sec_operators", {}), ("compose", "checks.c19", "sec_compose", {}), ("units", "checks.c19", "sec_units", {}),
            ("gaussian", "checks.c19", "sec_gaussian", {}), ("normalize", "checks.c19", "sec_normalize", {}), ("readers", "checks.c19", "sec_readers", {}), ("purity", "checks.c19", "sec_purity", {}), ("provider-purity", "checks.c19", "sec_provider_purity", {})]


_CL, _MK, _TR, _IM, _LB = "acryo.pipe._classes", "acryo.pipe._masking", "acryo.pipe._transform", "acryo.pipe._imread", "acryo.loader._base"
MUTANTS = [
    ("rsub-is-sub (defect fixed by 'fix: reflected subtraction...')", "checks.c19", "sec_operators", {}, {_CL: [("        return -self + other\n", "        return self - other\n")]}),
    ("provider-rtruediv-is-truediv", "checks.c19", "sec_operators", {}, {_CL: [("lambda scale: other / self(scale)", "lambda scale: self(scale) / other")]}),
    ("converter-rtruediv-is-truediv", "checks.c19", "sec_operators", {}, {_CL: [("lambda x, scale: other / self(x, scale)", "lambda x, scale: self(x, scale) / other")]}),
    ("comparison-ufunc-with-float32-dtype (defect fixed by 'fix: ordering comparisons...')", "checks.c19", "sec_operators", {}, {_CL: [("    return np.less(a, b).astype(np.float32)\n", "    return np.less(a, b, dtype=np.float32)\n")]}),
    ("ge-is-gt", "checks.c19", "sec_operators", {}, {_CL: [("    return np.greater_equal(a, b).astype(np.float32)\n", "    return np.greater(a, b).astype(np.float32)\n")]}),
    ("from_gaussian-centre-from-unrounded-shape", "checks.c19", "sec_gaussian", {}, {_IM: [("(np.array(shape_px) - 1) / 2 +", "(shape_subpix - 1) / 2 +")]}),
    ("compose-applies-outer-first", "checks.c19", "sec_compose", {}, {_CL: [("fn = lambda x, scale: self(other(x, scale), scale)", "fn = lambda x, scale: other(self(x, scale), scale)")]}),
    ("with_scale-ignores-scale", "checks.c19", "sec_compose", {}, {_CL: [("            return self(img, scale)\n", "            return self(img, 1.0)\n")]}),
    ("radius-times-scale", "checks.c19", "sec_units", {}, {_MK: [("radius_px = abs(radius / scale)", "radius_px = abs(radius * scale)")]}),
    ("radius-floor-not-ceil", "checks.c19", "sec_units", {}, {_MK: [("return int(np.ceil(radius_px))", "return int(radius_px)")]}),
    ("structure-open-ball", "checks.c19", "sec_units", {}, {_MK: [("(zz - r) ** 2 <= r**2", "(zz - r) ** 2 < r**2")]}),
    ("gaussian_filter-sigma-in-pixels", "checks.c19", "sec_units", {}, {_TR: [("ndi.gaussian_filter(img, sigma / scale,", "ndi.gaussian_filter(img, sigma,")]}),
    ("shift-times-scale", "checks.c19", "sec_units", {}, {_TR: [("shift_px = np.asarray(shift) / scale", "shift_px = np.asarray(shift) * scale")]}),
    ("gaussian_smooth-sigma-in-pixels", "checks.c19", "sec_units", {}, {_MK: [("/ 2 / (sigma / scale) ** 2", "/ 2 / sigma ** 2")]}),
    ("from_array-inverse-zoom", "checks.c19", "sec_units", {}, {_IM: [("    ratio = original_scale / scale\n    if abs(ratio - 1) < tol:\n        return img\n", "    ratio = scale / original_scale\n    if abs(ratio - 1) < tol:\n        return img\n")]}),
    ("from_gaussian-centre-is-n/2", "checks.c19", "sec_gaussian", {}, {_IM: [("(np.array(shape_px) - 1) / 2 +", "np.array(shape_px) / 2 +")]}),
    ("from_gaussian-square-of-sum (defect fixed by 'fix: from_gaussian...')", "checks.c19", "sec_gaussian", {},
     {_IM: [("sum(((xx - c) / sg) ** 2 for xx, c, sg in zip(crds, center_subpix, sigma_px))", "sum((xx - c) / sg for xx, c, sg in zip(crds, center_subpix, sigma_px)) ** 2")]}),
    ("from_gaussian-shift-in-pixels", "checks.c19", "sec_gaussian", {}, {_IM: [("/ 2 + np.array(shift) / scale", "/ 2 + np.array(shift)")]}),
    ("gaussian_smooth-inverts-its-input-in-place (seeded change C19_5)", "checks.c19", "sec_purity", {}, {_MK: [("    img = ~img\n", "    img = np.logical_not(img, out=img)\n")]}),
    ("normalize_template-scale-1", "checks.c19", "sec_normalize", {}, {_LB: [("            return template(self.scale)\n", "            return template(1.0)\n")]}),
    ("normalize_mask-unscaled-converter", "checks.c19", "sec_normalize", {}, {_LB: [("return mask.with_scale(self.scale)", "return mask.with_scale(1.0)")]}),
]


def run(tier, procs=None, only=None):
    S = select(sections(tier), only)
    return harness.run_check(
        PID, tier, S, procs=procs,
        explanation="The real ImageProvider/ImageConverter classes are exercised with 1x1x2 images of symbolic voxels, scale-dependent uninterpreted providers and voxel-wise uninterpreted "
                    "converters: every operator (also reflected with a scalar on the left, and converter-op-provider) is compared voxel by voxel with the Python operation by z3; composition is "
                    "associative and equals nested application; currying passes (scale | img, scale, *args). nm parameters are symbolic: pixel radii, sigmas, shifts and zoom factors handed to "
                    "(recorded) scipy.ndimage calls equal param/scale, are invariant under a common rescaling, and the mask converters dispatch on the sign of the radius; the Gaussian provider's exponent is decided with exp uninterpreted.",
        bounds={"images": "1x1x2 voxels (operators act voxel-wise)", "pipeline depth": "3 converters + 1 provider", "parameters": "all nm parameters, scale > 0, tolerance: symbolic reals",
                "from_gaussian": "pixel shapes (2,3,2) and (3,2,4), sigma/shift symbolic"},
        trusted_base=TRUSTED + ["recorded scipy.ndimage calls (their numerics are outside)", "exp as an uninterpreted (injective) function"],
        outside=["threshold_otsu histogram numerics", "zoom / morphology / distance transform internals", "from_file / from_pdb / from_atoms I/O and histogramming",
                 "extensive/anti-extensive property of the morphology itself (follows from scipy's contract given a structuring element that contains its centre)"],
        mutants=MUTANTS if (not quick(tier) and not only) else None,
    )


# every real-library oracle of this property (each returns (reproduced, detail)); used to confirm structural facts that carry no replay of their own
ALL_REPLAYS = [replay_ops, replay_readers, replay_purity, replay_provider_purity]


def replay(data):
    key = data.get("key", "")
    fn = replay_provider_purity if "provider-purity" in key else replay_purity if "purity" in key else (replay_readers if "readers" in key else replay_ops)
    ok, detail = fn(data.get("cex") or {})
    print("replay:", detail)
    print("REPRODUCED" if ok else "not reproduced")
    return 1 if ok else 0
