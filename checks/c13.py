"""C13 -- saved molecules reload unchanged: the part that is acryo's own code.

PARTIAL by construction.  The bytes are written and parsed by polars' compiled CSV / Parquet serialisers; nothing is decided
about them (decimal formatting, dtype inference, compression).  What acryo itself contributes is decided here on symbolic tables:
 (A) `to_dataframe` lays a table out as z, y, x, zvec, yvec, xvec followed by the features, row r = molecule r, and
     `from_dataframe` is its exact inverse (positions, rotation vectors, features; default and renamed coordinate columns;
     0, 1, 3 molecules; with and without features).
 (B) `to_csv / to_parquet / to_file` hand exactly that frame (and float_precision / compression options) to the polars
     writers, `from_csv / from_parquet / from_file` hand what the readers return to `from_dataframe` with the caller's column
     names; `to_file` and `from_file` choose the same format for the same suffix.  The writers/readers are an in-memory
     file-system stand-in with the contract "reading a file in the format it was written in returns the frame that was
     written; reading it in the other format fails".
"""
from __future__ import annotations

import numpy as np
import polars as pl
import z3

from symx import harness, load, rotation
from symx.arrays import SymArray, to_symarray, _obj
from symx.core import Sym, explore, lift, real, _real, _coerce
from symx.plshim import PlShim

from .common import TRUSTED, quick, select
from . import c12

PID = "C13"
COLS = ["z", "y", "x", "zvec", "yvec", "xvec"]


def zr(x):
    return _real(lift(_coerce(x)))


def _table(MC, n, with_features=True):
    """C12's tagged table, feature columns in NON-alphabetical order (row, a, g)"""
    t = c12.make_table(MC, n, [2, 0, 1], with_features=with_features)
    if with_features:
        order = ["row", "a", "g"]
        t.mol.features = t.mol.features.select(order)
        t.feats = {k: t.feats[k] for k in order}
    return t


class FormatMismatch(Exception):
    pass


class FileSystem:
    """in-memory stand-in for the polars writers / readers"""

    def __init__(self):
        self.files = {}
        self.log = []

    def write(self, fmt, frame, path, **kw):
        self.files[str(path)] = (fmt, frame.clone(), kw)
        self.log.append(("write", fmt, str(path), kw))

    def read(self, fmt, path, **kw):
        self.log.append(("read", fmt, str(path), kw))
        if str(path) not in self.files:
            raise FileNotFoundError(str(path))
        f, frame, _ = self.files[str(path)]
        if f != fmt:
            raise FormatMismatch(f"{path}: written as {f}, read as {fmt}")
        return frame.clone()


def _load(patches=None):
    fs = FileSystem()
    shim = PlShim()
    shim.read_csv = lambda path, **kw: fs.read("csv", path, **kw)
    shim.read_parquet = lambda path, **kw: fs.read("parquet", path, **kw)
    L = load.load(c12.MODS, overrides={"Rotation": rotation.SymRotation, "pl": shim}, patches=patches)
    L.fs = fs
    return L


class _patched_writers:
    def __init__(self, fs):
        self.fs = fs

    def __enter__(self):
        self.old = (pl.DataFrame.write_csv, pl.DataFrame.write_parquet)
        fs = self.fs
        pl.DataFrame.write_csv = lambda self_, file=None, **kw: fs.write("csv", self_, file, **kw)
        pl.DataFrame.write_parquet = lambda self_, file=None, **kw: fs.write("parquet", self_, file, **kw)

    def __exit__(self, *a):
        pl.DataFrame.write_csv, pl.DataFrame.write_parquet = self.old


# ---------------------------------------------------------------------------------------
# replay on the installed library (real polars I/O in a temporary directory)


def replay_io(cex):
    import os
    import tempfile
    from acryo import Molecules
    from scipy.spatial.transform import Rotation

    rng = np.random.default_rng(0)
    bad = {}
    with tempfile.TemporaryDirectory() as d:
        for n in (1, 4):
            pos = rng.uniform(-50, 300, size=(n, 3))
            rot = Rotation.from_rotvec(rng.normal(size=(n, 3)))
            feats = {"s": [f"n{k}" for k in range(n)], "i": np.arange(n) * 3 - 1, "f": rng.normal(size=n), "b": [k % 2 == 0 for k in range(n)], "Label": np.arange(n)}
            for with_feat in (True, False):
                m = Molecules(pos, rot, features=feats if with_feat else None)
                df = m.to_dataframe()
                if df.columns[:6] != COLS or (with_feat and df.columns[6:] != list(feats)):
                    bad[f"columns(n={n})"] = df.columns
                back = Molecules.from_dataframe(df)
                if not np.allclose(back.pos, pos) or not np.allclose(back.rotvec(), m.rotvec(), atol=1e-6) or (with_feat and not back.features.equals(m.features)):
                    bad[f"dataframe-round-trip(n={n},features={with_feat})"] = True
                for suffix in (".csv", ".pq", ".parquet", ".txt", "", ".PQ", ".Parquet", ".parquet.bak", ".csv.parquet"):
                    p = os.path.join(d, f"m{n}{int(with_feat)}{suffix}")
                    try:
                        m.to_file(p)
                        r = Molecules.from_file(p)
                    except Exception as e:
                        bad[f"to_file/from_file({suffix!r},n={n})"] = repr(e)[:120]
                        continue
                    tol = 1e-6 if suffix in (".pq", ".parquet", ".csv.parquet") else 2e-4
                    ok = len(r) == n and np.allclose(r.pos, pos, atol=tol) and np.allclose(r.rotvec(), m.rotvec(), atol=max(tol, 1e-6))
                    if with_feat:
                        ok = ok and r.features.columns == list(feats) and r.features["i"].to_list() == m.features["i"].to_list() and r.features["s"].to_list() == m.features["s"].to_list() \
                            and r.features["b"].to_list() == m.features["b"].to_list() and np.allclose(r.features["f"].to_numpy(), m.features["f"].to_numpy(), atol=tol)
                    else:
                        ok = ok and len(r.features.columns) == 0
                    if not ok:
                        bad[f"round-trip({suffix!r},n={n},features={with_feat})"] = True
                p = os.path.join(d, "full.csv")
                m.to_csv(p, float_precision=None)
                r = Molecules.from_csv(p)
                if not np.allclose(np.asarray(r.pos, dtype=np.float64), np.asarray(m.pos, dtype=np.float64), atol=1e-9, rtol=1e-7):
                    bad["to_csv(float_precision=None) is not full precision"] = float(np.abs(np.asarray(r.pos, dtype=np.float64) - np.asarray(m.pos, dtype=np.float64)).max())
                p = os.path.join(d, "prec.csv")
                m.to_csv(p, float_precision=2)
                r = Molecules.from_csv(p)
                if not np.allclose(r.pos, pos, atol=6e-3) or np.allclose(r.pos, pos, atol=1e-7):
                    bad["to_csv(float_precision=2)"] = float(np.abs(r.pos - pos).max())
                # renamed coordinate columns
                df2 = df.rename({"z": "Z", "y": "Y", "x": "X", "zvec": "rz", "yvec": "ry", "xvec": "rx"})
                p = os.path.join(d, "ren.parquet")
                df2.write_parquet(p)
                r = Molecules.from_file(p, pos_cols=["Z", "Y", "X"], rot_cols=["rz", "ry", "rx"])
                if not np.allclose(r.pos, pos) or not np.allclose(r.rotvec(), m.rotvec(), atol=1e-6) or len(r.features.columns) != (len(feats) if with_feat else 0):
                    bad[f"renamed-columns(n={n},features={with_feat})"] = True
        # history: lay out, rotate in place, save, reload: the file holds the orientation after the rotation
        m = Molecules(rng.uniform(0, 50, size=(3, 3)), Rotation.from_rotvec(rng.normal(size=(3, 3))))
        m.to_dataframe()
        m.rotate_by(Rotation.from_rotvec([0.3, -1.0, 0.4]), copy=False)
        p = os.path.join(d, "hist.parquet")
        m.to_file(p)
        r = Molecules.from_file(p)
        if not np.allclose(r.rotator.as_matrix(), m.rotator.as_matrix(), atol=1e-5):
            bad["layout; rotate in place; save: stale orientations written"] = float(np.abs(r.rotator.as_matrix() - m.rotator.as_matrix()).max())
    return len(bad) > 0, {"problems": {k: (v if isinstance(v, (bool, float, str)) else repr(v)[:160]) for k, v in bad.items()}}


# ---------------------------------------------------------------------------------------
# (A) the frame layout and its inverse


def sec_frame(rec, n=3, with_features=True, patches=None):
    L = _load(patches)
    MC = L["acryo.molecules.core"]
    rec.encodes("acryo/molecules/core.py:Molecules.to_dataframe", "acryo/molecules/core.py:Molecules.from_dataframe", "acryo/molecules/core.py:_CSV_COLUMNS")
    rec.assume("the real polars carries the symbolic values in Object columns; SymRotation.as_rotvec / from_rotvec are an inverse pair (scipy's accuracy near angles 0 and pi is not decided); "
               "the float32 cast of the rotation vector is the identity of the exact-real model (stated precision of the property)")
    tag = f"frame[n={n},features={int(with_features)}]"
    with L.installed():
        def run():
            t = _table(MC, n, with_features)
            df = t.mol.to_dataframe()
            back = MC.Molecules.from_dataframe(df)
            ren = {"z": "Z", "y": "Y", "x": "X", "zvec": "rz", "yvec": "ry", "xvec": "rx"}
            df2 = df.rename(ren)
            pc, rc = ["Z", "Y", "X"], ["rz", "ry", "rx"]
            back2 = MC.Molecules.from_dataframe(df2, pos_cols=pc, rot_cols=rc)
            # the rotation vector the frame must hold: reading it back gives the molecule's orientation (inverse pair)
            chk = rotation.SymRotation.from_rotvec(np.stack([_obj(np.asarray(df[c + "vec"].to_list(), dtype=object)) for c in "zyx"], axis=1)).as_quat() if n else None
            # history: the table has been laid out once; then the SAME object is rotated and moved in place; the next layout shows the new state
            hist = None
            if n:
                h = _table(MC, n, with_features)
                h.mol.to_dataframe()
                h.mol.rotate_by(rotation.SymRotation([list(rotation.R30[9])] * n), copy=False)
                h.mol.translate([1, 2, 3], copy=False)
                dfh = h.mol.to_dataframe()
                qh = rotation.SymRotation.from_rotvec(np.stack([_obj(np.asarray(dfh[c + "vec"].to_list(), dtype=object)) for c in "zyx"], axis=1)).as_quat()
                hist = (dfh, _obj(qh), _obj(h.mol.quaternion()).copy(), _obj(h.mol.pos).copy())
            return t, df, back, back2, (pc, rc), chk, hist

        paths = explore(run, max_paths=10)
    for pi, pth in enumerate(paths):
        if not pth.ok:
            ok, det = replay_io({})
            rec.fact(f"{tag}/path{pi}/runs", False, key="C13/frame/raises", detail={"exc": repr(pth.exc)[:300], **det}, reproduced=ok)
            continue
        t, df, back, back2, (pc, rc), chk, hist = pth.result
        h = [pth.condition()]

        def fact(name, ok, key, **det):
            rec.fact(f"{tag}/path{pi}/{name}", bool(ok), key=key, detail=det, reproduced=True if ok else replay_io({})[0])

        want_cols = COLS + (list(t.feats) if with_features else [])
        fact("columns=z,y,x,zvec,yvec,xvec,features", df.columns == want_cols, "C13/frame/columns", got=df.columns, want=want_cols)
        fact("one-row-per-molecule", df.height == n, "C13/frame/rows", rows=df.height)
        if df.columns[:6] == COLS and df.height == n and n:
            pos = _obj(t.mol.pos)
            quat = _obj(t.mol.quaternion())
            ck = _obj(chk)
            for r in range(n):
                for a, c in enumerate("zyx"):
                    rec.query(f"{tag}/path{pi}/row{r}.{c}=pos[{r},{a}]", h, zr(df[c][r]) == zr(pos[r, a]), key="C13/frame/positions", replay=replay_io, twin=False)
                rec.query(f"{tag}/path{pi}/row{r}.(zvec,yvec,xvec)=rotation vector of molecule {r}", h, z3.And(*[zr(ck[r, k]) == zr(quat[r, k]) for k in range(4)]), key="C13/frame/rotvec", replay=replay_io, twin=False, nonlinear=True)
            if with_features:
                okf = all(df[k].to_list() == v for k, v in t.feats.items())
                fact("feature-values-in-row-order", okf, "C13/frame/features")
        for name, b in (("from_dataframe(to_dataframe())", back), ("from_dataframe(renamed, pos_cols, rot_cols)", back2)):
            ids, why = c12.row_ids(b)
            fact(f"{name}: same molecules in the same order", ids == t.ids, "C13/frame/round-trip", got=ids, why=why)
            if with_features:
                fc = b.features.columns
                fact(f"{name}: same feature columns and values", fc == list(t.feats) and all(b.features[k].to_list() == v for k, v in t.feats.items()), "C13/frame/round-trip-features", columns=fc)
            else:
                fact(f"{name}: no feature columns", len(b.features.columns) == 0, "C13/frame/round-trip-features", columns=b.features.columns)
        if hist is not None:
            dfh, qh, qnow, pnow = hist
            for r in range(n):
                rec.query(f"{tag}/path{pi}/history: layout; rotate+translate in place; layout: row{r} holds the CURRENT orientation", h, z3.And(*[zr(qh[r, k]) == zr(qnow[r, k]) for k in range(4)]),
                          key="C13/frame/stale-layout", replay=replay_io, twin=False, nonlinear=True)
                rec.query(f"{tag}/path{pi}/history: row{r} holds the CURRENT position", h, z3.And(*[zr(dfh[c][r]) == zr(pnow[r, a]) for a, c in enumerate("zyx")]), key="C13/frame/stale-layout", replay=replay_io, twin=False)
        fact("caller's column lists not modified", pc == ["Z", "Y", "X"] and rc == ["rz", "ry", "rx"], "C13/frame/arguments-modified")
        ids0, _ = c12.row_ids(t.mol)
        fact("source-untouched", ids0 == t.ids, "C13/frame/source-modified")


# ---------------------------------------------------------------------------------------
# (B) writers / readers / suffix dispatch


SUFFIXES = [".csv", ".pq", ".parquet", ".txt", "", ".tsv", ".PQ", ".parquet.bak", ".csv.parquet", ".pq.csv"]


def sec_files(rec, n=3, patches=None):
    L = _load(patches)
    MC = L["acryo.molecules.core"]
    fs = L.fs
    rec.encodes("acryo/molecules/core.py:Molecules.to_csv", "acryo/molecules/core.py:Molecules.to_parquet", "acryo/molecules/core.py:Molecules.to_file", "acryo/molecules/core.py:Molecules.from_csv",
                "acryo/molecules/core.py:Molecules.from_parquet", "acryo/molecules/core.py:Molecules.from_file")
    rec.assume("polars' writers/readers are an in-memory stand-in: reading a file in the format it was written in returns the written frame, in the other format it fails; nothing is decided about the serialised bytes")
    tag = f"files[n={n}]"
    with L.installed(), _patched_writers(fs):
        def run():
            fs.files.clear()
            del fs.log[:]
            t = _table(MC, n)
            out = {}
            for sfx in SUFFIXES:
                path = f"/dir.v1/mole{sfx}"
                try:
                    t.mol.to_file(path)
                    fmt = fs.files[path][0]
                    back = MC.Molecules.from_file(path)
                    out[sfx] = (fmt, back, None)
                except FormatMismatch as e:
                    out[sfx] = (fs.files.get(path, (None,))[0], None, e)
            # explicit writers and their options
            t.mol.to_csv("/a.csv")
            t.mol.to_csv("/b.csv", float_precision=7)
            t.mol.to_csv("/e.csv", float_precision=None)
            t.mol.to_csv("/f.csv", float_precision=0)
            t.mol.to_parquet("/c.pq")
            t.mol.to_parquet("/d.pq", compression="lz4", compression_level=3)
            written = {k: fs.files[k] for k in ("/a.csv", "/b.csv", "/c.pq", "/d.pq", "/e.csv", "/f.csv")}
            rcsv = MC.Molecules.from_csv("/b.csv", separator=",")
            kw_csv = [e for e in fs.log if e[0] == "read" and e[2] == "/b.csv"][-1][3]
            ren = {"z": "Z", "y": "Y", "x": "X", "zvec": "rz", "yvec": "ry", "xvec": "rx"}
            fs.files["/ren.parquet"] = ("parquet", fs.files["/c.pq"][1].rename(ren), {})
            fs.files["/ren.csv"] = ("csv", fs.files["/a.csv"][1].rename(ren), {})
            r1 = MC.Molecules.from_file("/ren.parquet", pos_cols=["Z", "Y", "X"], rot_cols=["rz", "ry", "rx"])
            r2 = MC.Molecules.from_file("/ren.csv", ["Z", "Y", "X"], ["rz", "ry", "rx"])
            rpq = MC.Molecules.from_parquet("/d.pq")
            return t, out, written, rcsv, kw_csv, r1, r2, rpq

        paths = explore(run, max_paths=10)
    for pi, pth in enumerate(paths):
        if not pth.ok:
            ok, det = replay_io({})
            rec.fact(f"{tag}/path{pi}/runs", False, key="C13/files/raises", detail={"exc": repr(pth.exc)[:300], **det}, reproduced=ok)
            continue
        t, out, written, rcsv, kw_csv, r1, r2, rpq = pth.result

        def fact(name, ok, key, **det):
            rec.fact(f"{tag}/path{pi}/{name}", bool(ok), key=key, detail=det, reproduced=True if ok else replay_io({})[0])

        for sfx, (fmt, back, err) in out.items():
            want = "parquet" if sfx in (".pq", ".parquet") or sfx.endswith((".pq", ".parquet")) and False else ("parquet" if sfx in (".pq", ".parquet", ".csv.parquet") else "csv")
            fact(f"to_file({sfx!r}) then from_file: same format on both sides", err is None, "C13/files/dispatch-asymmetric", written_as=fmt, error=repr(err)[:120] if err else None)
            fact(f"to_file({sfx!r}) writes {want}", fmt == want, "C13/files/dispatch", written_as=fmt)
            if back is not None:
                ids, why = c12.row_ids(back)
                okb = ids == t.ids and back.features.columns == list(t.feats) and all(back.features[k].to_list() == v for k, v in t.feats.items())
                fact(f"round-trip({sfx!r}): same molecules, order and features", okb, "C13/files/round-trip", got=ids, why=why)

        pos = _obj(t.mol.pos)

        def is_the_table(fr):
            if fr.columns != COLS + list(t.feats) or fr.height != len(t.ids):
                return False
            okp = all(z3.eq(z3.simplify(zr(fr[c][r])), z3.simplify(zr(pos[r, a]))) for r in range(fr.height) for a, c in enumerate("zyx"))
            return okp and all(fr[k].to_list() == v for k, v in t.feats.items())

        for path, (fmt, fr, kw) in written.items():
            fact(f"{path}: the written frame is the table (columns, positions, features; orientations via the read-back below)", is_the_table(fr), "C13/files/written-frame", columns=fr.columns)
        fact("to_csv default float_precision=4", written["/a.csv"][2].get("float_precision") == 4, "C13/files/csv-options", kw=repr(written["/a.csv"][2]))
        fact("to_csv(float_precision=7) passed on", written["/b.csv"][2].get("float_precision") == 7, "C13/files/csv-options", kw=repr(written["/b.csv"][2]))
        fact("to_csv(float_precision=None) passed on (full precision)", "float_precision" in written["/e.csv"][2] and written["/e.csv"][2]["float_precision"] is None, "C13/files/csv-options", kw=repr(written["/e.csv"][2]))
        fact("to_csv(float_precision=0) passed on", written["/f.csv"][2].get("float_precision") == 0 and written["/f.csv"][2].get("float_precision") is not None, "C13/files/csv-options", kw=repr(written["/f.csv"][2]))
        fact("to_parquet default zstd level 10", written["/c.pq"][2].get("compression") == "zstd" and written["/c.pq"][2].get("compression_level") == 10, "C13/files/parquet-options", kw=repr(written["/c.pq"][2]))
        fact("to_parquet(compression, level) passed on", written["/d.pq"][2].get("compression") == "lz4" and written["/d.pq"][2].get("compression_level") == 3, "C13/files/parquet-options", kw=repr(written["/d.pq"][2]))
        fact("from_csv(**pl_kwargs) passed to the reader", kw_csv == {"separator": ","}, "C13/files/reader-options", kw=repr(kw_csv))
        for name, b in (("from_csv", rcsv), ("from_parquet", rpq), ("from_file(parquet, pos_cols, rot_cols)", r1), ("from_file(csv, pos_cols, rot_cols)", r2)):
            ids, why = c12.row_ids(b)
            fact(f"{name}: same molecules", ids == t.ids and b.features.columns == list(t.feats), "C13/files/readers", got=ids, why=why, columns=b.features.columns)


def sections(tier):
    S = [("frame-3", "checks.c13", "sec_frame", {"n": 3}), ("frame-3-plain", "checks.c13", "sec_frame", {"n": 3, "with_features": False}), ("frame-1", "checks.c13", "sec_frame", {"n": 1}),
         ("frame-0", "checks.c13", "sec_frame", {"n": 0}), ("files", "checks.c13", "sec_files", {"n": 3})]
    if not quick(tier):
        S += [("files-1", "checks.c13", "sec_files", {"n": 1}), ("frame-0-plain", "checks.c13", "sec_frame", {"n": 0, "with_features": False})]
    return S


_MC = "acryo.molecules.core"
MUTANTS = [
    ("frame:x-before-z", "checks.c13", "sec_frame", {"n": 3}, {_MC: [("                \"z\": self.pos[:, 0],\n                \"y\": self.pos[:, 1],\n                \"x\": self.pos[:, 2],", "                \"z\": self.pos[:, 2],\n                \"y\": self.pos[:, 1],\n                \"x\": self.pos[:, 0],")]}),
    ("frame:features-first", "checks.c13", "sec_frame", {"n": 3}, {_MC: [("            df = df.with_columns(list(self._features))\n        return df", "            df = self._features.with_columns(list(df))\n        return df")]}),
    ("frame:rotvec-axes-swapped-on-read", "checks.c13", "sec_frame", {"n": 3}, {_MC: [("            rot = Rotation.from_rotvec(rotvec.to_numpy())", "            rot = Rotation.from_rotvec(rotvec.to_numpy()[:, ::-1])")]}),
    ("frame:features-dropped-for-one-molecule", "checks.c13", "sec_frame", {"n": 1}, {_MC: [("        if len(feature_columns) == 0:\n            features = None", "        if len(feature_columns) == 0 or len(pos) == 1:\n            features = None")]}),
    ("frame:rot_cols-ignored", "checks.c13", "sec_frame", {"n": 3}, {_MC: [("        rotvec = df.select(rot_cols)\n", "        rotvec = df.select([\"zvec\", \"yvec\", \"xvec\"])\n")]}),
    ("files:pq-read-as-csv", "checks.c13", "sec_files", {"n": 3}, {_MC: [("        if path.suffix in (\".pq\", \".parquet\"):\n            return cls.from_parquet(path, pos_cols, rot_cols)", "        if path.suffix in (\".parquet\",):\n            return cls.from_parquet(path, pos_cols, rot_cols)")]}),
    ("files:writer-lowercases-suffix", "checks.c13", "sec_files", {"n": 3}, {_MC: [("        if save_path.suffix in (\".pq\", \".parquet\"):\n            return self.to_parquet(save_path)", "        if save_path.suffix.lower() in (\".pq\", \".parquet\"):\n            return self.to_parquet(save_path)")]}),
    ("files:float-precision-ignored", "checks.c13", "sec_files", {"n": 3}, {_MC: [("            float_precision=float_precision,\n        )", "            float_precision=4,\n        )")]}),
    ("files:column-names-not-passed", "checks.c13", "sec_files", {"n": 3}, {_MC: [("            return cls.from_parquet(path, pos_cols, rot_cols)\n        return cls.from_csv(path, pos_cols, rot_cols)", "            return cls.from_parquet(path, pos_cols, rot_cols)\n        return cls.from_csv(path)")]}),
    ("files:reader-kwargs-dropped", "checks.c13", "sec_files", {"n": 3}, {_MC: [("        df = pl.read_csv(path, **pl_kwargs)", "        df = pl.read_csv(path)")]}),
]


def run(tier, procs=None, only=None):
    S = select(sections(tier), only)
    return harness.run_check(
        PID, tier, S, procs=procs,
        explanation="PARTIAL claim: the bytes are polars' business and not decided. Tables with symbolic positions/orientations (z3 constants in Object columns of the real polars) go through the real to_dataframe / from_dataframe: "
                    "layout z,y,x,zvec,yvec,xvec,features, row r = molecule r, exact inverse incl. renamed coordinate columns, 0/1/3 molecules, with/without features; the real to_csv/to_parquet/to_file/from_csv/from_parquet/from_file "
                    "run over an in-memory stand-in for the polars writers/readers: they write exactly to_dataframe() with the caller's options, read with the caller's column names and reader options, and to_file/from_file "
                    "pick the same format for the same suffix (10 suffix classes).",
        bounds={"rows": "0, 1, 3 molecules", "features": "int, int, string columns or none", "suffixes": ", ".join(repr(s) for s in SUFFIXES)},
        trusted_base=TRUSTED + ["the real polars for frame operations (Object columns)", "in-memory writer/reader stand-in (contract: same format -> same frame, other format -> failure)", "SymRotation rotvec <-> quaternion inverse pair"],
        outside=["what polars writes and parses: decimal formatting to float_precision, dtype inference of CSV, zstd/Parquet encoding, nulls and booleans in CSV", "scipy's as_rotvec/from_rotvec near rotation angles 0 and pi; float32 rounding of the rotation vector"],
        mutants=MUTANTS if (not quick(tier) and not only) else None,
    )


# every real-library oracle of this property (each returns (reproduced, detail)); used to confirm structural facts that carry no replay of their own
ALL_REPLAYS = [replay_io]


def replay(data):
    ok, detail = replay_io(data.get("cex") or {})
    print("replay:", detail)
    print("REPRODUCED" if ok else "not reproduced")
    return 1 if ok else 0
