#!/bin/sh
# refactor round: scratch worktree /tmp/wt/<ID>rf at /repo HEAD and the round-5 prompt (outputs <ID>_<K0>.. <ID>_<K1>; default 9..10)
ID="$1"; K0="${2:-1}"; K1="${3:-2}"
mkdir -p /tmp/seeded_out
cd /repo && git worktree remove --force /tmp/wt/${ID}rf 2>/dev/null; git worktree prune
git worktree add -q --detach /tmp/wt/${ID}rf HEAD || exit 1
/venv/bin/python - "$ID" "$K0" "$K1" <<'PY'
import sys, json
p, k0, k1 = sys.argv[1:4]
t = open('/verif/tools/refactor_prompt_template.txt').read()
for l in open('/verif/properties.jsonl'):
    d = json.loads(l)
    if d['id'] == p:
        prop = f"{p}: {d['title']}\n\nStatement: {d['statement']}\n\nQuantifier: {d['quantifier']['text']}\n"
        anchors = "\n".join(f" - {m['name']}: {m['where']}" for m in d['anchors']['mechanism']) + "\n (files: " + ", ".join(d['anchors']['files']) + ")"
out = t.replace('{WT}', f'/tmp/wt/{p}rf').replace('{PROPERTY}', prop).replace('{ANCHORS}', anchors).replace('{N}', '2').replace('{OUT}', '/tmp/seeded_out').replace('{PID}', p).replace('{K0}', k0).replace('{K1}', k1).replace('{{k}}', '{k}')
open(f'/tmp/seeded_out/{p}_prompt_refactor.txt', 'w').write(out)
PY
echo "worktree /tmp/wt/${ID}rf at $(git -C /tmp/wt/${ID}rf rev-parse --short HEAD)"
