#!/bin/bash
# tools/wt_run.sh NAME PROP [extra args to checks.main]: apply /tmp/seeded_out/NAME/patch.diff (or /verif/refactors, /verif/seeded) to a scratch worktree and run one check against it
name=$1; prop=$2; shift 2
patch=/tmp/seeded_out/$name/patch.diff
[ -f $patch ] || patch=/verif/refactors/$name/patch.diff
[ -f $patch ] || patch=/verif/seeded/$name/patch.diff
wt=/tmp/wt/dbg_${name}_$prop
git -C /repo worktree remove --force $wt 2>/dev/null
git -C /repo worktree add -q --detach $wt HEAD || exit 9
git -C $wt apply $patch || { echo "PATCH DOES NOT APPLY"; git -C /repo worktree remove --force $wt; exit 9; }
cd /verif
ACRYO_REPO=$wt PYTHONPATH=/verif:$wt PYTHONDONTWRITEBYTECODE=1 OMP_NUM_THREADS=1 timeout 1500 /verif/.venv/bin/python -u -W ignore -m checks.main $prop --procs 4 "$@"
rc=$?
git -C /repo worktree remove --force $wt
echo "exit=$rc"
exit $rc
