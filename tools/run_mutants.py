import os, sys
os.environ["SYMX_MUTANT_RUN"]="1"
import importlib
from symx import harness
mod = importlib.import_module("checks."+sys.argv[1].lower())
r = harness.run_mutants(sys.argv[1].upper(), mod.MUTANTS)
for k,v in r.items(): print(k, v)
