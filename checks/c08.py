"""C08 -- missing-wedge masks follow the tilt geometry.

Real code: acryo/tilt/_utils.py (get_indices, get_norms_y/x), acryo/tilt/_single.py (SingleAxis*.create_mask),
acryo/tilt/_base.py (NoWedge, UnionAxes), acryo/tilt/core.py, acryo/backend/_missing_wedge.py,
acryo/_utils.py (missing_wedge_mask, _get_indices, _get_unrotated_normals), TomographyInput.__init__ dispatch.
"""
from __future__ import annotations

import itertools
from fractions import Fraction

import numpy as np
import z3

from symx import harness, load, rotation, stubs, smt
from symx.angles import make_tilt, ordered, SymDeg
from symx.arrays import SymArray, to_symarray, _obj
from symx.core import Sym, SymBool, explore, lift, real, _real, _coerce

from .common import TRUSTED, fl, frac, quick, select

PID = "C08"
MODS = ["acryo._utils", "acryo.tilt._utils", "acryo.tilt._base", "acryo.tilt._single", "acryo.tilt.core", "acryo.backend._missing_wedge", "acryo.backend._api"]


def zr(x):
    return _real(lift(_coerce(x)))


def _load(patches=None):
    return load.load(MODS, overrides={"Rotation": rotation.SymRotation}, patches=patches)


def fftfreq_int(n):
    return [k if k < (n + 1) // 2 else k - n for k in range(n)]


def zb(v):
    if isinstance(v, SymBool):
        return v.e
    if isinstance(v, Sym):
        return v.e != 0
    return z3.BoolVal(bool(v))


def spec_mask(idx, shape, Rm, tmin, tmax, axis):
    """bin kept iff (R f . n(min)) * (R f . n(max)) <= 0, f_i = khat_i / shape_i, n(theta) = (-cos, 0, sin) [axis y] / (-cos, sin, 0) [axis x] in zyx"""
    f = [Fraction(fftfreq_int(n)[k], n) for k, n in zip(idx, shape)]
    Rf = [sum((zr(Rm[a, b]) * z3.RealVal(f[b]) for b in range(3)), z3.RealVal(0)) for a in range(3)]
    dots = []
    for t in (tmin, tmax):
        c, s = t.angle.c.e, t.angle.s.e
        n = [-c, z3.RealVal(0), s] if axis == "y" else [-c, s, z3.RealVal(0)]
        dots.append(sum((Rf[a] * n[a] for a in range(3)), z3.RealVal(0)))
    return dots[0] * dots[1] <= 0


# ---------------------------------------------------------------------------------------
# replay against an independent floating-point oracle


def replay_mask(shape, quat, axis, entry="model"):
    def run(cex):
        from scipy.spatial.transform import Rotation
        from acryo.tilt import single_axis
        from acryo import _utils
        from acryo.backend import Backend

        def ang(stem, default):
            if f"{stem}_sin" in cex and f"{stem}_cos" in cex:
                return float(np.degrees(np.arctan2(fl(cex[f"{stem}_sin"]), fl(cex[f"{stem}_cos"]))))
            return default

        tmin, tmax = ang("tmin", -60.0), ang("tmax", 60.0)
        if not (-90 <= tmin < tmax <= 90):
            tmin, tmax = -60.0, 60.0
        rot = Rotation.from_quat([float(c) for c in quat])
        for f in (_utils._get_indices, _utils._get_unrotated_normals):
            if hasattr(f, "cache_clear"):
                f.cache_clear()
        if entry == "model":
            mask = np.asarray(single_axis((tmin, tmax), axis).create_mask(rot, tuple(shape)))
        elif entry == "utils":
            mask = np.asarray(_utils.missing_wedge_mask(rot, (tmin, tmax), tuple(shape)))
        else:
            mask = np.asarray(Backend().missing_wedge_mask(rot, (tmin, tmax), tuple(shape)))
        freqs = np.stack(np.meshgrid(*[np.fft.fftfreq(n) for n in shape], indexing="ij"), axis=-1)
        Rf = freqs @ rot.as_matrix().T
        out = []
        for t in (tmin, tmax):
            c, s = np.cos(np.deg2rad(t)), np.sin(np.deg2rad(t))
            n = np.array([-c, 0, s]) if axis == "y" else np.array([-c, s, 0])
            out.append(Rf @ n)
        prod = out[0] * out[1]
        ref = prod <= 0
        # bins whose product is within rounding of zero are not compared
        # ... except bins that lie exactly on both limiting planes in floating point as well (the DC bin for every orientation, the tilt-axis line of an
        # un-rotated molecule: every term of both dot products is an exact zero): they belong to the sampled region (product <= 0)
        sure = (np.abs(prod) > 1e-9) | ((out[0] == 0) & (out[1] == 0))
        diff = (mask.astype(bool) != ref) & sure
        return bool(diff.any()), {"shape": list(shape), "quat": [float(c) for c in quat], "tilt": [tmin, tmax], "axis": axis, "entry": entry,
                                   "n_wrong_bins": int(diff.sum()), "of": int(mask.size), "first_wrong": [int(v) for v in np.argwhere(diff)[0]] if diff.any() else None}

    return run


# ---------------------------------------------------------------------------------------


def sec_mask(rec, shapes=(), quats=(), axis="y", entry="model", patches=None):
    L = _load(patches)
    T = L["acryo.tilt.core"]
    U = L["acryo._utils"]
    API = L["acryo.backend._api"]
    rec.encodes("acryo/tilt/_utils.py:get_indices", "acryo/tilt/_utils.py:get_norms_y", "acryo/tilt/_utils.py:get_norms_x", "acryo/tilt/_single.py:SingleAxis.__init__",
                "acryo/tilt/_single.py:SingleAxis.create_mask", "acryo/tilt/core.py:single_axis", "acryo/_utils.py:missing_wedge_mask", "acryo/_utils.py:_get_indices",
                "acryo/_utils.py:_get_unrotated_normals", "acryo/backend/_missing_wedge.py:missing_wedge_mask", "acryo/backend/_missing_wedge.py:_get_indices")
    rec.assume("A-C08 sign convention: the plane normal of tilt angle t about y is (-cos t, 0, sin t) in (z,y,x) (what all three implementations use); a consistent flip in all of them is outside the claim")
    rec.assume("angles are carried as (cos, sin) on the unit circle with -90 <= min < max <= 90 (cos >= 0, sine increasing)")
    tmin, h0 = make_tilt("tmin")
    tmax, h1 = make_tilt("tmax")
    hyps = h0 + h1 + ordered(tmin, tmax) + [tmin.deg.e < tmax.deg.e]
    names = {"tmin_deg", "tmax_deg", "tmin_cos", "tmin_sin", "tmax_cos", "tmax_sin"}
    xp = stubs.make_backend(API, API.np, None, None)
    for shape in shapes:
        for q in quats:
            rot_rows = [list(q)]
            tag = f"mask[{entry},{axis},{tuple(shape)},q={[str(x) for x in q]}]"
            rp = replay_mask(shape, q, axis, entry)

            def run():
                rot = rotation.SymRotation(list(q))
                if entry == "model":
                    return T.single_axis((tmin, tmax), axis).create_mask(rot, tuple(shape))
                if entry == "utils":
                    return U.missing_wedge_mask(rot, (tmin, tmax), tuple(shape))
                return xp.missing_wedge_mask(rot, (tmin, tmax), tuple(shape))

            if entry != "model" and axis != "y":
                continue
            paths = explore(run, assumptions=hyps, max_paths=20)
            Rm = rotation.SymRotation(list(q)).as_matrix()
            for pi, p in enumerate(paths):
                if not p.ok:
                    ok, det = rp({})
                    rec.fact(f"{tag}/path{pi}/runs", False, key=f"C08/{entry}/raises", detail={"exc": repr(p.exc)[:200], **det}, reproduced=ok)
                    continue
                mask = _obj(p.result)
                h = hyps + [p.condition()]
                if mask.shape != tuple(shape):
                    rec.fact(f"{tag}/shape", False, key=f"C08/{entry}/shape", detail={"shape": list(mask.shape)})
                    continue
                odd = any(n % 2 == 1 and n > 1 for n in shape)
                cubic = len(set(shape)) == 1
                cls = ("odd" if odd else "even") + ("-cubic" if cubic else "-noncubic")
                for idx in np.ndindex(tuple(shape)):
                    got = zb(mask[idx])
                    want = spec_mask(idx, shape, Rm, tmin, tmax, axis)
                    rec.query(f"{tag}/path{pi}/bin{idx}", h, got == want, key=f"C08/geometry[{cls}]", names=names, replay=rp, nonlinear=True, twin=False, timeout_ms=10000,
                              prefer=[[tmin.deg.e == -60, tmax.deg.e == 60]])
                # DC kept and k <-> -k symmetry of the executed code's own mask
                rec.query(f"{tag}/path{pi}/dc-kept", h, zb(mask[(0,) * 3]), key="C08/dc", names=names, replay=rp, nonlinear=True, twin=False)
                for idx in np.ndindex(tuple(shape)):
                    neg = tuple((-i) % n for i, n in zip(idx, shape))
                    # on the Nyquist plane of an even axis the FFT-ordered index -n/2 has no representable negative:
                    # the geometric rule itself is not symmetric there, so symmetry is only required elsewhere
                    if any(n % 2 == 0 and i == n // 2 for i, n in zip(idx, shape)):
                        continue
                    if neg > idx:
                        rec.query(f"{tag}/path{pi}/sym{idx}", h, zb(mask[idx]) == zb(mask[neg]), key=f"C08/symmetry[{cls}]", names=names, replay=rp, nonlinear=True, twin=False,
                                  timeout_ms=10000)


def sec_combine(rec, patches=None):
    """NoWedge = all ones; UnionAxes = element-wise max of its members; dual_axis = union of y and x models"""
    L = _load(patches)
    T, Bs = L["acryo.tilt.core"], L["acryo.tilt._base"]
    rec.encodes("acryo/tilt/_base.py:NoWedge.create_mask", "acryo/tilt/_base.py:UnionAxes.create_mask", "acryo/tilt/core.py:dual_axis", "acryo/tilt/core.py:no_wedge")
    ty0, h0 = make_tilt("ymin")
    ty1, h1 = make_tilt("ymax")
    tx0, h2 = make_tilt("xmin")
    tx1, h3 = make_tilt("xmax")
    hyps = h0 + h1 + h2 + h3 + ordered(ty0, ty1) + ordered(tx0, tx1) + [ty0.deg.e < ty1.deg.e, tx0.deg.e < tx1.deg.e]
    q = list(rotation.R30[9])
    shape = (2, 3, 4)

    def run():
        rot = rotation.SymRotation(q)
        # the same range on both axes is still the union of a y model and an x model of that range
        same = (T.dual_axis((ty0, ty1), (ty0, ty1)).create_mask(rot, shape), T.single_axis((ty0, ty1), "x").create_mask(rot, shape),
                Bs.UnionAxes([T.single_axis((ty0, ty1), "y"), T.single_axis((ty0, ty1), "x"), T.single_axis((ty0, ty1), "y")]).create_mask(rot, shape))
        return (T.no_wedge().create_mask(rot, shape), T.dual_axis((ty0, ty1), (tx0, tx1)).create_mask(rot, shape),
                T.single_axis((ty0, ty1), "y").create_mask(rot, shape), T.single_axis((tx0, tx1), "x").create_mask(rot, shape), T.single_axis(None), same)

    for pi, p in enumerate(explore(run, assumptions=hyps)):
        if not p.ok:
            rec.fact("combine/runs", False, key="C08/combine/raises", detail={"exc": repr(p.exc)[:200]})
            continue
        nw, du, my, mx, none_model, same = p.result
        h = hyps + [p.condition()]
        ones = nw.shape == shape and all(float(_coerce(v)) == 1.0 for v in _obj(nw).reshape(-1))
        rec.fact("combine/no-wedge-all-ones", bool(ones), key="C08/no-wedge", detail={})
        rec.fact("combine/single_axis(None)-is-NoWedge", isinstance(none_model, Bs.NoWedge), key="C08/no-wedge", detail={})
        du, my, mx = _obj(du), _obj(my), _obj(mx)
        for idx in np.ndindex(shape):
            rec.query(f"combine/dual-axis=union{idx}", h, zb(du[idx]) == z3.Or(zb(my[idx]), zb(mx[idx])), key="C08/union", twin=False, nonlinear=True)
        ds, sx, un3 = (_obj(v) for v in same)
        okshape = ds.shape == tuple(shape) and un3.shape == tuple(shape)
        rec.fact("combine/same-range/shapes", okshape, key="C08/union", detail={"dual": list(ds.shape), "union": list(un3.shape)}, reproduced=True if okshape else replay_history({})[0])
        if okshape:
            for idx in np.ndindex(shape):
                rec.query(f"combine/dual-axis(r,r)=union-of-y(r)-and-x(r){idx}", h, zb(ds[idx]) == z3.Or(zb(my[idx]), zb(sx[idx])), key="C08/union", twin=False, nonlinear=True, replay=replay_history)
                rec.query(f"combine/UnionAxes([y,x,y])=union{idx}", h, zb(un3[idx]) == z3.Or(zb(my[idx]), zb(sx[idx])), key="C08/union", twin=False, nonlinear=True, replay=replay_history)


def sec_union_iterable(rec, patches=None):
    """UnionAxes accepts any iterable of models: built from a generator (or a list that is changed afterwards) it gives the union mask on every call, not only on the first"""
    L = _load(patches)
    T, Bs = L["acryo.tilt.core"], L["acryo.tilt._base"]
    rec.encodes("acryo/tilt/_base.py:UnionAxes.__init__", "acryo/tilt/_base.py:UnionAxes.create_mask (called repeatedly)")
    t0, h0 = make_tilt("umin")
    t1, h1 = make_tilt("umax")
    hyps = h0 + h1 + ordered(t0, t1) + [t0.deg.e < t1.deg.e]
    q = list(rotation.R30[9])
    shape = (1, 1, 2)

    def run():
        rot = rotation.SymRotation(q)
        members = [T.single_axis((t0, t1), "y"), T.single_axis((t0, t1), "x")]
        u_gen = Bs.UnionAxes(m for m in members)
        first = u_gen.create_mask(rot, shape)
        second = u_gen.create_mask(rot, shape)
        lst = list(members)
        u_lst = Bs.UnionAxes(lst)
        lst.clear()
        third = u_lst.create_mask(rot, shape)
        return first, second, third, members[0].create_mask(rot, shape), members[1].create_mask(rot, shape)

    for pi, p in enumerate(explore(run, assumptions=hyps, max_paths=200)):
        if not p.ok:
            rec.fact(f"union-iterable/path{pi}/runs", False, key="C08/union/raises", detail={"exc": repr(p.exc)[:200]}, reproduced=replay_union_iterable({})[0])
            continue
        first, second, third, my, mx = (_obj(v) for v in p.result)
        h = hyps + [p.condition()]
        for name, m in (("first call (generator)", first), ("second call (generator)", second), ("list cleared by the caller afterwards", third)):
            oks = m.shape == tuple(shape)
            rec.fact(f"union-iterable/path{pi}/{name}/shape", oks, key="C08/union", detail={"shape": list(m.shape)}, reproduced=True if oks else replay_union_iterable({})[0])
            if oks:
                for idx in np.ndindex(shape):
                    rec.query(f"union-iterable/path{pi}/{name}/bin{idx}=union", h, zb(m[idx]) == z3.Or(zb(my[idx]), zb(mx[idx])), key="C08/union-iterable", twin=False, nonlinear=True, replay=replay_union_iterable)


def replay_union_iterable(cex):
    from scipy.spatial.transform import Rotation
    from acryo.tilt import single_axis
    from acryo.tilt._base import UnionAxes

    rot = Rotation.from_rotvec([0.3, -0.5, 0.2])
    shape = (8, 9, 10)
    members = [single_axis((-60, 60), "y"), single_axis((-50, 40), "x")]
    want = np.maximum(np.asarray(members[0].create_mask(rot, shape)), np.asarray(members[1].create_mask(rot, shape)))
    bad = {}
    u = UnionAxes(m for m in members)
    for k in range(3):
        got = np.asarray(u.create_mask(rot, shape))
        if got.shape != want.shape or (got != want).any():
            bad[f"generator, call {k + 1}"] = int((got != want).sum()) if got.shape == want.shape else "shape"
    lst = list(members)
    u2 = UnionAxes(lst)
    lst.clear()
    got = np.asarray(u2.create_mask(rot, shape))
    if got.shape != want.shape or (got != want).any():
        bad["list cleared afterwards"] = int((got != want).sum()) if got.shape == want.shape else "shape"
    return len(bad) > 0, {"wrong_bins": bad}


def replay_history(cex):
    """installed library, caches active: masks requested in different orders for the same tilt range must equal the masks of a fresh process"""
    from scipy.spatial.transform import Rotation
    from acryo.tilt import single_axis, dual_axis
    import acryo.tilt._utils as TU
    import acryo._utils as U

    def clear():
        for mod in (TU, U):
            for f in vars(mod).values():
                if hasattr(f, "cache_clear"):
                    f.cache_clear()

    rot = Rotation.from_rotvec([0.3, -0.5, 0.2])
    bad = []
    for shape in ((9, 10, 12), (8, 8, 8)):
        for r in ((-60.0, 60.0), (-50.0, 40.0)):
            fresh = {}
            for name, mk in (("y", lambda: single_axis(r, "y")), ("x", lambda: single_axis(r, "x")), ("dual", lambda: dual_axis(r, r))):
                clear()
                fresh[name] = np.asarray(mk().create_mask(rot, shape)).copy()
            if fresh["dual"].shape != fresh["y"].shape or (fresh["dual"] != np.maximum(fresh["y"], fresh["x"])).any():
                bad.append({"shape": list(shape), "tilt": list(r), "model": "dual_axis(r, r) vs max(single y, single x)", "wrong_bins": int((fresh["dual"] != np.maximum(fresh["y"], fresh["x"])).sum())})
            for order in (("x", "y", "dual", "y"), ("dual", "dual", "y", "x"), ("y", "x", "y", "dual")):
                clear()
                for k, name in enumerate(order):
                    mk = {"y": lambda: single_axis(r, "y"), "x": lambda: single_axis(r, "x"), "dual": lambda: dual_axis(r, r)}[name]
                    got = np.asarray(mk().create_mask(rot, shape))
                    if got.shape != fresh[name].shape or (got != fresh[name]).any():
                        bad.append({"shape": list(shape), "tilt": list(r), "order": list(order), "call": k, "model": name, "wrong_bins": int((got != fresh[name]).sum())})
    clear()
    return len(bad) > 0, {"n": len(bad), "examples": bad[:4]}


def sec_history(rec, patches=None):
    """functools.lru_cache left active: the same tilt range requested for x, y and dual-axis models in several orders gives the masks of a fresh computation"""
    Lc = load.load(MODS, overrides={"Rotation": rotation.SymRotation}, patches=patches, keep_cache=True)
    Lf = _load(patches)
    rec.encodes("acryo/tilt/_utils.py:get_norms_y (cached)", "acryo/tilt/_utils.py:get_norms_x (cached)", "acryo/tilt/_single.py:SingleAxis.create_mask", "acryo/tilt/_base.py:UnionAxes.create_mask", "acryo/tilt/core.py:dual_axis")
    rec.assume("functools.lru_cache is the real one in this section (keys: the tilt-range tuple)")
    t0, h0 = make_tilt("tmin")
    t1, h1 = make_tilt("tmax")
    hyps = h0 + h1 + ordered(t0, t1) + [t0.deg.e < t1.deg.e]
    q = list(rotation.R30[9])
    shape = (2, 3, 4)
    rng = (t0, t1)
    orders = (("x", "y", "dual", "y"), ("dual", "dual", "y", "x"), ("y", "x", "y", "dual"))

    def mk(T, name):
        return T.single_axis(rng, name) if name in "xy" else T.dual_axis(rng, rng)

    for order in orders:
        tag = f"history[{'>'.join(order)}]"

        def run():
            rot = rotation.SymRotation(q)
            Tc, Tf = Lc["acryo.tilt.core"], Lf["acryo.tilt.core"]
            for mod in list(Lc.values()):
                for f in list(vars(mod).values()):
                    if hasattr(f, "cache_clear"):
                        f.cache_clear()
            got = [mk(Tc, name).create_mask(rot, shape) for name in order]
            want = {name: mk(Tf, name).create_mask(rot, shape) for name in set(order)}
            return got, want

        for pi, p in enumerate(explore(run, assumptions=hyps, max_paths=20)):
            if not p.ok:
                ok, det = replay_history({})
                rec.fact(f"{tag}/runs", False, key="C08/history/raises", detail={"exc": repr(p.exc)[:300], **det}, reproduced=ok)
                continue
            got, want = p.result
            h = hyps + [p.condition()]
            for k, name in enumerate(order):
                g, w = _obj(got[k]), _obj(want[name])
                if g.shape != w.shape:
                    rec.fact(f"{tag}/call{k}({name})/shape", False, key="C08/history/mask-changed", detail={}, reproduced=replay_history({})[0])
                    continue
                goal = z3.And(*[zb(g[idx]) == zb(w[idx]) for idx in np.ndindex(shape)])
                rec.query(f"{tag}/call{k}({name})=mask-of-a-fresh-computation", h, goal, key="C08/history/mask-changed", replay=replay_history, twin=False, nonlinear=True)


def replay_model_history(cex):
    """installed library: alignment models with different tilt models (and none) created one after the other in one process, same box and orientation:
    each model's missing-wedge mask is the mask of its own tilt model"""
    from scipy.spatial.transform import Rotation
    from acryo.alignment import ZNCCAlignment
    from acryo.tilt import single_axis
    from acryo.backend import Backend

    t = np.zeros((6, 7, 8), dtype=np.float32)
    t[2, 3, 4] = 1
    quat = Rotation.from_rotvec([0.3, -0.5, 0.2]).as_quat().astype(np.float32)
    xp = Backend()
    bad = []
    seq = [(-60.0, 60.0), (-30.0, 30.0), None, (-30.0, 30.0), (-60.0, 60.0)]
    for k, r in enumerate(seq):
        m = ZNCCAlignment(t, tilt=None if r is None else single_axis(r, "y"))
        got = m._get_missing_wedge_mask(quat, xp)
        if r is None:
            same = bool((np.asarray(got) == 1).all())  # no wedge: every frequency is kept (a scalar 1 or an array of ones)
            want = np.ones(np.shape(got))
        else:
            want = np.asarray(single_axis(r, "y").create_mask(Rotation.from_quat(quat), t.shape))
            same = np.shape(got) == np.shape(want) and bool((np.asarray(got) == want).all())
        if not same:
            bad.append({"model": k, "tilt": r, "wrong_bins": int((np.asarray(got) != want).sum()) if np.shape(got) == np.shape(want) else "shape"})
    return len(bad) > 0, {"n_problems": len(bad), "problems": bad[:4], "sequence": [list(r) if r else None for r in seq]}


def sec_model_history(rec, patches=None):
    """two alignment models with different (symbolic) tilt ranges, then one without a wedge, asked for their mask one after the other in the same process
    (same box, same orientation): each answer is the mask of the model's own tilt model - no state may leak from one model object to the next"""
    L = load.load(MODS + ["acryo._rotation", "acryo.alignment._base"], overrides={"Rotation": rotation.SymRotation}, patches=patches, keep_cache=True)
    Lf = _load(patches)
    B, T = L["acryo.alignment._base"], L["acryo.tilt.core"]
    API = L["acryo.backend._api"]
    xp = stubs.make_backend(API, API.np, None)
    rec.encodes("acryo/alignment/_base.py:TomographyInput._get_missing_wedge_mask (per-model state)", "acryo/alignment/_base.py:TomographyInput.__init__ (tilt dispatch)")
    rec.assume("functools.lru_cache is the real one; the template/rotation machinery of the model constructor is skipped; masks of a freshly loaded copy of the tilt modules are the reference")
    B.RotationImplemented.__init__ = lambda self, *a, **k: None
    shape = (2, 3, 4)

    class TI(B.TomographyInput):
        _optimize = _score = None
        input_shape = property(lambda self: shape)

    t0, h0 = make_tilt("tmin")
    t1, h1 = make_tilt("tmax")
    u0, g0 = make_tilt("umin")
    u1, g1 = make_tilt("umax")
    hyps = h0 + h1 + g0 + g1 + ordered(t0, t1) + ordered(u0, u1) + [t0.deg.e < t1.deg.e, u0.deg.e < u1.deg.e]
    q = list(rotation.R30[9])
    import warnings

    def run():
        rot = rotation.SymRotation(q)
        with warnings.catch_warnings():
            warnings.simplefilter("ignore")
            mA = TI(None, tilt=T.single_axis((t0, t1), "y"))
            mB = TI(None, tilt=T.single_axis((u0, u1), "y"))
            mN = TI(None, tilt=None)
        got = [m._get_missing_wedge_mask(q, xp) for m in (mA, mB, mN, mB, mA)]
        Tf = Lf["acryo.tilt.core"]
        want = [Tf.single_axis(r, "y").create_mask(rot, shape) for r in ((t0, t1), (u0, u1))]
        return got, want

    tag = "model-history[A>B>none>B>A]"
    for pi, p in enumerate(explore(run, assumptions=hyps, max_paths=20)):
        if not p.ok:
            ok, det = replay_model_history({})
            rec.fact(f"{tag}/path{pi}/runs", False, key="C08/model-history/raises", detail={"exc": repr(p.exc)[:300], **det}, reproduced=ok)
            continue
        got, want = p.result
        h = hyps + [p.condition()]
        for k, (g, wi) in enumerate(zip(got, (0, 1, None, 1, 0))):
            if wi is None:
                okn = all((not isinstance(v, (Sym, SymBool))) and v == 1 for v in np.asarray(_obj(to_symarray(g)) if np.ndim(g) else np.array([g], dtype=object)).reshape(-1))
                rec.fact(f"{tag}/path{pi}/call{k}: a model without a tilt model has no wedge", bool(okn), key="C08/model-history/mask-of-another-model", detail={"got": repr(g)[:80]}, reproduced=True if okn else replay_model_history({})[0])
                continue
            g_, w_ = _obj(to_symarray(g)), _obj(want[wi])
            if g_.shape != w_.shape:
                rec.fact(f"{tag}/path{pi}/call{k}/shape", False, key="C08/model-history/mask-of-another-model", detail={"got": list(g_.shape)}, reproduced=replay_model_history({})[0])
                continue
            goal = z3.And(*[zb(g_[idx]) == zb(w_[idx]) for idx in np.ndindex(shape)])
            rec.query(f"{tag}/path{pi}/call{k}=mask-of-the-model's-own-tilt-range", h, goal, key="C08/model-history/mask-of-another-model", replay=replay_model_history, twin=False, nonlinear=True)


def sec_dispatch(rec, patches=None):
    """tilt=(a,b), tilt=single_axis((a,b)), tilt_range=(a,b) select the same model; tilt=None selects no wedge"""
    L = load.load(MODS + ["acryo._rotation", "acryo.alignment._base"], overrides={"Rotation": rotation.SymRotation}, patches=patches)
    B, T, Bs, S = L["acryo.alignment._base"], L["acryo.tilt.core"], L["acryo.tilt._base"], L["acryo.tilt._single"]
    rec.encodes("acryo/alignment/_base.py:TomographyInput.__init__ (tilt dispatch)", "acryo/alignment/_base.py:TomographyInput._get_missing_wedge_mask")
    B.RotationImplemented.__init__ = lambda self, *a, **k: None

    class TI(B.TomographyInput):
        _optimize = _score = None

    a, b = -50.0, 40.0
    import warnings

    def model_of(**kw):
        with warnings.catch_warnings():
            warnings.simplefilter("ignore")
            return TI(None, **kw)._tilt_model

    def replay_dispatch(cex):
        from acryo.alignment import ZNCCAlignment
        from scipy.spatial.transform import Rotation

        t = np.zeros((4, 4, 4), dtype=np.float32)
        t[1, 2, 3] = 1
        with warnings.catch_warnings():
            warnings.simplefilter("ignore")
            m1 = ZNCCAlignment(t, tilt=(a, b))
            m2 = ZNCCAlignment(t, tilt_range=(a, b))
        qq = np.array([0.1, 0.2, 0.3, 0.9])
        qq /= np.linalg.norm(qq)
        k1, k2 = np.asarray(m1._get_missing_wedge_mask(qq, __import__("acryo").backend.Backend())), np.asarray(m2._get_missing_wedge_mask(qq, __import__("acryo").backend.Backend()))
        return not np.array_equal(k1.astype(bool), k2.astype(bool)), {"tilt": [a, b], "bins_kept_with_tilt": int(k1.sum()), "bins_kept_with_tilt_range": int(k2.sum())}

    m_tuple = model_of(tilt=(a, b))
    m_obj = model_of(tilt=T.single_axis((a, b)))
    m_legacy = model_of(tilt_range=(a, b))
    m_none = model_of()
    ok_t = isinstance(m_tuple, S.SingleAxisY) and tuple(m_tuple.tilt_range) == (a, b)
    ok_o = isinstance(m_obj, S.SingleAxisY) and tuple(m_obj.tilt_range) == (a, b)
    ok_l = isinstance(m_legacy, S.SingleAxisY) and tuple(getattr(m_legacy, "tilt_range", ())) == (a, b)
    rec.fact("dispatch/tilt=tuple", ok_t, key="C08/dispatch/tuple", detail={"model": repr(m_tuple)})
    rec.fact("dispatch/tilt=model-object", ok_o, key="C08/dispatch/object", detail={"model": repr(m_obj)})
    okr, det = (True, {}) if ok_l else replay_dispatch({})
    rec.fact("dispatch/tilt_range=legacy-keyword", ok_l, key="C08/dispatch/legacy-keyword-ignored", detail={"model": repr(m_legacy), **det}, reproduced=okr)
    rec.fact("dispatch/tilt=None->no-wedge", isinstance(m_none, Bs.NoWedge), key="C08/dispatch/none", detail={"model": repr(m_none)})
    # _get_missing_wedge_mask hands (Rotation.from_quat(quat), input_shape) to the model
    seen = []

    class Spy(Bs.TiltSeriesModel):
        def create_mask(self, rotator, shape):
            seen.append((rotator, shape))
            return "MASK"

    m = TI.__new__(TI)
    m._tilt_model = Spy()
    m._template = np.zeros((3, 4, 5), dtype=np.float32)
    m._ndim = 3
    qs = [real(f"q{c}") for c in "xyzw"]

    class FB:
        def asarray(self, x):
            return ("asarray", x)

    out = m._get_missing_wedge_mask(to_symarray(qs), FB())
    ok = out == ("asarray", "MASK") and len(seen) == 1 and tuple(seen[0][1]) == (3, 4, 5) and all(z3.eq(zr(seen[0][0].as_quat()[i]), qs[i].e) for i in range(4))
    rec.fact("dispatch/_get_missing_wedge_mask(quat)->create_mask(Rotation(quat), input_shape)", bool(ok), key="C08/dispatch/plumbing", detail={})


def _shapes(tier):
    if quick(tier):
        return [(1, 1, 1), (2, 2, 2), (3, 3, 3), (4, 4, 4), (2, 3, 4), (4, 2, 3), (3, 1, 4), (1, 4, 2)]
    return list(itertools.product(range(1, 6), repeat=3))


def sections(tier):
    S = [("union-iterable", "checks.c08", "sec_union_iterable", {}), ("combine", "checks.c08", "sec_combine", {}), ("dispatch", "checks.c08", "sec_dispatch", {}), ("cache-history", "checks.c08", "sec_history", {}), ("model-history", "checks.c08", "sec_model_history", {})]
    shapes = _shapes(tier)
    quats = rotation.R6 if quick(tier) else rotation.R30
    for si, shp in enumerate(shapes):
        for qi in range(0, len(quats), 3 if quick(tier) else 5):
            qs = quats[qi:qi + (3 if quick(tier) else 5)]
            for axis in ("y", "x"):
                S.append((f"mask-model-{axis}-{shp}-q{qi}", "checks.c08", "sec_mask", {"shapes": [shp], "quats": qs, "axis": axis, "entry": "model"}))
        # the two function entry points (axis y only), fewer orientations
        for entry in ("utils", "backend"):
            S.append((f"mask-{entry}-{shp}", "checks.c08", "sec_mask", {"shapes": [shp], "quats": [quats[0], quats[3 % len(quats)]] if quick(tier) else quats[:6], "axis": "y", "entry": entry}))
    return S


_TU = "acryo.tilt._utils"
_TS = "acryo.tilt._single"
_U = "acryo._utils"
_MW = "acryo.backend._missing_wedge"
_q = rotation.R30
MUTANTS = [
    ("model-history:wedge-memoised-per-class-without-the-tilt-model (seeded change C07_11)", "checks.c08", "sec_model_history", {},
     {"acryo.alignment._base": [("        mask = self._tilt_model.create_mask(\n            Rotation.from_quat(quat),\n            self.input_shape,  # type: ignore\n        )\n        return backend.asarray(mask)",
                                 "        key = (np.asarray(quat, dtype=np.float64).tobytes(), self.input_shape)\n        cache = TomographyInput.__dict__.get('_wc')\n        if cache is None:\n            cache = {}\n            TomographyInput._wc = cache\n        if key not in cache:\n            cache[key] = backend.asarray(self._tilt_model.create_mask(Rotation.from_quat(quat), self.input_shape))\n        return cache[key]")]}),
    ("grid:revert-odd-size-fix", "checks.c08", "sec_mask", {"shapes": [(3, 3, 3)], "quats": [_q[9]], "axis": "y", "entry": "model"},
     {_TU: [("        ind -= s // 2\n    return np.fft.ifftshift(", "        ind -= math.ceil(s / 2)\n    return np.fft.fftshift(")]}),
    ("grid:floor-div-only", "checks.c08", "sec_mask", {"shapes": [(3, 2, 5)], "quats": [_q[0]], "axis": "y", "entry": "utils"}, {_U: [("    return np.fft.ifftshift(np.stack(list(inds), axis=-1), axes=(0, 1, 2))", "    return np.fft.fftshift(np.stack(list(inds), axis=-1), axes=(0, 1, 2))")]}),
    ("normals:revert-noncubic-fix", "checks.c08", "sec_mask", {"shapes": [(2, 3, 4)], "quats": [_q[9]], "axis": "y", "entry": "model"},
     {_TS: [("        normal0 = rotator_inv.apply(normal0) / shape_vector\n        normal1 = rotator_inv.apply(normal1) / shape_vector\n        vectors = _utils.get_indices(shape)\n        dot0 = vectors.dot(normal0)\n        dot1 = vectors.dot(normal1)\n        missing = dot0 * dot1 <= 0\n        return missing\n\n    def _mask_from_norms",
             "        normal0 = rotator_inv.apply(normal0 * shape_vector)\n        normal1 = rotator_inv.apply(normal1 * shape_vector)\n        vectors = _utils.get_indices(shape)\n        dot0 = vectors.dot(normal0)\n        dot1 = vectors.dot(normal1)\n        missing = dot0 * dot1 <= 0\n        return missing\n\n    def _mask_from_norms")]}),
    ("normals:scale-before-rotation", "checks.c08", "sec_mask", {"shapes": [(2, 3, 4)], "quats": [_q[9]], "axis": "y", "entry": "backend"}, {_MW: [("    normal0 = rotator_inv.apply(normal0) / shape_vector", "    normal0 = rotator_inv.apply(normal0 / shape_vector)")]}),
    ("normals:forward-rotation", "checks.c08", "sec_mask", {"shapes": [(2, 2, 2)], "quats": [_q[9]], "axis": "y", "entry": "model"}, {_TS: [("        rotator_inv = rotator.inv()\n", "        rotator_inv = rotator\n")]}),
    ("mask:strict-inequality", "checks.c08", "sec_mask", {"shapes": [(2, 2, 2)], "quats": [_q[0]], "axis": "y", "entry": "utils"}, {_U: [("    missing = dot0 * dot1 <= 0\n    return missing", "    missing = dot0 * dot1 < 0\n    return missing")]}),
    ("norms:x-y-swapped", "checks.c08", "sec_mask", {"shapes": [(2, 2, 2)], "quats": [_q[0]], "axis": "x", "entry": "model"}, {_TS: [("        return _utils.get_norms_x(self._tilt_range)", "        return _utils.get_norms_y(self._tilt_range)")]}),
    ("norms:sign-of-angle", "checks.c08", "sec_mask", {"shapes": [(2, 2, 2)], "quats": [_q[0]], "axis": "y", "entry": "model"}, {_TU: [("    ang0 = math.pi - math.radians(degmin)\n    ang1 = math.pi - math.radians(degmax)\n    return (\n        np.array([math.cos(ang0), 0.0, math.sin(ang0)], dtype=np.float32),", "    ang0 = math.pi + math.radians(degmin)\n    ang1 = math.pi - math.radians(degmax)\n    return (\n        np.array([math.cos(ang0), 0.0, math.sin(ang0)], dtype=np.float32),")]}),
    ("union:minimum", "checks.c08", "sec_combine", {}, {"acryo.tilt._base": [("return reduce(np.maximum, (w.create_mask(rotator, shape) for w in self._wedges))", "return reduce(np.minimum, (w.create_mask(rotator, shape) for w in self._wedges))")]}),
    ("dispatch:revert-legacy-keyword-fix", "checks.c08", "sec_dispatch", {}, {"acryo.alignment._base": [("            if tilt is None:\n                tilt = tilt_range\n", "            tilt_model = single_axis(tilt_range)\n")]}),
]


def run(tier, procs=None, only=None):
    S = select(sections(tier), only)
    return harness.run_check(
        PID, tier, S, procs=procs,
        explanation="The three mask implementations are executed with the tilt pair carried symbolically as unit (cos, sin) pairs and exact rational orientations; for every "
                    "Fourier bin z3 (nlsat) decides that the bin is kept iff the physical frequency (FFT index / box length), mapped by the orientation, lies between the two "
                    "tilt planes; plus DC, k<->-k symmetry, no-wedge, dual-axis union and the keyword dispatch of TomographyInput.",
        bounds={"box shapes": f"{len(_shapes(tier))} shapes from {{1..{4 if quick(tier) else 5}}}^3 (odd, even, non-cubic)", "orientations": ("6" if quick(tier) else "30") + " exact rational unit quaternions",
                "tilt range": "every -90 <= min < max <= 90 (symbolic)", "axes": ["y", "x"], "entry points": ["tilt models", "acryo._utils.missing_wedge_mask", "Backend.missing_wedge_mask"]},
        trusted_base=TRUSTED + ["SymRotation (exact quaternion -> matrix)", "angle algebra on the unit circle (symx.angles)"],
        outside=["k <-> -k symmetry on the Nyquist plane of an even axis (the FFT-ordered index -n/2 has no negative; the geometric rule itself is asymmetric there)",
                 "global sign convention of the tilt angle (assumption A-C08)", "orientations outside the rational set", "bins whose defining product is exactly zero are compared exactly (the float32 code may round them either way)"],
        mutants=MUTANTS if (not quick(tier) and not only) else None,
    )


# every real-library oracle of this property (each returns (reproduced, detail)); used to confirm structural facts that carry no replay of their own
ALL_REPLAYS = [lambda c: replay_mask((3, 4, 5), [0.5, 0.5, 0.5, 0.5], 'y')(c), lambda c: replay_mask((4, 4, 4), [0, 0, 0, 1], 'x')(c), replay_union_iterable, replay_history, replay_model_history]


def replay(data):
    det = data.get("replay_detail") or {}
    key = data.get("key", "")
    if "union-iterable" in key or "history" in key or key == "C08/union":
        ok, detail = (replay_union_iterable if "iterable" in key else replay_history)(data.get("cex") or {})
        print("replay:", detail)
        print("REPRODUCED" if ok else "not reproduced")
        return 1 if ok else 0
    ok, detail = replay_mask(tuple(det.get("shape", (3, 3, 3))), det.get("quat", [0, 0, 0, 1]), det.get("axis", "y"), det.get("entry", "model"))(data.get("cex") or {})
    print("replay:", detail)
    print("REPRODUCED" if ok else "not reproduced")
    return 1 if ok else 0
